/-
C09 — a saved index is either equivalent to a fresh one or is rejected.

Model: FeVerif/Model/FileIndex.lean (`saveBytes`, `load`), tied to file_index.py by tools/props/c09.py
(every truncation length of real `.p1i` files × data-file variants).  An index is identified with its
records `(whole-second P1 time | none, type, offset)`; ordinals are positions.  `cfgFile.runFile d 0` is
the sequential scan of data file `d` (= the fresh index by C08).
-/
import FeVerif.Proofs.FileIndex

namespace FeVerif
open FileIndex Cfg Indexer

theorem cfgFile_msgLen (buf : Bytes) : cfgFile.msgLen buf = HDR + u32le buf 16 := by
  unfold Cfg.msgLen cfgFile; simp only; unfold HDR; rw [u32le_take (by omega)]

/-- The end-of-file marker `save` appends. -/
def eofMarker (dataSize : Nat) : Rec := ⟨none, INVALID_TYPE, dataSize⟩

theorem eofMarker_wf (n : Nat) (h : n < 18446744073709551616) : (eofMarker n).WF := by
  unfold eofMarker Rec.WF INVALID_TYPE; simp; exact h

theorem wf_append {idx : List Rec} {n : Nat} (hwf : ∀ r ∈ idx, r.WF) (h : n < 18446744073709551616) :
    ∀ r ∈ idx ++ [eofMarker n], r.WF := by
  intro r hr
  rcases List.mem_append.1 hr with h1 | h1
  · exact hwf r h1
  · have : r = eofMarker n := by simpa using h1
    rw [this]; exact eofMarker_wf n h

theorem saveBytes_eq (idx : List Rec) (hne : idx ≠ []) (hty : ∀ r ∈ idx, r.type ≠ INVALID_TYPE) (n : Nat) :
    saveBytes idx n = some (encodeRecs (idx ++ [eofMarker n])) := by
  unfold saveBytes
  cases hl : idx.getLast? with
  | none => exact absurd (List.getLast?_eq_none_iff.1 hl) hne
  | some last =>
    have : last ∈ idx := List.mem_of_getLast? hl
    simp only [if_pos (hty last this)]; rfl

/-- **Saved index ≡ fresh index.** Saving a non-empty index and loading it against the unchanged data
file returns exactly the saved entries. -/
theorem C09_saved_index_equiv (idx : List Rec) (data : Bytes) (hwf : ∀ r ∈ idx, r.WF) (hne : idx ≠ [])
    (hty : ∀ r ∈ idx, r.type ≠ INVALID_TYPE) (hd : data.length < 18446744073709551616)
    (hpos : 0 < data.length) :
    ∃ b, saveBytes idx data.length = some b ∧ load b data = .ok idx := by
  refine ⟨_, saveBytes_eq idx hne hty _, ?_⟩
  unfold load
  rw [decodeRecs_encodeRecs _ (wf_append hwf hd)]
  rw [if_neg (by omega), if_neg (by simp)]
  simp only [List.getLast?_append, List.getLast?_singleton, Option.some_or]
  simp [eofMarker]

/-- **A changed data size is noticed, and the stale index does not survive.** With the complete index
file on disk, any data file of a different size is refused with the error the caller handles by
re-indexing, and the index file is deleted (so that it cannot be accepted again should the data file
later return to the old size while a re-indexing in between found nothing to save). -/
theorem C09_size_change_rejected (idx : List Rec) (n : Nat) (data' : Bytes) (hwf : ∀ r ∈ idx, r.WF)
    (hn : n < 18446744073709551616) (hsize : data'.length ≠ n) :
    load (encodeRecs (idx ++ [eofMarker n])) data' = .valueError true := by
  unfold load
  rw [decodeRecs_encodeRecs _ (wf_append hwf hn)]
  by_cases h0 : data'.length = 0
  · rw [if_pos ⟨h0, by simp⟩]
  · rw [if_neg (by simp [h0]), if_neg (by simp)]
    simp only [List.getLast?_append, List.getLast?_singleton, Option.some_or]
    simp [eofMarker, hsize]

/-- **Every crash point of `save`, every later growth or shrinkage of the data file.**
Let the index of data file `d` (its offsets are the sequential scan of `d`) have been saved, and let
only the first `k` bytes of the index file have reached the disk (`k` arbitrary, including all of them).
Let the data file since have been appended to or truncated (`d'`).  If `load` accepts what is on disk,
the loaded index lists exactly the messages of a fresh sequential scan of `d'`. -/
theorem C09_truncated_index_sound (d : Bytes) (idx : List Rec) (hwf : ∀ r ∈ idx, r.WF)
    (hty : ∀ r ∈ idx, r.type ≠ INVALID_TYPE) (hd : d.length < 18446744073709551616)
    (hidx : idx.map (·.offset) = (cfgFile.runFile d 0).map (·.1))
    (k : Nat) (d' : Bytes) (hd' : (∃ x, d' = d ++ x) ∨ (∃ m, d' = d.take m)) (i : List Rec)
    (hload : load ((encodeRecs (idx ++ [eofMarker d.length])).take k) d' = .ok i) :
    i.map (·.offset) = (cfgFile.runFile d' 0).map (·.1) := by
  have hH : HDR = 24 := rfl
  have hlen : idx.length = (cfgFile.runFile d 0).length := by
    have := congrArg List.length hidx; simpa using this
  unfold load at hload
  rw [decodeRecs_take _ (wf_append hwf hd)] at hload
  generalize hj : k / REC = j at hload
  by_cases hjn : idx.length < j
  · -- the marker survived: the data size must be unchanged
    have hall : (idx ++ [eofMarker d.length]).take j = idx ++ [eofMarker d.length] :=
      List.take_of_length_le (by simp; omega)
    rw [hall] at hload
    split at hload; · cases hload
    split at hload; · cases hload
    simp only [List.getLast?_append, List.getLast?_singleton, Option.some_or] at hload
    have e1 : (eofMarker d.length).type = INVALID_TYPE := rfl
    rw [if_pos e1] at hload
    by_cases hsz' : d'.length = (eofMarker d.length).offset
    · rw [if_pos hsz'] at hload
      have hsz : d'.length = d.length := hsz'
      injection hload with hi
      have hdd : d' = d := by
        rcases hd' with ⟨x, rfl⟩ | ⟨m, rfl⟩
        · have : x.length = 0 := by rw [List.length_append] at hsz; omega
          rw [List.eq_nil_of_length_eq_zero this]; simp
        · exact List.take_of_length_le (by rw [List.length_take] at hsz; omega)
      subst hdd
      rw [← hi]; simpa using hidx
    · rw [if_neg hsz'] at hload; cases hload
  · -- only entries survived
    have hjle : j ≤ idx.length := by omega
    have hrecs : (idx ++ [eofMarker d.length]).take j = idx.take j := by
      rw [List.take_append_of_le_length hjle]
    rw [hrecs] at hload
    split at hload; · cases hload
    split at hload; · cases hload
    rename_i hc1 hc2
    cases hl : (idx.take j).getLast? with
    | none =>
      rw [hl] at hload
      injection hload with hi
      have hnil : idx.take j = [] := List.getLast?_eq_none_iff.1 hl
      have hd0 : d'.length = 0 := by
        by_cases h : d'.length = 0
        · exact h
        · exact absurd ⟨h, hnil⟩ hc2
      have : d' = [] := List.eq_nil_of_length_eq_zero hd0
      subst this
      rw [← hi, runFile_stop]; · rfl
      unfold Cfg.stepFile; rw [if_pos]; exact cfgFile.hdrLen_pos
    | some last =>
      rw [hl] at hload
      have hlast_mem : last ∈ idx := List.mem_of_mem_take (List.mem_of_getLast? hl)
      simp only [if_neg (hty last hlast_mem)] at hload
      split at hload; · cases hload
      rename_i hfit
      split at hload
      · rename_i hsz
        injection hload with hi
        -- `last` is entry j-1 of the index = message j-1 of the scan of d
        have hjpos : 0 < j := by
          cases j with
          | zero => simp at hl
          | succ _ => omega
        have hj1 : j - 1 < idx.length := by omega
        have hlast_eq : last = idx[j - 1]'hj1 := by
          have h1 : (idx.take j).getLast? = some (idx[j - 1]'hj1) := by
            rw [List.getLast?_eq_getElem?, List.length_take, Nat.min_eq_left hjle,
              List.getElem?_take_of_lt (by omega), List.getElem?_eq_getElem hj1]
          rw [h1] at hl; injection hl with hl; exact hl.symm
        have hjL : j - 1 < (cfgFile.runFile d 0).length := by omega
        have hoff : last.offset = ((cfgFile.runFile d 0)[j - 1]'hjL).1 := by
          have := congrArg (fun l => l[j - 1]?) hidx
          simp only [List.getElem?_map, List.getElem?_eq_getElem hj1, List.getElem?_eq_getElem hjL,
            Option.map_some] at this
          injection this with this
          rw [hlast_eq]; exact this
        have hmem : (cfgFile.runFile d 0)[j - 1]'hjL ∈ cfgFile.runFile d 0 := List.getElem_mem hjL
        have hv := runFile_mem_valid (c := cfgFile) d 0 _ hmem
        have hge := runFile_ge (c := cfgFile) d 0 _ hmem
        rw [Nat.sub_zero] at hv
        rw [stepFile_emit_iff, step_emit_iff] at hv
        obtain ⟨_, _, hn, _, _⟩ := hv
        rw [cfgFile_msgLen] at hn
        rw [u32le_drop] at hn
        -- the payload size read from d' is the one in d
        have hu : u32le d' (last.offset + 16) = u32le d (last.offset + 16) := by
          rcases hd' with ⟨x, rfl⟩ | ⟨m, rfl⟩
          · rw [u32le_append (by rw [hoff]; omega)]
          · rw [u32le_take]
            have : (d.take m).length = min m d.length := by simp
            simp only [List.length_take] at hfit
            omega
        rw [hu, hoff] at hsz
        have hend : ((cfgFile.runFile d 0)[j - 1]'hjL).1 + ((cfgFile.runFile d 0)[j - 1]'hjL).2 = d'.length := by
          rw [hn]; omega
        -- so d' is d cut at the end of message j-1
        have hcut : d' = d.take d'.length ∧ d'.length ≤ d.length := by
          rcases hd' with ⟨x, rfl⟩ | ⟨m, rfl⟩
          · have : x.length = 0 := by rw [List.length_append] at hsz; omega
            rw [List.eq_nil_of_length_eq_zero this]; simp
          · simp only [List.length_take]
            refine ⟨?_, Nat.min_le_right _ _⟩
            rw [List.take_eq_take_iff.2]; simp
        have := runFile_take_idx (c := cfgFile) d 0 d'.length (j - 1) hcut.2 hjL (by omega)
        rw [← hcut.1, show j - 1 + 1 = j by omega] at this
        rw [this, ← hi, List.map_take, List.map_take, hidx]
      · cases hload

end FeVerif
