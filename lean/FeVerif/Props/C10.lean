/-
C10 — filtered log reads return exactly the matching messages, in file order.

Model: FeVerif/Model/Reader.lean (`construct`, `readAll`), spec: FeVerif/Spec/Reader.lean (`filterSpec`),
tied to mixed_log_reader.py / file_index.py by tools/props/c10.py.  A log is the unfiltered read.
-/
import FeVerif.Proofs.Reader

namespace FeVerif
open Reader

theorem decide_le_eq_not_lt (a b : Nat) : decide (a ≤ b) = !decide (b < a) := by
  by_cases h : a ≤ b
  · have : ¬ b < a := by omega
    simp [h, this]
  · have : b < a := by omega
    simp [h, this]

theorem critOk_eq (log : List Msg) (c : Crit) (b : Option Nat × Option Nat) (p : Nat × Msg) :
    critOk log c b p =
      (typeOk c.types p.2 && (!srcBad c.sources p.2 && !cut2 c.maxBytes p.2) &&
        (match c.range with | none => true | some _ => inTime log b.1 b.2 p.1)) := by
  unfold critOk typeOk srcBad cut2
  cases c.types <;> cases c.sources <;> cases c.maxBytes <;> cases c.range <;>
    simp [Bool.and_comm, Bool.and_assoc, Bool.and_left_comm, decide_le_eq_not_lt]

theorem pipeline_none (log : List Msg) (hwf : LogWF log) (l : List (Nat × Msg)) (hsub : l.Sublist (zipOrd log 0))
    (sources : Option (List Nat)) (mb : Option Nat) :
    readAll log sources mb false (l.map entOf) =
      (l.filter fun p => typeOk none p.2 && (!srcBad sources p.2 && !cut2 mb p.2)).map (·.1) :=
  pipeline log hwf l hsub none sources mb

theorem pipeline_some (log : List Msg) (hwf : LogWF log) (l : List (Nat × Msg)) (hsub : l.Sublist (zipOrd log 0))
    (ts : List Nat) (sources : Option (List Nat)) (mb : Option Nat) :
    readAll log sources mb false (sliceByTypes (l.map entOf) ts) =
      (l.filter fun p => typeOk (some ts) p.2 && (!srcBad sources p.2 && !cut2 mb p.2)).map (·.1) :=
  pipeline log hwf l hsub (some ts) sources mb

/-- Type filter and read loop after any positional selection `sel` of the index. -/
theorem read_selected (log : List Msg) (hwf : LogWF log) (types sources : Option (List Nat)) (mb : Option Nat)
    (sel : Nat → Bool) :
    readAll log sources mb false (applyTypes types (((zipOrd log 0).filter fun p => sel p.1).map entOf)) =
      ((zipOrd log 0).filter fun p =>
        typeOk types p.2 && (!srcBad sources p.2 && !cut2 mb p.2) && sel p.1).map (·.1) := by
  have hsub : ((zipOrd log 0).filter fun p => sel p.1).Sublist (zipOrd log 0) := List.filter_sublist
  cases types with
  | none =>
    simp only [applyTypes]
    rw [pipeline_none log hwf _ hsub, List.filter_filter]
  | some ts =>
    simp only [applyTypes]
    rw [pipeline_some log hwf _ hsub, List.filter_filter]

/-- **Filtered read = specification.** For every log (unfiltered read) and every combination of
message-type, source-identifier, time-range and byte-limit criteria, the reader's constructor filters
followed by reading to the end return exactly the messages of the unfiltered read that satisfy every
criterion, in file order; both sides refuse (IndexError) exactly when a time range is applied to a log
without any P1 time. -/
theorem C10_read_eq_filterSpec (log : List Msg) (hwf : LogWF log) (c : Crit) :
    (construct log c.types c.range).map (readAll log c.sources c.maxBytes false) = filterSpec log c := by
  obtain ⟨types, range, sources, mb⟩ := c
  simp only
  have hall : ∀ (sel : Nat → Bool), (∀ p ∈ zipOrd log 0, sel p.1 = true) →
      (zipOrd log 0).filter (fun p => sel p.1) = zipOrd log 0 := by
    intro sel h
    exact List.filter_eq_self.2 h
  -- reading the whole index
  have hwhole : readAll log sources mb false (applyTypes types (indexOf log)) =
      ((zipOrd log 0).filter (critOk log ⟨types, none, sources, mb⟩ (none, none))).map (·.1) := by
    have := read_selected log hwf types sources mb (fun _ => true)
    rw [hall (fun _ => true) (fun _ _ => rfl)] at this
    unfold indexOf
    rw [indexFrom_eq, this]
    congr 1
    apply List.filter_congr
    intro p _
    rw [critOk_eq]
  unfold construct filterSpec applyRange
  cases range with
  | none =>
    simp only [Option.map_some]
    rw [hwhole]
  | some r =>
    simp only
    unfold sliceByRange sliceByTime
    by_cases hE : log.isEmpty = true
    · have : log = [] := List.isEmpty_iff.1 hE
      subst this
      cases types <;> simp [indexOf, indexFrom, readAll, sliceByTypes, applyTypes]
    · have hE' : (indexOf log).isEmpty = false := by
        unfold indexOf; rw [indexFrom_eq]
        cases log with
        | nil => simp at hE
        | cons m ms => simp [zipOrd]
      rw [hE', if_neg hE]
      simp only [Bool.false_eq_true, if_false]
      by_cases hB : ((bounds r (t0Of (indexOf log))).1.isNone && (bounds r (t0Of (indexOf log))).2.isNone) = true
      · rw [if_pos hB, if_pos hB]
        simp only [Option.map_some]
        rw [hwhole]
      · rw [if_neg hB, if_neg hB]
        cases ht : t0Of (indexOf log) with
        | none => simp
        | some t0 =>
          simp only [Option.isNone_some, Bool.false_eq_true, if_false, Option.map_some]
          -- the positional slice is a filter on ordinals
          have hslice : ((indexOf log).take (stopIdx (indexOf log) (bounds r (some t0)).2)).drop
                (startIdx (indexOf log) (bounds r (some t0)).1) =
              ((zipOrd log 0).filter fun p => inTime log (bounds r (some t0)).1 (bounds r (some t0)).2 p.1).map entOf := by
            have hlen : (indexOf log).length = log.length := by
              unfold indexOf; rw [indexFrom_eq, List.length_map, zipOrd_length]
            have e1 : stopIdx (indexOf log) (bounds r (some t0)).2 = specStop log (bounds r (some t0)).2 := by
              unfold stopIdx specStop
              cases (bounds r (some t0)).2 with
              | none => exact hlen
              | some sp => exact findIdx_timeGeNs log sp
            have e2 : startIdx (indexOf log) (bounds r (some t0)).1 = specStart log (bounds r (some t0)).1 := by
              unfold startIdx specStart
              cases (bounds r (some t0)).1 with
              | none => rfl
              | some st => exact findIdx_timeGe log (st / NS)
            rw [e1, e2]
            unfold indexOf
            rw [indexFrom_eq, ← List.map_take, ← List.map_drop, zipOrd_take_drop]
            congr 1
            apply List.filter_congr
            intro p _
            unfold inTime
            simp only [Nat.zero_add]
          rw [hslice]
          rw [read_selected log hwf types sources mb
            (fun i => inTime log (bounds r (some t0)).1 (bounds r (some t0)).2 i)]
          congr 2
          apply List.filter_congr
          intro p _
          rw [critOk_eq]

/-- **Combined filters = intersection.** A message satisfies the combined criteria iff it satisfies
each criterion alone (so the combined result is the intersection of the single-filter results, in
file order, and with no source filter every source passes). -/
theorem C10_combined_is_intersection (log : List Msg) (c : Crit) (b : Option Nat × Option Nat) (p : Nat × Msg) :
    critOk log c b p =
      (critOk log ⟨c.types, none, none, none⟩ b p && critOk log ⟨none, none, c.sources, none⟩ b p &&
       critOk log ⟨none, c.range, none, none⟩ b p && critOk log ⟨none, none, none, c.maxBytes⟩ b p) := by
  unfold critOk
  cases c.types <;> cases c.sources <;> cases c.maxBytes <;> cases c.range <;> simp

/-! ### Time bounds.  P1 times of the log do not decrease. -/

/-- P1 times of the timed messages do not decrease along the log. -/
abbrev TimesMonotone (log : List Msg) : Prop :=
  ∀ (i j : Nat) (mi mj : Msg) (ti tj : Nat), i ≤ j → log[i]? = some mi → log[j]? = some mj →
    mi.timeNs = some ti → mj.timeNs = some tj → ti ≤ tj

theorem first_le (log : List Msg) (q : Msg → Bool) (i : Nat) (m : Msg) (h : log[i]? = some m) (hq : q m = true) :
    log.findIdx q ≤ i := by
  have hi : i < log.length := by
    rcases Nat.lt_or_ge i log.length with h1 | h1
    · exact h1
    · rw [List.getElem?_eq_none h1] at h; cases h
  have hm : log[i] = m := by
    rw [List.getElem?_eq_getElem hi] at h; injection h
  rcases Nat.lt_or_ge i (log.findIdx q) with h1 | h1
  · have := List.not_of_lt_findIdx h1
    rw [hm, hq] at this; cases this
  · exact h1

theorem first_gt (log : List Msg) (q : Msg → Bool) (i : Nat) (hi : i < log.length)
    (h : ∀ j mj, j ≤ i → log[j]? = some mj → q mj = false) : i < log.findIdx q := by
  apply List.lt_findIdx_of_not hi
  intro j hj
  have hjl : j < log.length := by omega
  rw [h j log[j] hj (List.getElem?_eq_getElem hjl)]
  simp

theorem firstTimed_le (log : List Msg) (p : Nat → Bool) (i : Nat) (m : Msg) (k : Nat) (h : log[i]? = some m)
    (hs : secOf m = some k) (hp : p k = true) : firstTimed log p ≤ i := by
  unfold firstTimed
  exact first_le log _ i m h (by simp only [hs]; exact hp)

theorem firstTimed_gt (log : List Msg) (p : Nat → Bool) (i : Nat) (hi : i < log.length)
    (h : ∀ j mj tj, j ≤ i → log[j]? = some mj → secOf mj = some tj → p tj = false) : i < firstTimed log p := by
  unfold firstTimed
  apply first_gt log _ i hi
  intro j mj hj hmj
  cases hs : secOf mj with
  | none => rfl
  | some tj => simp only; exact h j mj tj hj hmj hs

/-- For a P1-timed message the positional test is a test on its own (whole-second) time. -/
theorem inTime_timed (log : List Msg) (hmono : TimesMonotone log) (start stop : Option Nat) (i : Nat) (m : Msg)
    (t : Nat) (hi : log[i]? = some m) (ht : m.timeNs = some t) :
    inTime log start stop i =
      ((match start with | none => true | some st => decide (t / NS ≥ st / NS)) &&
       (match stop with | none => true | some sp => decide (t / NS * NS < sp))) := by
  have hil : i < log.length := by
    rcases Nat.lt_or_ge i log.length with h1 | h1
    · exact h1
    · rw [List.getElem?_eq_none h1] at hi; cases hi
  have hsec : secOf m = some (t / NS) := by unfold secOf; rw [ht]; rfl
  -- whole-second times of earlier timed messages are not larger
  have hearlier : ∀ j mj tj, j ≤ i → log[j]? = some mj → secOf mj = some tj → tj ≤ t / NS := by
    intro j mj tj hj hmj hs
    unfold secOf at hs
    cases hjt : mj.timeNs with
    | none => rw [hjt] at hs; cases hs
    | some tjn =>
      rw [hjt] at hs
      simp only [Option.map_some, Option.some.injEq] at hs
      have := hmono j i mj m tjn t hj hmj hi hjt ht
      rw [← hs]; exact Nat.div_le_div_right this
  unfold inTime specStart specStop
  congr 1
  · cases start with
    | none => simp
    | some st =>
      simp only
      by_cases hge : t / NS ≥ st / NS
      · have := firstTimed_le log (fun t => decide (t ≥ st / NS)) i m (t / NS) hi hsec (by simpa using hge)
        rw [decide_eq_true this, decide_eq_true hge]
      · have := firstTimed_gt log (fun t => decide (t ≥ st / NS)) i hil
          (by
            intro j mj tj hj hmj hs
            have := hearlier j mj tj hj hmj hs
            simp only [decide_eq_false_iff_not]; omega)
        rw [decide_eq_false hge, decide_eq_false (by omega)]
  · cases stop with
    | none => simp [hil]
    | some sp =>
      simp only
      by_cases hlt : t / NS * NS < sp
      · have := firstTimed_gt log (fun t => decide (t * NS ≥ sp)) i hil
          (by
            intro j mj tj hj hmj hs
            have h2 := hearlier j mj tj hj hmj hs
            have h3 : tj * NS ≤ t / NS * NS := Nat.mul_le_mul_right _ h2
            simp only [decide_eq_false_iff_not]; omega)
        rw [decide_eq_true this, decide_eq_true hlt]
      · have := firstTimed_le log (fun t => decide (t * NS ≥ sp)) i m (t / NS) hi hsec (by simp; omega)
        rw [decide_eq_false hlt, decide_eq_false (by omega)]

/-- **Exact bounds for whole seconds.** If start and end are whole seconds, a P1-timed message is in
range exactly when `start ≤ t < end`. -/
theorem C10_time_bounds_exact (log : List Msg) (hmono : TimesMonotone log) (s e : Nat) (i : Nat) (m : Msg)
    (t : Nat) (hi : log[i]? = some m) (ht : m.timeNs = some t) :
    inTime log (some (s * NS)) (some (e * NS)) i = (decide (s * NS ≤ t) && decide (t < e * NS)) := by
  rw [inTime_timed log hmono _ _ i m t hi ht]
  have hNS : 0 < NS := by decide
  simp only
  congr 1
  · rw [Nat.mul_div_cancel _ hNS]
    simp only [decide_eq_decide, ge_iff_le]
    exact Nat.le_div_iff_mul_le hNS
  · simp only [decide_eq_decide]
    rw [Nat.mul_lt_mul_right hNS]
    exact Nat.div_lt_iff_lt_mul hNS

/-- **Slack for fractional bounds.** For arbitrary bounds: every P1-timed message inside `[start, end)`
is returned, and a returned one is later than `start − 1 s` and earlier than `end + 1 s`. -/
theorem C10_time_bounds_slack (log : List Msg) (hmono : TimesMonotone log) (s e : Nat) (i : Nat) (m : Msg)
    (t : Nat) (hi : log[i]? = some m) (ht : m.timeNs = some t) :
    (s ≤ t ∧ t < e → inTime log (some s) (some e) i = true) ∧
    (inTime log (some s) (some e) i = true → s < t + NS ∧ t < e + NS) := by
  rw [inTime_timed log hmono _ _ i m t hi ht]
  have hNS : 0 < NS := by decide
  simp only [Bool.and_eq_true, decide_eq_true_eq]
  have h1 := Nat.div_add_mod t NS
  have h2 := Nat.mod_lt t hNS
  have h3 := Nat.div_add_mod s NS
  have h4 := Nat.mod_lt s hNS
  have hm : NS * (t / NS) = t / NS * NS := Nat.mul_comm _ _
  constructor
  · rintro ⟨hs, he⟩
    exact ⟨Nat.div_le_div_right hs, by omega⟩
  · rintro ⟨hs, he⟩
    have : NS * (s / NS) ≤ NS * (t / NS) := Nat.mul_le_mul_left _ hs
    omega

/-- **Relative ranges.** A relative range `[s, e)` is anchored at the index's whole-second `t0`
(the floor of the true first P1 time `T0`), as `bounds` computes it. Then a P1-timed message at least
one second inside `[T0 + s, T0 + e)` is returned, and a returned one is less than two seconds before
`T0 + s` and less than one second after `T0 + e`. -/
theorem C10_time_bounds_relative (log : List Msg) (hmono : TimesMonotone log) (T0 s e : Nat) (i : Nat) (m : Msg)
    (t : Nat) (hi : log[i]? = some m) (ht : m.timeNs = some t) :
    bounds ⟨false, some s, some e, none⟩ (some (T0 / NS)) = (some (T0 / NS * NS + s), some (T0 / NS * NS + e)) ∧
    (T0 + s + NS ≤ t ∧ t + NS < T0 + e → inTime log (some (T0 / NS * NS + s)) (some (T0 / NS * NS + e)) i = true) ∧
    (inTime log (some (T0 / NS * NS + s)) (some (T0 / NS * NS + e)) i = true → T0 + s < t + 2 * NS ∧ t < T0 + e + NS) := by
  have hNS : 0 < NS := by decide
  have h1 := Nat.div_add_mod T0 NS
  have h2 := Nat.mod_lt T0 hNS
  have hm : NS * (T0 / NS) = T0 / NS * NS := Nat.mul_comm _ _
  have hs := C10_time_bounds_slack log hmono (T0 / NS * NS + s) (T0 / NS * NS + e) i m t hi ht
  refine ⟨rfl, ?_, ?_⟩
  · rintro ⟨ha, hb⟩
    exact hs.1 ⟨by omega, by omega⟩
  · intro h
    have := hs.2 h
    omega

/-- **A range entirely after the log returns nothing** (no P1 time at or after the floored start). -/
theorem C10_range_after_log_empty (log : List Msg) (s : Nat) (stop : Option Nat)
    (hafter : ∀ m ∈ log, ∀ t, m.timeNs = some t → t / NS < s / NS) (i : Nat) (hi : i < log.length) :
    inTime log (some s) stop i = false := by
  unfold inTime specStart
  have hlen : firstTimed log (fun t => decide (t ≥ s / NS)) = log.length := by
    unfold firstTimed
    rw [List.findIdx_eq_length]
    intro m hm
    cases hs : secOf m with
    | none => rfl
    | some tt =>
      unfold secOf at hs
      cases hmt : m.timeNs with
      | none => rw [hmt] at hs; cases hs
      | some tn =>
        rw [hmt] at hs; simp only [Option.map_some, Option.some.injEq] at hs
        have := hafter m hm tn hmt
        simp only [decide_eq_false_iff_not]; omega
  simp only [hlen]
  have : ¬ log.length ≤ i := by omega
  simp [this]

/-! ### The time range handed to `filter_in_place()` of a reader constructed with the other criteria

`Reader.constructThenFilterTime` is what the index path of `filter_in_place()` computes: the positional time
slice of the CURRENT (type-filtered) index.  It is the cursor model's `filterTime` step (the one C11 refines);
without a type filter it is the constructor's own chain, so `C10_read_eq_filterSpec` covers it; with a type
filter it is not the specification: an untimed message of a selected type is then placed among the selected
types only (finding `C10/filter-in-place-time-range-on-type-filtered-reader`, witnessed below). -/

/-- Without a type filter both routes are the same function. -/
theorem C10_filter_in_place_route_no_types (log : List Msg) (range : Option TRange) :
    constructThenFilterTime log none range = construct log none range := by
  unfold constructThenFilterTime construct applyRange applyTypes
  cases range <;> simp

/-- Hence: a reader without a type filter that is given its time range through `filter_in_place()` returns
exactly the specified messages. -/
theorem C10_filter_in_place_route_no_types_spec (log : List Msg) (hwf : LogWF log) (c : Crit) (hc : c.types = none) :
    (constructThenFilterTime log c.types c.range).map (readAll log c.sources c.maxBytes false) = filterSpec log c := by
  rw [← C10_read_eq_filterSpec log hwf c, hc, C10_filter_in_place_route_no_types]

/-- The route is the cursor model's `filterTypes` step followed by its `filterTime` step (a refused range
leaves the type-filtered index in place and raises). -/
theorem C10_filter_in_place_route_is_cursor_step (log : List Msg) (ts : List Nat) (r : TRange) :
    (step (step (Cur.init (indexOf log)) (.filterTypes ts)).1 (.filterTime r)).1.cur =
      (constructThenFilterTime log (some ts) (some r)).getD (sliceByTypes (indexOf log) ts) := by
  simp only [step, Cur.init, Cur.withCur, constructThenFilterTime, applyTypes]
  cases sliceByRange (sliceByTypes (indexOf log) ts) (t0Of (indexOf log)) r <;> rfl

def openFindingLog : List Msg :=
  [⟨0, 30, 2, 0, some 0⟩, ⟨30, 30, 1, 0, none⟩, ⟨60, 30, 1, 0, some 1000000000⟩, ⟨90, 30, 2, 0, some 5000000000⟩]

def openFindingRange : TRange := ⟨false, some 0, some 2000000000, none⟩

/-- **Open finding, witnessed.** Messages of type 1 in the first two seconds of a log `[type 2 at 0 s,
type 1 untimed, type 1 at 1 s, type 2 at 5 s]`: the specification and the constructor return the untimed
message 1 and message 2; `MixedLogReader(message_types=[1]).filter_in_place(TimeRange(0, 2))` returns
message 2 only, because the untimed message precedes the first timed message *of type 1*. -/
theorem C10_filter_in_place_after_types_open :
    filterSpec openFindingLog ⟨some [1], some openFindingRange, none, none⟩ = some [1, 2] ∧
    (construct openFindingLog (some [1]) (some openFindingRange)).map (readAll openFindingLog none none false)
      = some [1, 2] ∧
    (constructThenFilterTime openFindingLog (some [1]) (some openFindingRange)).map
      (readAll openFindingLog none none false) = some [2] := by
  decide

/-- Same mechanism when no selected type carries P1 time: the route returns nothing (type 1 selected, log
cut after the untimed message). -/
theorem C10_filter_in_place_after_untimed_types_open :
    filterSpec (openFindingLog.take 2) ⟨some [1], some openFindingRange, none, none⟩ = some [1] ∧
    (constructThenFilterTime (openFindingLog.take 2) (some [1]) (some openFindingRange)).map
      (readAll (openFindingLog.take 2) none none false) = some [] := by
  decide

end FeVerif
