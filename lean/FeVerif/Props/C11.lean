/-
C11 — the log reader is a correct cursor over the filtered list after any history.

Model: `Reader.step`/`Reader.run` (FeVerif/Model/Reader.lean: `next_index_elem`, the filtered index,
`_prev_entry_offset_bytes`, the repositioning arithmetic of `filter_in_place`); specification:
`Reader.absStep`/`absRun` (FeVerif/Spec/Reader.lean): the list selected by the filters in force and the
offset after which reading continues — `read_next` returns the first selected entry after that offset,
or stops exactly when there is none.  Tied to mixed_log_reader.py by tools/props/c11.py.
-/
import FeVerif.Proofs.Cursor
import FeVerif.Proofs.Reader

namespace FeVerif
open Reader

/-- **Any history.** From related states, any sequence of operations (any length) produces the same
answers from the reader model and from the abstract cursor, and the final states are related. -/
theorem C11_run_sim (ops : List Op) (s : Cur) (a : Abs) (r : Rel s a) :
    (run s ops).2 = (absRun a ops).2 ∧ Rel (run s ops).1 (absRun a ops).1 := by
  induction ops generalizing s a with
  | nil => exact ⟨rfl, r⟩
  | cons op ops ih =>
    obtain ⟨h1, h2⟩ := step_sim s a r op
    obtain ⟨h3, h4⟩ := ih _ _ h2
    unfold run absRun
    exact ⟨by rw [h1, h3], h4⟩

/-- The index of a well-formed log (messages in increasing, non-overlapping file order) is strictly
sorted by offset. -/
theorem indexOf_sorted (log : List Msg) (hwf : LogWF log) : Sorted (indexOf log) := by
  unfold Sorted indexOf
  rw [indexFrom_eq]
  have h1 : (zipOrd log 0).Pairwise fun p q => p.2.offset < q.2.offset := by
    have hp := hwf.1
    have hs := hwf.2
    have : ((zipOrd log 0).map (·.2)).Pairwise fun a b => a.offset < b.offset := by
      rw [zipOrd_map_snd]
      refine List.Pairwise.imp_of_mem ?_ hp
      intro a b ha _ hab
      unfold Later at hab
      have := hs a ha
      omega
    exact ((List.pairwise_map (R := fun a b : Msg => a.offset < b.offset)).1 this)
  exact (List.pairwise_map (R := fun a b : Ent => a.offset < b.offset)).2 h1

/-- **The reader is a correct cursor.** For every log and every sequence of read, filter (types, time
range, index slice, remove-untimed), clear, rewind and seek operations, every answer of the reader —
the message returned by each `read_next`, each end of iteration, each refusal — is the answer of the
abstract cursor: the next message returned is the first message after the last one returned (or sought)
among those selected by the filters then in force, and iteration ends exactly when none remains. -/
theorem C11_cursor_refines (log : List Msg) (hwf : LogWF log) (ops : List Op) :
    (run (Cur.init (indexOf log)) ops).2 = (absRun ⟨indexOf log, indexOf log, none⟩ ops).2 := by
  have hs := indexOf_sorted log hwf
  refine (C11_run_sim ops _ _ ⟨rfl, rfl, rfl, ?_, hs, hs⟩).1
  show 0 = (indexOf log).findIdx (after none)
  cases indexOf log with
  | nil => rfl
  | cons x xs => simp [List.findIdx_cons, after]

/-- What `read_next` answers in any reachable state, spelled out on the abstract cursor: the first
selected entry whose offset is after the current position, or `stop` iff there is none. -/
theorem C11_read_next_meaning (a : Abs) :
    (absStep a .readNext).2 = match a.sel.find? (after a.pos) with | none => .stop | some e => .msg e.ordinal := by
  unfold absStep
  cases a.sel.find? (after a.pos) <;> rfl

/-- `filter_in_place`'s repositioning arithmetic: the new `next_index_elem` is the number of selected
entries at or before the last consumed offset (for a sorted selection). -/
theorem C11_reposition_correct (cur : List Ent) (pos : Option Nat) :
    reposition cur pos = cur.findIdx (after pos) := reposition_eq cur pos

/-! ### What a stepped index slice selects -/

theorem stride_getElem_opt (k : Nat) (hk : 0 < k) (l : List Ent) (n : Nat) : (stride k l)[n]? = l[n * k]? := by
  fun_induction stride k l generalizing n with
  | case1 => simp
  | case2 x xs ih =>
    cases n with
    | zero => simp
    | succ n =>
      rw [List.getElem?_cons_succ, ih, List.getElem?_drop]
      have : (n + 1) * k = (k - 1 + n * k) + 1 := by rw [Nat.succ_mul]; omega
      rw [this, List.getElem?_cons_succ]

/-- The selection made by `filter_in_place(slice(i, j, k))` (`Op.filterStride`, `k ≥ 1`) is Python's `index[i:j:k]`: its
`n`-th entry is entry `i + n·k` of the entries before `j`, and it ends where those end. -/
theorem C11_stride_meaning (i j k : Nat) (hk : 0 < k) (sel : List Ent) (n : Nat) :
    (stride k ((sel.take j).drop i))[n]? = (sel.take j)[i + n * k]? := by
  rw [stride_getElem_opt k hk, List.getElem?_drop]

/-! ### No message twice: the cursor only moves forward between rewinds and seeks -/

/-- "at or after": ordering of cursor positions (`none` = before the first message). -/
def posLe : Option Nat → Option Nat → Prop
  | none, _ => True
  | some _, none => False
  | some p, some q => p ≤ q

theorem posLe_refl (p : Option Nat) : posLe p p := by cases p <;> simp [posLe]

theorem posLe_trans {p q r : Option Nat} (h1 : posLe p q) (h2 : posLe q r) : posLe p r := by
  cases p <;> cases q <;> cases r <;> simp_all [posLe]; omega

/-- operations that may move the cursor backwards on purpose -/
def Reader.Op.repositions : Op → Bool
  | .rewind | .seek _ _ | .seekEof => true
  | _ => false

/-- A `read_next` that returns a message returns one strictly after the position, and moves the position
onto it; every other non-repositioning operation (all filters in both forms, `clear`) leaves the
position alone. -/
theorem C11_step_forward (a : Abs) (op : Op) (h : op.repositions = false) :
    posLe a.pos (absStep a op).1.pos ∧
      (∀ o, (absStep a op).2 = .msg o → ∃ e ∈ a.sel, e.ordinal = o ∧ after a.pos e = true ∧
        (absStep a op).1.pos = some e.offset) := by
  cases op with
  | readNext =>
    unfold absStep
    cases hf : a.sel.find? (after a.pos) with
    | none => exact ⟨posLe_refl _, by intro o ho; cases ho⟩
    | some e =>
      have hmem := List.mem_of_find?_eq_some hf
      have hp := List.find?_some hf
      refine ⟨?_, ?_⟩
      · cases hpos : a.pos with
        | none => simp [posLe]
        | some p =>
          rw [hpos] at hp
          simp only [after, decide_eq_true_eq] at hp
          simp only [posLe]; omega
      · intro o ho
        simp only [Res.msg.injEq] at ho
        exact ⟨e, hmem, ho, hp, rfl⟩
  | filterTypes ts => exact ⟨posLe_refl _, by intro o ho; cases ho⟩
  | filterTime r =>
    simp only [absStep]
    cases sliceByRange a.sel (t0Of a.orig) r <;> exact ⟨posLe_refl _, by intro o ho; cases ho⟩
  | filterSlice i j => exact ⟨posLe_refl _, by intro o ho; cases ho⟩
  | filterStride i j k => exact ⟨posLe_refl _, by intro o ho; cases ho⟩
  | removeUntimed => exact ⟨posLe_refl _, by intro o ho; cases ho⟩
  | clear => exact ⟨posLe_refl _, by intro o ho; cases ho⟩
  | rewind => cases h
  | seek i f => cases h
  | seekEof => cases h

/-- **Forward only.** Over any history without `rewind` / `seek`, whatever filters are applied, replaced
or cleared in between, the position never moves back.  With `C11_step_forward` (each returned message
lies strictly after the position and becomes it): no message is returned twice and messages come out in
increasing file order, until the caller rewinds or seeks. -/
theorem C11_forward_only (ops : List Op) (hops : ∀ op ∈ ops, op.repositions = false) (a : Abs) :
    posLe a.pos (absRun a ops).1.pos := by
  induction ops generalizing a with
  | nil => exact posLe_refl _
  | cons op ops ih =>
    unfold absRun
    exact posLe_trans (C11_step_forward a op (hops op (List.mem_cons_self ..))).1
      (ih (fun o ho => hops o (List.mem_cons_of_mem _ ho)) _)

-- executable sanity check (a test): read one, filter to the later type, clear, read: continues after message 0
#guard (run (Cur.init (indexOf [⟨0, 30, 1, 0, none⟩, ⟨30, 30, 2, 0, some 5000000000⟩, ⟨60, 30, 1, 0, none⟩]))
    [.readNext, .filterTypes [2], .clear, .readNext]).2 == [.msg 0, .done, .done, .msg 1]

end FeVerif
