/-
C12 — data-loader results do not depend on what was read before.

Model: `Loader.read` (FeVerif/Model/Loader.lean) is `DataLoader._read` of
python/fusion_engine_client/analysis/data_loader.py with its cache `self.data`; `Variant.current`
is the code as it is (after the repairs aa1fd47, de0a08a, f5bc4ad, c531000, 1299cac, the sixth one,
positive `max_messages` no longer cutting the index, and 20ca4d6 in `TimeRange.__eq__`), `Variant.legacy`
the code before them.  The log reader, the registry and the log are parameters (`Reader`, `Reg`,
`List Entry`), universally quantified below.  The model is tied to the source by the correspondence
harness tools/props/c12.py (call histories on one real `DataLoader` vs. `Loader.runHist`).

`lastOf v reg rd log Cache.empty h` is the value of the last call of the history `h` on a freshly
opened loader; `readFresh v reg rd log a` the value of the single call `a` on a freshly opened loader;
`freshSpec` (FeVerif/Spec/Loader.lean) the specification of that value.
-/
import FeVerif.Proofs.Loader

namespace FeVerif
open Loader

/-- **Caching is transparent.**  For every registry without a type carrying both P1 and system time,
every reader, every log, every history of earlier `read()` calls with arbitrary arguments (any
length) and every final call: no call raises, and the final call returns exactly what it returns as
the first call on a freshly opened loader — messages, `message_index` and numpy members alike. -/
theorem C12_cache_transparent (reg : Reg) (hd : reg.Disjoint) (rd : Reader) (log : List Entry)
    (h : List Args) (a : Args) :
    lastOf Variant.current reg rd log Cache.empty (h ++ [a]) = some (readFresh Variant.current reg rd log a) := by
  have hfresh : readFresh Variant.current reg rd log a = .ok (resultOf reg rd log a) := by
    obtain ⟨c', h1, _⟩ := read_current hd rd log Cache.empty a (Inv_empty reg rd log)
    simp [readFresh, h1, Except.map]
  rw [hfresh]
  suffices H : ∀ c, Inv reg rd log c →
      lastOf Variant.current reg rd log c (h ++ [a]) = some (.ok (resultOf reg rd log a)) from
    H _ (Inv_empty reg rd log)
  induction h with
  | nil =>
    intro c hc
    obtain ⟨c', h1, _⟩ := read_current hd rd log c a hc
    simp [lastOf, h1, Except.map]
  | cons b bs ih =>
    intro c hc
    obtain ⟨c', h1, hc'⟩ := read_current hd rd log c b hc
    cases hbs : bs ++ [a] with
    | nil => simp at hbs
    | cons x xs =>
      rw [List.cons_append, hbs]
      simp only [lastOf, h1]
      rw [← hbs]
      exact ih c' hc'

/-- The same for every call of a history, not only the last: `runHist` (the values of all calls, in
order) is the list of the fresh values. -/
theorem C12_every_call_as_fresh (reg : Reg) (hd : reg.Disjoint) (rd : Reader) (log : List Entry) (h : List Args) :
    runHist Variant.current reg rd log Cache.empty h = h.map (readFresh Variant.current reg rd log) := by
  have hfresh : ∀ a, readFresh Variant.current reg rd log a = .ok (resultOf reg rd log a) := by
    intro a
    obtain ⟨c', h1, _⟩ := read_current hd rd log Cache.empty a (Inv_empty reg rd log)
    simp [readFresh, h1, Except.map]
  suffices H : ∀ c, Inv reg rd log c →
      runHist Variant.current reg rd log c h = h.map (readFresh Variant.current reg rd log) from
    H _ (Inv_empty reg rd log)
  induction h with
  | nil => intro c _; rfl
  | cons b bs ih =>
    intro c hc
    obtain ⟨c', h1, hc'⟩ := read_current hd rd log c b hc
    simp only [runHist, h1, List.map_cons, hfresh b, ih c' hc']

/-- **What a fresh read returns.**  On a freshly opened loader `read` returns `freshSpec`: the messages
the reader yields under the same filters (time range, types, source ids, `require_*`), cut to the first N
(N ≥ 0) or last |N| (N < 0) across all requested types in file order; in exact file order in one
`MessageData` for `return_in_order`; otherwise grouped by requested type and then time-aligned and
converted as the call asks.  This includes logs with source identifiers the reader did not discover when
it sampled the available ones (the default of `source_ids` is the sampled set, tested when a message is
read).  Hypotheses: the requested types are registered; and, for a *negative* maximum only (last N: the
index is cut to its last |N| entries before the source identifier is tested, open finding
`C12/max-messages-before-source-filter:undiscovered-source-id:last-n`, see
`C12_last_n_undiscovered_source_open`), every source id the reader's time selection contains was
discovered by the reader (C10). -/
theorem C12_read_fresh_spec (reg : Reg) (hd : reg.Disjoint) (rd : Reader) (log : List Entry) (a : Args)
    (hs : ∀ n, a.maxMessages = some n → n < 0 → ∀ x ∈ rd.timeSel a.timeRange log, x.src ∈ rd.available log)
    (hk : ∀ t ∈ (eff reg rd log a).types, reg.known t = true) :
    readFresh Variant.current reg rd log a = .ok (freshSpec reg rd log a) := by
  obtain ⟨c', h1, _⟩ := read_current hd rd log Cache.empty a (Inv_empty reg rd log)
  simp [readFresh, h1, Except.map, resultOf_eq_spec hd rd log a hs hk]

/-- First N / last N, spelled out for `return_in_order`: the messages returned are
`(specStream …).take N` resp. the last `|N|` elements of it, in file order. -/
theorem C12_in_order_first_last (reg : Reg) (hd : reg.Disjoint) (rd : Reader) (log : List Entry) (a : Args)
    (hs : ∀ n, a.maxMessages = some n → n < 0 → ∀ x ∈ rd.timeSel a.timeRange log, x.src ∈ rd.available log)
    (hk : ∀ t ∈ (eff reg rd log a).types, reg.known t = true) (hio : a.inOrder = true) (n : Int)
    (hn : a.maxMessages = some n) :
    ∃ d, readFresh Variant.current reg rd log a = .ok (Result.ordered d) ∧
      d.msgs = (if 0 ≤ n then (specStream reg rd log (eff reg rd log a)).take n.toNat
                else (specStream reg rd log (eff reg rd log a)).drop
                  ((specStream reg rd log (eff reg rd log a)).length - n.natAbs)).map Msg.orig := by
  refine ⟨specData (mkParams Variant.current a (eff reg rd log a)) a.returnIndex
      (specSelected reg rd log (eff reg rd log a)), ?_, ?_⟩
  · rw [C12_read_fresh_spec reg hd rd log a hs hk]
    simp only [freshSpec, hio, if_true]
  · have : (eff reg rd log a).maxMessages = some n := hn
    simp only [specData, specSelected, this, sliceN]

/-! ### The unrepaired code was not transparent (and why each repair is needed)

Concrete log: ordinals 0..9 — Event, Pose@1.0 s, Pose@2.0 (source 1), PoseAux@2.0, GNSSInfo@2.0, Event,
PoseAux@3.0, GNSSInfo@3.0 (source 1), Event, Pose@4.0; times in half seconds.  The same log and
histories are replayed on the real code by the check (regression corpus of tools/props/c12.py). -/

namespace C12W

def P := 10000
def G := 10001
def A := 10003
def E := 13004

def reg : Reg :=
  { allTypes := [P, G, A, E]
    known := fun t => [P, G, A, E].contains t
    hasP1 := fun t => [P, G, A].contains t
    hasSys := fun t => t == E
    alignP1 := fun t => [P, G, A].contains t
    numpyP1 := fun t => [P, G, A].contains t }

def rd : Reader := { timeSel := fun _ l => l, dropsUntimed := false, available := fun _ => [0, 1], keepsUnavailable := false }

def log : List Entry :=
  [⟨0, E, none, 0⟩, ⟨1, P, some 2, 0⟩, ⟨2, P, some 4, 1⟩, ⟨3, A, some 4, 0⟩, ⟨4, G, some 4, 0⟩,
   ⟨5, E, none, 0⟩, ⟨6, A, some 6, 0⟩, ⟨7, G, some 6, 1⟩, ⟨8, E, none, 0⟩, ⟨9, P, some 8, 0⟩]

/-- `read(message_types=ts)` with every other argument at its default. -/
def call (ts : List Nat) : Args :=
  { types := ts, timeRange := ⟨none, none, false, none⟩, sourceIds := none, ignoreCache := false, maxMessages := none,
    requireP1 := false, requireSys := false, inOrder := false, returnIndex := false, returnNumpy := false,
    keepMessages := false, removeNan := true, align := Align.none, alignedTypes := none }

def msgsOf : Option (Except Err Result) → List (Nat × List Nat)
  | some (.ok (.dict l)) => l.map (fun td => (td.1, td.2.msgs.filterMap (fun m => match m with
      | .orig e => some e.ord
      | .dflt _ _ => none)))
  | _ => []

end C12W

/-- The witness registry satisfies the hypothesis of the theorems. -/
theorem C12_witness_reg_disjoint : C12W.reg.Disjoint := by
  intro t h
  simp only [C12W.reg, List.contains_cons, List.contains_nil, Bool.or_false, Bool.or_eq_true, beq_iff_eq] at h
  rcases h with h | h | h <;> subst h <;> decide

open C12W in
/-- `keep_messages=False` then a plain read: the cached objects were emptied in place. -/
theorem C12_unrepaired_keep_messages_fails :
    lastOf Variant.legacy reg rd log Cache.empty
        [{ call [P, A] with returnNumpy := true, keepMessages := false }, call [P, A]]
      ≠ some (readFresh Variant.legacy reg rd log (call [P, A])) :=
  fun h => absurd (congrArg msgsOf h) (by decide)

open C12W in
/-- `time_align=DROP` then a plain read returned the dropped set. -/
theorem C12_unrepaired_time_align_fails :
    lastOf Variant.legacy reg rd log Cache.empty
        [{ call [P, G, A] with align := Align.drop }, call [P, G, A]]
      ≠ some (readFresh Variant.legacy reg rd log (call [P, G, A])) :=
  fun h => absurd (congrArg msgsOf h) (by decide)

open C12W in
/-- `max_messages=2` over two types, then over one of them. -/
theorem C12_unrepaired_max_messages_types_fails :
    lastOf Variant.legacy reg rd log Cache.empty
        [{ call [P, A] with maxMessages := some 2 }, { call [A] with maxMessages := some 2 }]
      ≠ some (readFresh Variant.legacy reg rd log { call [A] with maxMessages := some 2 }) :=
  fun h => absurd (congrArg msgsOf h) (by decide)

open C12W in
/-- A cached type requested again together with a new one was read and appended a second time. -/
theorem C12_unrepaired_reread_appends_fails :
    lastOf Variant.legacy reg rd log Cache.empty [call [P], call [P, A]]
      ≠ some (readFresh Variant.legacy reg rd log (call [P, A])) :=
  fun h => absurd (congrArg msgsOf h) (by decide)

/-- Full transparency was false of the unrepaired code (`Variant.legacy`). -/
theorem C12_unrepaired_full_fails :
    ¬ (∀ (reg : Reg) (_ : reg.Disjoint) (rd : Reader) (log : List Entry) (h : List Args) (a : Args),
        lastOf Variant.legacy reg rd log Cache.empty (h ++ [a]) = some (readFresh Variant.legacy reg rd log a)) := by
  intro H
  exact C12_unrepaired_reread_appends_fails
    (H C12W.reg C12_witness_reg_disjoint C12W.rd C12W.log [C12W.call [C12W.P]] (C12W.call [C12W.P, C12W.A]))

open C12W in
/-- Each repair is necessary: switching any single one of the three cache repairs off makes the
current model non-transparent again (the two `max_messages` repairs concern fresh reads, below). -/
theorem C12_each_cache_repair_needed :
    (lastOf { Variant.current with keyPost := false } reg rd log Cache.empty
        [{ call [P, A] with returnNumpy := true, keepMessages := false }, call [P, A]]
      ≠ some (readFresh { Variant.current with keyPost := false } reg rd log (call [P, A]))) ∧
    (lastOf { Variant.current with keyTypes := false } reg rd log Cache.empty
        [{ call [P, A] with maxMessages := some 2 }, { call [A] with maxMessages := some 2 }]
      ≠ some (readFresh { Variant.current with keyTypes := false } reg rd log { call [A] with maxMessages := some 2 })) ∧
    (lastOf { Variant.current with newOnly := false } reg rd log Cache.empty [call [P], call [P, A]]
      ≠ some (readFresh { Variant.current with newOnly := false } reg rd log (call [P, A]))) := by
  exact ⟨fun h => absurd (congrArg msgsOf h) (by decide), fun h => absurd (congrArg msgsOf h) (by decide),
    fun h => absurd (congrArg msgsOf h) (by decide)⟩

namespace C12W
/-- A reader that evaluates a relative range with the range's own t0 when one is given, as
`FileIndex.get_time_range()` does: here `[t0 + start, t0 + stop)` on the P1 times, from t0 = 2 (the first
P1 time of the log) when the range has none; entries without P1 time are kept. -/
def rdT0 : Reader :=
  { timeSel := fun tr l => l.filter (fun x =>
      match x.time, tr.start, tr.stop with
      | some t, some s, some e => decide ((tr.t0.getD 2) + s ≤ t) && decide (t < (tr.t0.getD 2) + e)
      | _, _, _ => true)
    dropsUntimed := false, available := fun _ => [0, 1], keepsUnavailable := false }
end C12W

open C12W in
/-- The seventh repair (20ca4d6): the relative range `[1.0, 2.0)` s with explicit t0 = 1.0 s and the same range
with explicit t0 = 2.0 s were one cache key (`TimeRange.__eq__` ignored t0), so the second read returned the
messages of the first (P1 times [2.0, 3.0) s: ordinals 2, 3) where a fresh loader returns those at
[3.0, 4.0) s (ordinal 6).  Since the repair the second call is read again. -/
theorem C12_unrepaired_time_range_t0_fails :
    (lastOf { Variant.current with keyT0 := false } reg rdT0 log Cache.empty
        [{ call [P, A] with timeRange := ⟨some 2, some 4, false, some 2⟩ },
         { call [P, A] with timeRange := ⟨some 2, some 4, false, some 4⟩ }]
      ≠ some (readFresh { Variant.current with keyT0 := false } reg rdT0 log
          { call [P, A] with timeRange := ⟨some 2, some 4, false, some 4⟩ })) ∧
    msgsOf (lastOf Variant.current reg rdT0 log Cache.empty
        [{ call [P, A] with timeRange := ⟨some 2, some 4, false, some 2⟩ },
         { call [P, A] with timeRange := ⟨some 2, some 4, false, some 4⟩ }]) = [(P, []), (A, [6])] := by
  exact ⟨fun h => absurd (congrArg msgsOf h) (by decide), by decide⟩

open C12W in
/-- The two `max_messages` defects of fresh reads before the repairs: with `source_ids=[0]`,
`max_messages=3` the unrepaired code returned 2 messages where 3 match; with `require_system_time`,
`max_messages=-2` it returned the first two Event messages (0, 5) instead of the last two (5, 8). -/
theorem C12_unrepaired_fresh_max_fails :
    msgsOf (some (readFresh Variant.legacy reg rd log { call [P, E] with sourceIds := some [0], maxMessages := some 3 }))
        = [(P, [1]), (E, [0])] ∧
    msgsOf (some (readFresh Variant.current reg rd log { call [P, E] with sourceIds := some [0], maxMessages := some 3 }))
        = [(P, [1]), (E, [0, 5])] ∧
    msgsOf (some (readFresh Variant.legacy reg rd log { call [P, E] with requireSys := true, maxMessages := some (-2) }))
        = [(P, []), (E, [0, 5])] ∧
    msgsOf (some (readFresh Variant.current reg rd log { call [P, E] with requireSys := true, maxMessages := some (-2) }))
        = [(P, []), (E, [5, 8])] := by
  refine ⟨by decide, by decide, by decide, by decide⟩

/-! ### Source identifiers the reader did not discover

The same log read through a reader that sampled only source 0 (`available = [0]`): source 1 (ordinals 2
and 7) is in the log but not in the default of `source_ids`. -/

namespace C12W
def rdLate : Reader := { timeSel := fun _ l => l, dropsUntimed := false, available := fun _ => [0], keepsUnavailable := true }
end C12W

open C12W in
/-- The sixth repair: `read([Pose, Event], max_messages=3)` with default `source_ids` cut the index to its
first three entries (0, 1, 2) and then rejected ordinal 2 (source 1) when it was read: 2 messages where 3
match.  Since the repair the counter ends the read after three messages that were returned. -/
theorem C12_unrepaired_first_n_undiscovered_source_fails :
    msgsOf (some (readFresh { Variant.current with sliceNonPos := false } reg rdLate log { call [P, E] with maxMessages := some 3 }))
        = [(P, [1]), (E, [0])] ∧
    msgsOf (some (readFresh Variant.current reg rdLate log { call [P, E] with maxMessages := some 3 }))
        = [(P, [1]), (E, [0, 5])] ∧
    msgsOf (some (.ok (freshSpec reg rdLate log { call [P, E] with maxMessages := some 3 })))
        = [(P, [1]), (E, [0, 5])] := by
  refine ⟨by decide, by decide, by decide⟩

open C12W in
/-- Open finding (why `C12_read_fresh_spec` keeps its hypothesis for negative N): the last two messages of
`[GNSSInfo, Event]` from the default sources are ordinals 5 and 8; the code cuts the index to its last two
entries (7, 8) first, rejects 7 (source 1) when it is read, and returns ordinal 8 alone. -/
theorem C12_last_n_undiscovered_source_open :
    msgsOf (some (readFresh Variant.current reg rdLate log { call [G, E] with maxMessages := some (-2) }))
        = [(G, []), (E, [8])] ∧
    msgsOf (some (.ok (freshSpec reg rdLate log { call [G, E] with maxMessages := some (-2) })))
        = [(G, []), (E, [5, 8])] := by
  refine ⟨by decide, by decide⟩

/-! ### Non-vacuity: the hypotheses hold for the concrete registry / reader / log above and the
theorems speak about non-trivial values (executable checks, not theorems). -/

open C12W in
example : lastOf Variant.current reg rd log Cache.empty
      ([{ call [P, A] with returnNumpy := true }, { call [P, G, A] with align := Align.drop }, call [P]] ++ [call [P, A]])
    = some (readFresh Variant.current reg rd log (call [P, A])) :=
  C12_cache_transparent reg C12_witness_reg_disjoint rd log _ _

open C12W in
#guard msgsOf (some (readFresh Variant.current reg rd log (call [P, A]))) == [(P, [1, 2, 9]), (A, [3, 6])]
open C12W in
#guard msgsOf (lastOf Variant.current reg rd log Cache.empty [call [P], call [P, A]]) == [(P, [1, 2, 9]), (A, [3, 6])]
open C12W in
#guard msgsOf (lastOf Variant.legacy reg rd log Cache.empty [call [P], call [P, A]]) == [(P, [1, 2, 9, 1, 2, 9]), (A, [3, 6])]
open C12W in
#guard msgsOf (some (readFresh Variant.current reg rd log { call [P, G, A] with align := Align.drop }))
    == [(P, [2]), (G, [4]), (A, [3])]
open C12W in
#guard msgsOf (some (readFresh Variant.current reg rd log { call [P, A] with maxMessages := some (-2) })) == [(P, [9]), (A, [6])]

end FeVerif
