/-
C13 — time-range membership follows the documented interval semantics.

Model: `FeVerif/Model/TimeRange.lean` (literal to `utils/time_range.py` after the three `fix:` commits recorded in
KNOWN_FINDINGS.txt).  Specification: `FeVerif/Spec/TimeRange.lean` (`Interval.verdict`, `Interval.seq`).
Times are integers in any fixed resolution; all statements are for message sequences of any length.
-/
import FeVerif.Proofs.TimeRange

namespace FeVerif
open TR

/-- **Constructor.** The object is fresh (latches clear, `_range_specified` correct) and stands for the interval the
arguments describe: `absolute` defaults to "either bound is a `Timestamp`"; an invalid `Timestamp` bound, an
absolute start of 0 and an infinite end are open bounds. -/
theorem C13_constructor_interval (s e : BoundArg) (a : Option Bool) (z : Option Int) :
    (TimeRange.new s e a z).Fresh ∧ (TimeRange.new s e a z).t0 = z ∧
    (TimeRange.new s e a z).absolute = (match a with | some b => b | none => s.isTs || e.isTs) ∧
    (TimeRange.new s e a z).start = startOf s.seconds (TimeRange.new s e a z).absolute ∧
    (TimeRange.new s e a z).stop = endOf e.seconds := by
  refine ⟨TimeRange.fresh_new s e a z, rfl, ?_, rfl, normStop_eq_endOf _⟩
  cases a <;> rfl

/-- **Membership.** For every fresh range object and every message sequence whose P1 times do not decrease, the
booleans returned by successive `is_in_range` calls (with either value of `return_timestamps`) are the verdicts of
the interval `[start, end)`, absolute or relative to the supplied `t0`, else to the first P1 time of the sequence. -/
theorem C13_is_in_range_refines (r : TimeRange) (retTs : Bool) (msgs : List Msg) (hf : r.Fresh)
    (hmono : Monotone msgs) :
    (r.run retTs msgs).2 = (r.interval msgs).seq msgs :=
  TimeRange.run_refines r retTs msgs hf hmono

/-- The same, message by message: the `i`-th result is the specification's verdict for the `i`-th message given
the earlier messages and the earlier results — a P1-timed message is accepted iff its (relative) time is in the
interval; a message without P1 time iff no earlier P1 time was at or beyond the end and the start is open or an
earlier message was accepted (`Interval.verdict`). -/
theorem C13_is_in_range_pointwise (r : TimeRange) (retTs : Bool) (msgs : List Msg) (hf : r.Fresh)
    (hmono : Monotone msgs) (i : Nat) (hi : i < msgs.length) :
    (r.run retTs msgs).2[i]? =
      some ((r.interval msgs).verdict (msgs.take i) ((r.run retTs msgs).2.take i) msgs[i]) := by
  rw [TimeRange.run_refines r retTs msgs hf hmono]
  unfold Interval.seq
  rw [List.getElem?_eq_getElem (by rw [Interval.seqFrom_length]; exact hi),
    Interval.seqFrom_getElem _ i hi]
  simp

/-- Membership for a constructed range, with the interval written out. -/
theorem C13_constructed_range_refines (s e : BoundArg) (a : Option Bool) (z : Option Int) (retTs : Bool)
    (msgs : List Msg) (hmono : Monotone msgs) :
    ((TimeRange.new s e a z).run retTs msgs).2 =
      Interval.seq ⟨startOf s.seconds (match a with | some b => b | none => s.isTs || e.isTs), endOf e.seconds,
        (match a with | some b => b | none => s.isTs || e.isTs), orElse z (firstP1 msgs)⟩ msgs := by
  rw [TimeRange.run_refines _ retTs msgs (TimeRange.fresh_new s e a z) hmono]
  unfold TimeRange.interval TimeRange.new
  simp only [normStop_eq_endOf]
  cases a <;> rfl

/-- **restart().** After any history, `restart()` clears both latches and keeps bounds, type and the origin already
established (supplied, or the first P1 time seen - by a range with or without bounds); the next pass over a monotone
sequence is again the interval's verdicts, measured from that origin. -/
theorem C13_restart_resets (r : TimeRange) (retTs retTs' : Bool) (hist msgs : List Msg) (hwf : r.WF)
    (hmono : Monotone msgs) :
    ((r.run retTs hist).1.restart).started = false ∧ ((r.run retTs hist).1.restart).ended = false ∧
    ((r.run retTs hist).1.restart).t0 = (r.run retTs hist).1.t0 ∧
    (r.run retTs hist).1.t0 = orElse r.t0 (firstP1 hist) ∧
    (((r.run retTs hist).1.restart).run retTs' msgs).2 =
      Interval.seq ⟨r.start, r.stop, r.absolute, orElse (r.run retTs hist).1.t0 (firstP1 msgs)⟩ msgs := by
  refine ⟨rfl, rfl, rfl, TimeRange.run_t0 r retTs, ?_⟩
  rw [TimeRange.run_refines _ retTs' msgs (TimeRange.fresh_restart (TimeRange.run_wf retTs hist hwf)) hmono]
  obtain ⟨h1, h2, h3, _⟩ := TimeRange.run_static (ms := hist) r retTs
  unfold TimeRange.interval TimeRange.restart
  simp only [h1, h2, h3]

/-- **make_absolute().** It raises exactly for a relative range with no `t0` of its own and none supplied. -/
theorem C13_make_absolute_error_iff (r : TimeRange) (p : Option Int) :
    r.makeAbsolute p = .error .valueError ↔ r.absolute = false ∧ r.t0 = none ∧ p = none :=
  TimeRange.makeAbsolute_error_iff r p

/-- Otherwise the result is absolute and accepts the same messages, provided the `t0` used for the conversion is the
origin the relative range has on that sequence. -/
theorem C13_make_absolute_preserves (r r' : TimeRange) (p : Option Int) (retTs : Bool) (msgs : List Msg)
    (hf : r.Fresh) (h : r.makeAbsolute p = .ok r')
    (horigin : r.absolute = false → orElse r.t0 (firstP1 msgs) = (if p.isSome ∧ r.t0.isNone then p else r.t0))
    (hmono : Monotone msgs) :
    r'.absolute = true ∧ r'.Fresh ∧ (r'.run retTs msgs).2 = (r.run retTs msgs).2 :=
  ⟨(TimeRange.makeAbsolute_run retTs msgs hf h horigin hmono).1, TimeRange.fresh_makeAbsolute hf h,
    (TimeRange.makeAbsolute_run retTs msgs hf h horigin hmono).2⟩

/-- **intersect().** It raises exactly when one range is absolute, the other relative, and neither has a `t0`. -/
theorem C13_intersect_error_iff (a b : TimeRange) :
    a.intersect b = .error .valueError ↔ a.absolute ≠ b.absolute ∧ a.t0 = none ∧ b.t0 = none :=
  TimeRange.intersect_error_iff a b

/-- Otherwise the result accepts, on every monotone sequence on which the two ranges' time frames agree
(`Compatible`), exactly the messages both ranges accept — messages with and without P1 time alike. -/
theorem C13_intersect_is_intersection (a b c : TimeRange) (retTs : Bool) (msgs : List Msg)
    (ha : a.Fresh) (hb : b.Fresh) (hc : a.intersect b = .ok c) (hcompat : Compatible a b msgs)
    (hmono : Monotone msgs) :
    c.Fresh ∧ (c.run retTs msgs).2 = List.zipWith (· && ·) (a.run retTs msgs).2 (b.run retTs msgs).2 := by
  refine ⟨?_, TimeRange.intersect_run retTs msgs ha hb hc hcompat hmono⟩
  unfold TimeRange.intersect at hc
  split at hc
  · cases hb' : b.makeAbsolute a.t0 with
    | error e => rw [hb'] at hc; cases hc
    | ok b' => rw [hb'] at hc; injection hc with hc; subst hc; exact TimeRange.fresh_meet b' ha
  · split at hc
    · cases ha' : a.makeAbsolute b.t0 with
      | error e => rw [ha'] at hc; cases hc
      | ok a' =>
        rw [ha'] at hc; injection hc with hc; subst hc
        exact TimeRange.fresh_meet b (TimeRange.fresh_makeAbsolute ha ha')
    · injection hc with hc; subst hc; exact TimeRange.fresh_meet b ha

/-- **Operations on ranges that have already been used.** Whatever two ranges have been shown before (`ha`, `hb`;
with or without bounds, any results), `intersect` fails exactly when one is absolute, the other relative, and
neither knows an origin - a supplied `t0`, or the first P1 time it has been shown. -/
theorem C13_intersect_after_history_error_iff (a b : TimeRange) (retTs : Bool) (ha hb : List Msg) :
    (a.run retTs ha).1.intersect (b.run retTs hb).1 = .error .valueError ↔
      a.absolute ≠ b.absolute ∧ orElse a.t0 (firstP1 ha) = none ∧ orElse b.t0 (firstP1 hb) = none := by
  rw [TimeRange.intersect_error_iff, TimeRange.run_t0 a retTs, TimeRange.run_t0 b retTs,
    (TimeRange.run_static (ms := ha) a retTs).2.2.1, (TimeRange.run_static (ms := hb) b retTs).2.2.1]

/-- Otherwise the result, after `restart()`, accepts on every monotone sequence on which the two time frames agree
exactly the messages accepted by both intervals as constructed, each measured from the origin its range knows by
then (supplied, else the first P1 time it was shown), else from the first P1 time of the new sequence. -/
theorem C13_intersect_after_history (a b c : TimeRange) (retTs retTs' : Bool) (ha hb msgs : List Msg)
    (hwa : a.WF) (hwb : b.WF) (hc : (a.run retTs ha).1.intersect (b.run retTs hb).1 = .ok c)
    (hcompat : Compatible (a.run retTs ha).1 (b.run retTs hb).1 msgs) (hmono : Monotone msgs) :
    (c.restart.run retTs' msgs).2 =
      List.zipWith (· && ·)
        (Interval.seq ⟨a.start, a.stop, a.absolute, orElse (orElse a.t0 (firstP1 ha)) (firstP1 msgs)⟩ msgs)
        (Interval.seq ⟨b.start, b.stop, b.absolute, orElse (orElse b.t0 (firstP1 hb)) (firstP1 msgs)⟩ msgs) := by
  have hfa := TimeRange.fresh_restart (TimeRange.run_wf retTs ha hwa)
  have hfb := TimeRange.fresh_restart (TimeRange.run_wf retTs hb hwb)
  have h := TimeRange.intersect_run retTs' msgs hfa hfb (TimeRange.intersect_restart hc) hcompat hmono
  rw [h, TimeRange.run_refines _ retTs' msgs hfa hmono, TimeRange.run_refines _ retTs' msgs hfb hmono,
    TimeRange.interval_after_run, TimeRange.interval_after_run]

/-- The same for `make_absolute()` on a used range: it fails exactly for a relative range that knows no origin and
is given none. -/
theorem C13_make_absolute_after_history_error_iff (r : TimeRange) (retTs : Bool) (hist : List Msg) (p : Option Int) :
    (r.run retTs hist).1.makeAbsolute p = .error .valueError ↔
      r.absolute = false ∧ orElse r.t0 (firstP1 hist) = none ∧ p = none := by
  rw [TimeRange.makeAbsolute_error_iff, TimeRange.run_t0 r retTs, (TimeRange.run_static (ms := hist) r retTs).2.2.1]

/-- **make_absolute() in the middle of a pass.** Once the origin of a relative range is established (supplied, or a
P1 time has been shown), converting it - whatever the argument - does not disturb the pass: no latch is touched, and
on whatever follows (monotone or not) the converted range returns what the relative range would have returned. -/
theorem C13_make_absolute_mid_pass (r : TimeRange) (retTs retTs' : Bool) (pre post : List Msg) (p : Option Int)
    (z : Int) (ha : r.absolute = false) (hz : orElse r.t0 (firstP1 pre) = some z) :
    ∃ r', (r.run retTs pre).1.makeAbsolute p = .ok r' ∧ r'.absolute = true ∧
      r'.started = (r.run retTs pre).1.started ∧ r'.ended = (r.run retTs pre).1.ended ∧
      (r'.run retTs' post).2 = ((r.run retTs pre).1.run retTs' post).2 := by
  have ha' : (r.run retTs pre).1.absolute = false := by rw [(TimeRange.run_static (ms := pre) r retTs).2.2.1, ha]
  have hz' : (r.run retTs pre).1.t0 = some z := by rw [TimeRange.run_t0 r retTs, hz]
  exact ⟨_, TimeRange.makeAbsolute_known p ha' hz', rfl, rfl, rfl, TimeRange.shifted_run ha' hz' retTs'⟩

/-- **parse().** A text `START[:END[:abs|rel]]` whose number parts convert (`''` and negative values count as
omitted) yields the fresh range `[START, END)` of the given type (the type in the text wins over the argument; no type
anywhere means relative), and that range's results on a monotone sequence are the verdicts of that interval:
open start if omitted or an absolute 0, open end if omitted or infinite, relative to the first P1 time. -/
theorem C13_parse_interval (flt : String → Option FloatVal) (s e : String) (ty : Option String) (a : Option Bool)
    (s' e' : Option Ext) (ab : Bool) (hs : strToTime flt s = .ok s') (he : strToTime flt e = .ok e')
    (hty : (ty = some "abs" ∧ ab = true) ∨ (ty = some "rel" ∧ ab = false) ∨
      (ty = none ∧ ab = (match a with | some b => b | none => false))) :
    ∃ r, TimeRange.parseParts flt (s :: e :: ty.toList) a = .ok r ∧ r.Fresh ∧ r.t0 = none ∧
      ∀ (retTs : Bool) (msgs : List Msg), Monotone msgs →
        (r.run retTs msgs).2 =
          Interval.seq ⟨startOf s' ab, endOf e', ab, firstP1 msgs⟩ msgs := by
  have hstop : normStop e' = endOf e' := normStop_eq_endOf e'
  have key : ∀ (oa : Option Bool), ctorAbsolute (optBound s') (optBound e') oa = ab →
      TimeRange.parseParts flt (s :: e :: ty.toList) a = .ok (TimeRange.new (optBound s') (optBound e') oa none) →
      ∃ r, TimeRange.parseParts flt (s :: e :: ty.toList) a = .ok r ∧ r.Fresh ∧ r.t0 = none ∧
      ∀ (retTs : Bool) (msgs : List Msg), Monotone msgs →
        (r.run retTs msgs).2 =
          Interval.seq ⟨startOf s' ab, endOf e', ab, firstP1 msgs⟩ msgs := by
    intro oa hab hp
    refine ⟨_, hp, TimeRange.fresh_new _ _ _ _, rfl, ?_⟩
    intro retTs msgs hmono
    rw [TimeRange.run_refines _ retTs msgs (TimeRange.fresh_new _ _ _ _) hmono]
    unfold TimeRange.interval TimeRange.new
    simp only [hab]
    have h1 : (optBound s').seconds = s' := by cases s' <;> rfl
    have h2 : (optBound e').seconds = e' := by cases e' <;> rfl
    rw [h1, h2, hstop]
    rfl
  have hts : ∀ x : Option Ext, (optBound x).isTs = false := by intro x; cases x <;> rfl
  rcases hty with ⟨h1, h2⟩ | ⟨h1, h2⟩ | ⟨h1, h2⟩
  · subst h1; subst h2
    exact key (some true) rfl (by simp [TimeRange.parseParts, parseType, hs, he])
  · subst h1; subst h2
    exact key (some false) rfl (by simp [TimeRange.parseParts, parseType, hs, he])
  · subst h1
    refine key a ?_ (by simp [TimeRange.parseParts, parseType, hs, he])
    rw [h2]
    cases a with
    | some b => rfl
    | none => simp [ctorAbsolute, hts]

/-- A start-only text. -/
theorem C13_parse_start_only (flt : String → Option FloatVal) (s : String) (a : Option Bool) (s' : Option Ext)
    (hs : strToTime flt s = .ok s') :
    TimeRange.parseParts flt [s] a = .ok (TimeRange.new (optBound s') .none a none) := by
  simp [TimeRange.parseParts, parseType, hs]

/-- How a number part is read. -/
theorem C13_parse_bound (flt : String → Option FloatVal) (s : String) :
    strToTime flt s =
      if s = "" then .ok none
      else match flt s with
        | none => .error .valueError
        | some (.fin v) => .ok (if v < 0 then none else some (.fin v))
        | some .inf => .ok (some .inf)
        | some .negInf => .ok none := rfl

/-- Malformed texts are rejected: more than three parts, an unknown type specifier, or a number part that
`float()` refuses. -/
theorem C13_parse_rejects (flt : String → Option FloatVal) (a : Option Bool) :
    (∀ parts : List String, parts.length > 3 → TimeRange.parseParts flt parts a = .error .valueError) ∧
    (∀ s e ty : String, ty ≠ "abs" → ty ≠ "rel" → TimeRange.parseParts flt [s, e, ty] a = .error .valueError) ∧
    (∀ (s e : String) (rest : List String), s ≠ "" → flt s = none →
      TimeRange.parseParts flt (s :: e :: rest) a = .error .valueError) ∧
    (∀ (s e : String) (rest : List String), e ≠ "" → flt e = none →
      TimeRange.parseParts flt (s :: e :: rest) a = .error .valueError) := by
  refine ⟨?_, ?_, ?_, ?_⟩
  · intro parts h
    unfold TimeRange.parseParts parseType
    match parts, h with
    | [_, _, _], h => simp at h
    | [], h => simp at h
    | [_], h => simp at h
    | [_, _], h => simp at h
    | _ :: _ :: _ :: _ :: _, _ => simp
  · intro s e ty h1 h2
    simp [TimeRange.parseParts, parseType, h1, h2]
  · intro s e rest h1 h2
    have hs : strToTime flt s = .error .valueError := by simp [strToTime, h1, h2]
    unfold TimeRange.parseParts
    cases hp : parseType (s :: e :: rest) a with
    | error x => cases x; rfl
    | ok ab => simp [hs]
  · intro s e rest h1 h2
    have he : strToTime flt e = .error .valueError := by simp [strToTime, h1, h2]
    unfold TimeRange.parseParts
    cases hp : parseType (s :: e :: rest) a with
    | error x => cases x; rfl
    | ok ab =>
      simp only
      cases hs : strToTime flt s with
      | error x => cases x; rfl
      | ok s' => simp [he]

/-! ## real messages: what `is_in_range` is told about a message is what the documentation says of its members -/

/-- **P1 time of a message.** For every message whose members do not contradict each other, `get_p1_time()` yields
a valid P1 time exactly when the documentation gives the message one, and then that one: the `p1_time` member of
an ordinary message; for a sensor measurement `details.p1_time`, else `details.measurement_time` when (and only
when) its declared time base is P1 time.  A measurement time in system, sender or GPS time is never a P1 time. -/
theorem C13_message_p1_time (o : Obj) (h : o.unambiguous = true) : o.msg.p1? = o.docP1 :=
  Obj.msg_p1_of_unambiguous o h

/-- With contradictory members the value handed to `is_in_range` is still one of the message's own P1 members (or
none): never a time in another base. -/
theorem C13_message_p1_time_is_a_p1_member (o : Obj) (t : Int) (h : o.msg.p1? = some t) :
    o.docP1 = some t ∨ ∃ d, o = .meas d ∧ d.source = .p1Time ∧ d.measurementTime = some t := by
  cases o with
  | raw => cases h
  | plain p1 sys =>
    left
    cases p1 with
    | none => cases h
    | some x => cases x with
      | none => cases h
      | some t' => exact h
  | meas d =>
    obtain ⟨mt, src, p1⟩ := d
    by_cases hs : src = .p1Time
    · right
      refine ⟨_, rfl, hs, ?_⟩
      subst hs
      cases mt with
      | none => simp [Obj.msg, Obj.getP1Time, Msg.p1?] at h
      | some t' => simpa [Obj.msg, Obj.getP1Time, Msg.p1?] using h
    · left
      cases p1 with
      | none => simp [Obj.msg, Obj.getP1Time, Msg.p1?, hs] at h
      | some t' =>
        simp [Obj.msg, Obj.getP1Time, Msg.p1?, hs] at h
        simp [Obj.docP1, h]

/-- **System time of a message.** `get_system_time_ns()` yields the `system_time_ns` member, or a measurement time
stamped on reception, and nothing (`None` or NaN) for every other message. -/
theorem C13_message_system_time (o : Obj) : o.getSystemTimeNs.value = o.docSys := by
  cases o with
  | raw => rfl
  | plain p1 sys => cases sys <;> rfl
  | meas d =>
    obtain ⟨mt, src, p1⟩ := d
    by_cases hs : src = .timestampedOnReception <;> cases mt <;>
      simp [Obj.getSystemTimeNs, Obj.docSys, SysTime.value, hs]

/-- **Membership over real messages.** A fresh range shown messages with consistent members, whose documented P1
times do not decrease, answers with the interval's verdicts for the messages *as documented*: a message that only
has a system, sender or GPS time is handled by the rule for messages without P1 time and never moves the origin. -/
theorem C13_is_in_range_on_messages (r : TimeRange) (retTs : Bool) (objs : List Obj) (hf : r.Fresh)
    (hu : ∀ o ∈ objs, o.unambiguous = true) (hmono : Monotone (objs.map Obj.docMsg)) :
    (r.run retTs (objs.map Obj.msg)).2 = (r.interval (objs.map Obj.docMsg)).seq (objs.map Obj.docMsg) := by
  rw [TimeRange.run_congr retTs Obj.msg Obj.docMsg r
    (fun o ho => by rw [Obj.msg_p1_of_unambiguous o (hu o ho), Obj.docMsg_p1])]
  exact TimeRange.run_refines r retTs _ hf hmono

/-! ## the hypotheses are satisfiable, and the statements say something -/

/-- open start, first P1 time already past the end, then a message without P1 time: both rejected. -/
example : ((TimeRange.new .none (.num (.fin 16)) (some true) none).run false [.p1 20, .noP1]).2 = [false, false] := by
  decide

example : Monotone [.noP1, .p1 12, .raw, .p1 16, .p1 20, .p1 28, .invalidP1] := by
  unfold Monotone p1Times; decide

/-- the documented example: relative `[1.0, 3.0)` in quarter seconds. -/
example : ((TimeRange.new (.num (.fin 4)) (.num (.fin 12)) (some false) none).run false
    [.noP1, .p1 12, .raw, .p1 16, .p1 20, .p1 28, .invalidP1]).2 = [false, false, false, true, true, false, false] := by
  decide

example : (Interval.mk (some (.fin 4)) (some 12) false (some 12)).seq
    [.noP1, .p1 12, .raw, .p1 16, .p1 20, .p1 28, .invalidP1] = [false, false, false, true, true, false, false] := by
  decide

/-- a relative and an absolute range whose frames agree, and their intersection -/
example : Compatible (TimeRange.new (.num (.fin 4)) (.num (.fin 12)) (some false) (some 40))
    (TimeRange.new (.num (.fin 46)) .none (some true) none) [.p1 40, .p1 48] := by
  simp [Compatible, TimeRange.new, ctorAbsolute]

example : (TimeRange.new (.num (.fin 4)) (.num (.fin 12)) (some false) (some 40)).intersect
    (TimeRange.new (.num (.fin 46)) .none (some true) none) =
    .ok { start := some (.fin 46), stop := some 52, absolute := true, t0 := some 40, specified := true,
          started := false, ended := false } := by
  rfl

/-- an IMU input stamped on reception at 5000 s (no P1 time yet) ahead of P1 times 10.0, 11.0, 12.0 s, relative
`[1.0, 3.0)`: the origin is 10.0 s, not the reception time. -/
example : ((TimeRange.new (.num (.fin 4)) (.num (.fin 12)) (some false) none).run false
    ([.meas ⟨some 20000, .timestampedOnReception, none⟩, .plain (some (some 40)) none, .plain (some (some 44)) none,
      .meas ⟨some 20008, .timestampedOnReception, none⟩, .plain (some (some 48)) none].map Obj.msg)).2 =
    [false, false, true, true, true] := by
  decide

example : Obj.docP1 (.meas ⟨some 20000, .gpsTime, none⟩) = none ∧ Obj.docP1 (.meas ⟨some 44, .p1Time, none⟩) = some 44 ∧
    Obj.docP1 (.meas ⟨some 20000, .senderSystemTime, some 44⟩) = some 44 := by
  decide

end FeVerif
