/-
C14 — the C++ RTCM framer dispatches exactly the CRC-valid RTCM 3 frames, counts them, and never
leaves its buffer.

Model: FeVerif/Model/RtcmFramer.lean (literal transcription of src/point_one/rtcm/rtcm_framer.cc:
`OnData`, `OnByte`, `Resync`, `SetBuffer`, `Reset`, `CRC24Hash`), tied to the compiled code by
tools/props/c14.py (per call: callbacks, return value, private state; ASan/UBSan).
Specification: `(cfgRtcm capacity).run stream 0` — the shared left-to-right scan (Spec/Frame.lean)
with the RTCM 3 header and CRC-24Q (Spec/Rtcm.lean); `capacity` is `capacity_bytes_`, the size of the
buffer after `SetBuffer` aligned it.
-/
import FeVerif.Proofs.Rtcm

namespace FeVerif
open RtcmFramer

/-! ### CRC table and constants of the source -/

/-- The 256 literals of `RTCM_CRC24Q` in rtcm_framer.cc (regenerated from the source on every run by
tools/c14_crc_extract.py) are the table of the polynomial 0x1864CFB. -/
theorem C14_crc24_table_correct : Generated.rtcmCrc24qLiteral = crc24Table := by
  decide +kernel

/-- Hence `CRC24Hash` as written in the source computes CRC-24Q (table-driven form) on every input. -/
theorem C14_crc24_source_eq_spec (data : Bytes) : crc24Src data = crc24q data := by
  unfold crc24Src crc24q; rw [C14_crc24_table_correct]

/-- The framing constants written in the source are those of RTCM 3 the model and the
specification use: preamble 0xD3, 3 header bytes, 3 CRC bytes, 10-bit length (mask 0x3FF, max 1023). -/
theorem C14_source_constants :
    Generated.src_RTCM3_PREAMBLE = 0xD3 ∧ Generated.src_RTCM_HEADER_BYTES = 3 ∧
      Generated.src_RTCM_CRC_BYTES = 3 ∧ Generated.src_RTCM_MAX_PAYLOAD = 1023 ∧
      Generated.src_RTCM_LENGTH_MASK = 0x3FF := by
  decide

/-! ### What the scan accepts -/

/-- The verdict "the first `n` bytes of `buf` are a frame", spelled out: preamble, `n` is the 10-bit
length plus 6, the frame fits the buffer, all bytes present, and the CRC-24Q of the first `n - 3`
bytes equals the last three bytes (big endian). -/
theorem C14_accept_criteria (cap : Nat) (buf : Bytes) (n : Nat) :
    (cfgRtcm cap).step buf = .emit n ↔
      byteAt buf 0 = 0xD3 ∧ n = rtcmPayloadLen buf + 6 ∧ n ≤ cap ∧ n ≤ buf.length ∧
        crc24q (buf.take (n - 3)) = be24At buf (n - 3) := by
  rw [Cfg.step_emit_iff]
  have hm := rtcm_msgLen cap buf
  have hl := rtcmPayloadLen_le buf
  constructor
  · rintro ⟨h1, h2, h3, h4, h5⟩
    have hh := (rtcm_headerOk cap buf).1 h2
    have hb := (rtcm_bodyOk cap (buf.take n)).1 h5
    have hlen : (buf.take n).length = n := by simp; omega
    rw [hlen, List.take_take, Nat.min_eq_left (by omega)] at hb
    refine ⟨hh.1, by omega, by omega, h4, ?_⟩
    rw [hb]
    unfold be24At
    rw [byteAt_take _ _ _ (by omega), byteAt_take _ _ _ (by omega), byteAt_take _ _ _ (by omega)]
  · rintro ⟨h1, h2, h3, h4, h5⟩
    refine ⟨by show 3 ≤ buf.length; omega, (rtcm_headerOk cap buf).2 ⟨h1, by omega, by omega⟩, by omega, h4, ?_⟩
    apply (rtcm_bodyOk cap (buf.take n)).2
    have hlen : (buf.take n).length = n := by simp; omega
    rw [hlen, List.take_take, Nat.min_eq_left (by omega), h5]
    unfold be24At
    rw [byteAt_take _ _ _ (by omega), byteAt_take _ _ _ (by omega), byteAt_take _ _ _ (by omega)]

/-- What the callback must be handed for `stream`: for every `(offset, length)` the scan accepts, the
message number `(b₃b₄) >> 4` and the bytes of the frame, in order. -/
def rtcmExpected (cap : Nat) (stream : Bytes) : List RtcmCb :=
  ((cfgRtcm cap).run stream 0).msgs.map fun p => ⟨rtcmMsgNum (slice stream p.1 p.2), slice stream p.1 p.2⟩

/-- The bytes a framer has stored but not judged. -/
def RtcmFramer.Rtcm.pending (s : Rtcm) : Bytes := s.buf.take s.next

theorem C14_expected_eq_scan (cap : Nat) (stream : Bytes) :
    rtcmExpected cap stream = (nscan cap stream).1.map cbOf := by
  simp [rtcmExpected, nscan, Cfg.scan, cbOf, Function.comp_def]

/-- The accepted `(offset, length)` pairs lie in the stream, each is a frame by `C14_accept_criteria` on
its own bytes, and they are listed in increasing, non-overlapping order: no frame is dispatched twice,
out of order, or from inside a previously accepted frame. -/
theorem C14_dispatch_sound (cap : Nat) (stream : Bytes) :
    Cfg.Sound (cfgRtcm cap) stream 0 0 ((cfgRtcm cap).run stream 0).msgs :=
  Cfg.run_sound _ _

/-- Nothing acceptable is skipped: a position the scan has passed at which a frame would be accepted
lies inside (or is the start of) an accepted frame. -/
theorem C14_dispatch_complete (cap : Nat) (stream : Bytes) (p n : Nat)
    (hp : p < ((cfgRtcm cap).run stream 0).off) (hv : (cfgRtcm cap).step (stream.drop p) = .emit n) :
    ∃ o l, (o, l) ∈ ((cfgRtcm cap).run stream 0).msgs ∧ o ≤ p ∧ p < o + l :=
  Cfg.run_complete stream 0 p n (Nat.zero_le _) hp (by simpa using hv)

/-- Every expected callback is a CRC-valid RTCM 3 frame that fits the buffer, handed over with its
length and the message number of its own bytes. -/
theorem C14_callbacks_valid (cap : Nat) (stream : Bytes) (cb : RtcmCb) (h : cb ∈ rtcmExpected cap stream) :
    byteAt cb.frame 0 = 0xD3 ∧ cb.frame.length = rtcmPayloadLen cb.frame + 6 ∧ cb.frame.length ≤ cap ∧
      crc24q (cb.frame.take (cb.frame.length - 3)) = be24At cb.frame (cb.frame.length - 3) ∧
      cb.msgType = rtcmMsgNum cb.frame := by
  unfold rtcmExpected at h
  obtain ⟨⟨o, n⟩, hm, rfl⟩ := List.mem_map.1 h
  obtain ⟨_, _, hfit, hstep⟩ := Cfg.sound_mem (Cfg.run_sound (c := cfgRtcm cap) stream 0) hm
  simp only [Nat.sub_zero, Nat.zero_add] at hstep hfit
  obtain ⟨h1, h2, h3, h4, h5⟩ := (C14_accept_criteria cap _ n).1 hstep
  have hl := rtcmPayloadLen_le (stream.drop o)
  have hlen : (slice stream o n).length = n := by simp [slice]; omega
  simp only [hlen]
  refine ⟨?_, ?_, h3, ?_, trivial⟩
  · show byteAt ((stream.drop o).take n) 0 = _
    rw [byteAt_take _ _ _ (by omega)]; exact h1
  · show n = rtcmPayloadLen ((stream.drop o).take n) + 6
    rw [rtcmPayloadLen_take _ _ (by omega)]; exact h2
  · show crc24q (((stream.drop o).take n).take (n - 3)) = be24At ((stream.drop o).take n) (n - 3)
    rw [List.take_take, Nat.min_eq_left (by omega), h5]
    unfold be24At
    rw [byteAt_take _ _ _ (by omega), byteAt_take _ _ _ (by omega), byteAt_take _ _ _ (by omega)]

/-! ### Chunking independence (any state, including unreachable ones) -/

/-- `OnData(a ++ b)` is `OnData(a)` followed by `OnData(b)`: same final state (buffer contents,
indices, counters), callbacks concatenated, return values added. -/
theorem C14_onData_append (s : Rtcm) (a b : Bytes) :
    onData s (a ++ b) =
      ⟨(onData (onData s a).s b).s, (onData s a).ret + (onData (onData s a).s b).ret,
        (onData s a).cbs ++ (onData (onData s a).s b).cbs⟩ :=
  onData_append s a b

/-- Any two ways of cutting the same bytes into `OnData` calls end in the same state, make the same
callbacks in the same order and return the same total. -/
theorem C14_chunking_independent (s : Rtcm) (parts₁ parts₂ : List Bytes) (h : parts₁.flatten = parts₂.flatten) :
    (rtcmFeed s parts₁).1 = (rtcmFeed s parts₂).1 ∧ (rtcmFeed s parts₁).2.2 = (rtcmFeed s parts₂).2.2 ∧
      (rtcmFeed s parts₁).2.1.sum = (rtcmFeed s parts₂).2.1.sum := by
  obtain ⟨a1, a2, a3⟩ := rtcmFeed_flatten s parts₁
  obtain ⟨b1, b2, b3⟩ := rtcmFeed_flatten s parts₂
  rw [a1, a2, a3, b1, b2, b3, h]
  exact ⟨rfl, rfl, rfl⟩

/-! ### Refinement to the scan -/

/-- Core statement: a framer that holds nothing (`SYNC`, as after `Reset()`), fed `chunks` by successive
`OnData` calls, makes exactly the callbacks of the scan of the concatenated bytes — same order, same
bytes, message number `(b₃b₄) >> 4` —, its return values add up to the dispatched sizes, it retains
exactly what the scan cannot judge yet (without leading non-preamble bytes), and it has counted the
callbacks. -/
theorem C14_refines_scan_from_sync (s : Rtcm) (chunks : List Bytes) (h : Coh s.cap s []) :
    (rtcmFeed s chunks).2.2 = rtcmExpected s.cap chunks.flatten ∧
      (rtcmFeed s chunks).2.1.sum = ((rtcmFeed s chunks).2.2.map fun c => c.frame.length).sum ∧
      (rtcmFeed s chunks).1.pending = rtcmNorm ((cfgRtcm s.cap).run chunks.flatten 0).rest ∧
      (rtcmFeed s chunks).1.decoded = (s.decoded + (rtcmFeed s chunks).2.2.length) % 4294967296 := by
  obtain ⟨h1, h2, h3, h4⟩ := rtcmFeed_spec s.cap s [] chunks h
  simp only [List.nil_append] at h1 h2 h3 h4
  rw [C14_expected_eq_scan]
  refine ⟨h1, by rw [h3, h1, cbs_frames_len], ?_, by rw [h4, h1]; simp [U32]⟩
  exact h2.pref

/-- **C14, dispatch.** A framer constructed with any buffer (internal, or a caller's buffer at any
address) of any capacity that yields a buffer at all, fed any byte stream in any chunking: its callbacks
are exactly the frames the left-to-right scan accepts for the buffer capacity in force, once each, in
order, with their bytes and message numbers. -/
theorem C14_rtcm_refines_scan (buffer : Option Nat) (capacityBytes allocAddr : Nat) (fill : Nat → Byte)
    (chunks : List Bytes) (hb : (Rtcm.construct buffer capacityBytes allocAddr fill).hasBuf = true) :
    (rtcmFeed (Rtcm.construct buffer capacityBytes allocAddr fill) chunks).2.2 =
      rtcmExpected (Rtcm.construct buffer capacityBytes allocAddr fill).cap chunks.flatten := by
  obtain ⟨P, hP⟩ := (inv_construct buffer capacityBytes allocAddr fill).2.1 hb
  have hnil : P = [] := by
    have := hP.next
    have h0 : (Rtcm.construct buffer capacityBytes allocAddr fill).next = 0 := by
      unfold Rtcm.construct Rtcm.setBuffer Rtcm.install Rtcm.reset
      cases buffer <;> simp only <;> split <;> rfl
    rw [h0] at this
    exact List.eq_nil_of_length_eq_zero this.symm
  subst hnil
  exact (C14_refines_scan_from_sync _ chunks hP).1

/-- The same after `Reset()` in any reachable state (the history before the reset is forgotten). -/
theorem C14_rtcm_refines_scan_after_reset (s : Rtcm) (hr : RtcmReach s) (hb : s.hasBuf = true)
    (chunks : List Bytes) :
    (rtcmFeed s.reset chunks).2.2 = rtcmExpected s.cap chunks.flatten ∧
      (rtcmFeed s.reset chunks).1.pending = rtcmNorm ((cfgRtcm s.cap).run chunks.flatten 0).rest := by
  obtain ⟨P, hP⟩ := (inv_reach hr).2.1 hb
  have hc := coh_reset hP.base.hasBuf hP.base.nofault rfl hP.base.len hP.base.cap3
  have := C14_refines_scan_from_sync s.reset chunks hc
  exact ⟨this.1, this.2.2.1⟩

/-- In any reachable state: one more `OnData` call delivers exactly what the scan finds in the stored
candidate followed by the new bytes. -/
theorem C14_rtcm_refines_scan_any_state (s : Rtcm) (hr : RtcmReach s) (hb : s.hasBuf = true) (data : Bytes) :
    (onData s data).cbs = rtcmExpected s.cap (s.pending ++ data) := by
  obtain ⟨P, hP⟩ := (inv_reach hr).2.1 hb
  rw [C14_expected_eq_scan, (onData_spec s.cap s P data hP).1]
  show _ = List.map cbOf (nscan s.cap (s.buf.take s.next ++ data)).1
  rw [hP.pref]

/-- Without a buffer (default-constructed, or the capacity was refused) nothing is ever dispatched. -/
theorem C14_no_buffer_no_dispatch (s : Rtcm) (hb : s.hasBuf = false) (data : Bytes) :
    onData s data = ⟨s, 0, []⟩ :=
  onData_of_noBuf (by simp [hb]) data

/-! ### Return value, counter -/

/-- In every reachable state `OnData` returns the total size of the messages it dispatched in that call. -/
theorem C14_return_value (s : Rtcm) (hr : RtcmReach s) (data : Bytes) :
    (onData s data).ret = ((onData s data).cbs.map fun c => c.frame.length).sum := by
  by_cases hb : s.hasBuf = true
  · obtain ⟨P, hP⟩ := (inv_reach hr).2.1 hb
    obtain ⟨h1, _, h3, _⟩ := onData_spec s.cap s P data hP
    rw [h3, h1, cbs_frames_len]
  · rw [onData_of_noBuf hb]; rfl

/-- **C14, count.** In every reachable state, an `OnData` call advances `decoded_msg_count_` by the number
of callbacks it made (the counter is a `uint32_t`). -/
theorem C14_count_step (s : Rtcm) (hr : RtcmReach s) (data : Bytes) :
    (onData s data).s.decoded = (s.decoded + (onData s data).cbs.length) % 4294967296 := by
  by_cases hb : s.hasBuf = true
  · obtain ⟨P, hP⟩ := (inv_reach hr).2.1 hb
    obtain ⟨h1, _, _, h4⟩ := onData_spec s.cap s P data hP
    rw [h4, h1]; simp [U32]
  · rw [onData_of_noBuf hb]
    have := (inv_reach hr).2.2
    simp only [List.length_nil, Nat.add_zero]
    exact (Nat.mod_eq_of_lt this).symm

/-- Hence `GetNumDecodedMessages()` is the number of callbacks since the last `Reset()`
(modulo 2³², the width of the counter), for any sequence of `OnData` calls. -/
theorem C14_count_eq_callbacks (s : Rtcm) (hr : RtcmReach s) (chunks : List Bytes) :
    (rtcmFeed s.reset chunks).1.decoded = (rtcmFeed s.reset chunks).2.2.length % 4294967296 := by
  have key : ∀ (t : Rtcm), RtcmReach t → ∀ cs : List Bytes,
      (rtcmFeed t cs).1.decoded = (t.decoded + (rtcmFeed t cs).2.2.length) % 4294967296 := by
    intro t ht cs
    induction cs generalizing t with
    | nil =>
      simp only [rtcmFeed, List.length_nil, Nat.add_zero]
      exact (Nat.mod_eq_of_lt (inv_reach ht).2.2).symm
    | cons d ds ih =>
      have h1 := C14_count_step t ht d
      have h2 := ih (onData t d).s (RtcmReach.call (.onData d) ht)
      simp only [rtcmFeed, List.length_append]
      rw [h2, h1]; omega
  have := key s.reset (RtcmReach.call .reset hr) chunks
  rw [this]
  show (0 + _) % _ = _
  rw [Nat.zero_add]

/-! ### Memory safety of the model -/

/-- **C14, safety.** In every reachable state no index `≥ capacity_bytes_` has been read or written
(the model records every `buffer_[i]`, `memmove` and CRC range in `fault`), the buffer has at least
3 bytes, `next_byte_index_` is within it, and while a frame is being collected its announced size fits
the buffer and the format (`≤ 1029`, so the `int32_t` casts are exact). -/
theorem C14_rtcm_safe (s : Rtcm) (hr : RtcmReach s) :
    s.fault = false ∧
      (s.hasBuf = true →
        s.buf.length = s.cap ∧ 3 ≤ s.cap ∧ s.next ≤ s.cap ∧
        (s.state = .sync → s.next = 0) ∧ (s.state = .header → s.next = 1 ∨ s.next = 2) ∧
        (s.state = .data → 3 ≤ s.next ∧ s.next < s.cur ∧ s.cur ≤ s.cap ∧ s.cur ≤ 1029)) := by
  have hi := inv_reach hr
  refine ⟨hi.1, fun hb => ?_⟩
  obtain ⟨P, hP⟩ := hi.2.1 hb
  have hl := coh_len hP
  have hn := hP.next
  have hst := hP.st
  unfold StCoh at hst
  refine ⟨hP.base.len, hP.base.cap3, by omega, ?_, ?_, ?_⟩
  · intro h; rw [h] at hst; simp only at hst; rw [hn, hst]; rfl
  · intro h; rw [h] at hst; simp only at hst; omega
  · intro h; rw [h] at hst; simp only at hst; omega

/-- The flag is sticky: an out-of-bounds access is never forgotten by a later operation, so
`fault = false` in a state means that no access on the way there was out of bounds. -/
theorem C14_fault_sticky (s : Rtcm) (op : RtcmOp) (h : s.fault = true) : (s.apply op).fault = true :=
  apply_fault_sticky s op h

/-- The arithmetic of `SetBuffer`: a caller buffer of `c ≥ 6` bytes at any address leaves at least
`c - 3 ≥ 3` usable bytes after 4-byte alignment, and the aligned region lies inside the caller's
`[addr, addr + c)`. -/
theorem C14_setBuffer_capacity (s : Rtcm) (addr c allocAddr : Nat) (fill : Nat → Byte) (h6 : 6 ≤ c)
    (hc : c ≤ 0x7FFFFFFF) :
    (s.setBuffer (some addr) c allocAddr fill).hasBuf = true ∧
      (s.setBuffer (some addr) c allocAddr fill).cap = c - (alignUp4 addr - addr) ∧
      alignUp4 addr % 4 = 0 ∧ addr ≤ alignUp4 addr ∧
      alignUp4 addr + (s.setBuffer (some addr) c allocAddr fill).cap = addr + c ∧
      3 ≤ (s.setBuffer (some addr) c allocAddr fill).cap := by
  have := alignUp4_bounds addr
  unfold Rtcm.setBuffer
  rw [if_neg (by omega)]
  have hcl : clampCapacity c = c := by unfold clampCapacity; rw [if_neg (by omega)]
  simp only
  rw [hcl]
  unfold Rtcm.install Rtcm.reset
  simp only
  clear hcl
  refine ⟨trivial, trivial, ?_⟩
  omega

/-! ### The statements are not vacuous -/

/-- An 8-byte stream holding a stray preamble, a junk byte and the empty frame `D3 00 00 47 EA 4B`,
fed bytewise to a framer with a caller buffer of 9 bytes at an odd address (6 usable bytes): the false
candidate `D3 11 D3` is rejected, `Resync` finds the second preamble, one callback, returns 0,…,0,6. -/
example : (Rtcm.construct (some 1) 9 0 (fun _ => 0)).hasBuf = true ∧
    (Rtcm.construct (some 1) 9 0 (fun _ => 0)).cap = 6 := by decide

#guard (rtcmFeed (Rtcm.construct (some 1) 9 0 (fun _ => 0))
      [[0xD3], [0x11], [0xD3], [0x00], [0x00], [0x47], [0xEA], [0x4B]]).2 ==
    ([0, 0, 0, 0, 0, 0, 0, 6], [⟨1150, [0xD3, 0x00, 0x00, 0x47, 0xEA, 0x4B]⟩])

#guard ((cfgRtcm 6).run [0xD3, 0x11, 0xD3, 0x00, 0x00, 0x47, 0xEA, 0x4B] 0).msgs == [(2, 6)]

/-- The reachable-state hypotheses are inhabited by states that hold a candidate. -/
example : RtcmReach ((Rtcm.construct none 64 4096 (fun _ => 0)).apply (.onData [0xD3, 0x00])) :=
  .call _ (.construct _ _ _ _)

end FeVerif
