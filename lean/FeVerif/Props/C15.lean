/-
C15 — time alignment yields equal-length, time-matched series without altering data.

`align mode req d` is the literal model of `DataLoader.time_align_data(data, mode, message_types = req)`
(FeVerif/Model/Align.lean; tied to data_loader.py by tools/props/c15.py): `d` is the dict as the list of its
entries, `req = none` is `message_types=None`, a time is `some t` (valid) or `none` (NaN), `Msg.orig t id` is
the input object `id`, `Msg.fab t` a default-constructed instance whose `p1_time` was set to `t`.
An entry is *aligned* iff `selected req e` (its class has `p1_time` and it is requested).  In all theorems
`(e, e') ∈ d.zip d'` reads "`e` is an entry of the input and `e'` the entry at the same position of the result".
All statements hold for any number of types, any lists (unsorted, with repeated times, with NaN), any `req`.

Repeated timestamps inside one type: the result shows each time once and keeps the FIRST message with that
time (`C15_duplicates_keep_first`); the later ones are dropped, in INSERT mode too.  "Exactly the timestamps
present in all / in any" is therefore a statement about the SET of times (`IsSortedSet`).

NaN (outside the property's quantifier, stated because the code has the behaviour): DROP never keeps a NaN
entry; INSERT drops every input message with NaN time and, iff some aligned type had one, ends every aligned
type with one fabricated NaN entry (`C15_insert_times`).
-/
import FeVerif.Proofs.Align

namespace FeVerif
open FeVerif.Align

/-- The model refines the specification: it never raises and returns `specAlign`. -/
theorem C15_align_refines_spec (mode : Mode) (req : Option (List Nat)) (d : List Entry) :
    align mode req d = .ok (specAlign mode req d) :=
  align_eq_spec mode req d

/-- No subscript inside `time_align_data` can go out of range. -/
theorem C15_no_exception (mode : Mode) (req : Option (List Nat)) (d : List Entry) :
    ∃ d', align mode req d = .ok d' :=
  ⟨_, align_eq_spec mode req d⟩

/-- The dict keeps its entries, in order; only `messages` can differ. -/
theorem C15_shape {mode : Mode} {req : Option (List Nat)} {d d' : List Entry} (h : align mode req d = .ok d') :
    d'.length = d.length ∧ d'.map Entry.key = d.map Entry.key ∧ d'.map Entry.hasP1 = d.map Entry.hasP1 := by
  rw [align_eq_spec] at h; cases h
  refine ⟨by simp [specAlign], ?_, ?_⟩ <;>
  · simp only [specAlign, List.map_map]
    apply List.map_congr_left
    intro e _
    simp only [Function.comp]
    split <;> rfl

/-- Types excluded from alignment or lacking P1 time are untouched (the very same list of objects). -/
theorem C15_others_untouched {mode : Mode} {req : Option (List Nat)} {d d' : List Entry} {e e' : Entry}
    (h : align mode req d = .ok d') (hp : (e, e') ∈ d.zip d') (hs : selected req e = false) : e' = e := by
  rw [align_eq_spec] at h; cases h
  rw [(specAlign_pair hp).2]; simp [hs]

/-- DROP: every aligned type ends with exactly the times present in ALL aligned types, each once, ascending. -/
theorem C15_drop_times {req : Option (List Nat)} {d d' : List Entry} {e e' : Entry}
    (h : align .drop req d = .ok d') (hp : (e, e') ∈ d.zip d') (hs : selected req e = true) :
    ∃ T : List Int, e'.msgs.map Msg.time = T.map some ∧ IsSortedSet T (InAll req d) := by
  rw [align_eq_spec] at h; cases h
  obtain ⟨he, rfl⟩ := specAlign_pair hp
  obtain ⟨T, hT, hS⟩ := specTimes_drop_sortedSet he hs
  exact ⟨T, by simp only [hs, if_true, times_map_pick, hT], hS⟩

/-- INSERT: every aligned type ends with exactly the times present in SOME aligned type, each once, ascending
(followed by one NaN entry iff some aligned type had a message with NaN time). -/
theorem C15_insert_times {req : Option (List Nat)} {d d' : List Entry} {e e' : Entry}
    (h : align .insert req d = .ok d') (hp : (e, e') ∈ d.zip d') (hs : selected req e = true) :
    ∃ T : List Int, IsSortedSet T (InSome req d) ∧
      ((¬ AnyNaN req d ∧ e'.msgs.map Msg.time = T.map some) ∨
       (AnyNaN req d ∧ e'.msgs.map Msg.time = T.map some ++ [none])) := by
  rw [align_eq_spec] at h; cases h
  obtain ⟨he, rfl⟩ := specAlign_pair hp
  obtain ⟨T, hS, hT⟩ := specTimes_insert_sortedSet req d
  refine ⟨T, hS, ?_⟩
  simp only [hs, if_true, times_map_pick]
  exact hT

/-- The list `T` in the two theorems above is determined by the set it enumerates. -/
theorem C15_sorted_set_unique {a b : List Int} {P : Int → Prop} (ha : IsSortedSet a P) (hb : IsSortedSet b P) :
    a = b :=
  ha.unique hb

/-- All aligned types end with the same number of entries and pairwise equal timestamps. -/
theorem C15_aligned_equal_length {mode : Mode} {req : Option (List Nat)} {d d' : List Entry} {e₁ e₁' e₂ e₂' : Entry}
    (h : align mode req d = .ok d') (hp₁ : (e₁, e₁') ∈ d.zip d') (hp₂ : (e₂, e₂') ∈ d.zip d')
    (hs₁ : selected req e₁ = true) (hs₂ : selected req e₂ = true) :
    e₁'.msgs.length = e₂'.msgs.length ∧ e₁'.msgs.map Msg.time = e₂'.msgs.map Msg.time := by
  rw [align_eq_spec] at h; cases h
  obtain ⟨_, rfl⟩ := specAlign_pair hp₁
  obtain ⟨_, rfl⟩ := specAlign_pair hp₂
  simp only [hs₁, hs₂, if_true, times_map_pick, List.length_map]
  exact ⟨trivial, trivial⟩

/-- The timestamps of an aligned type are strictly ascending (a NaN entry, at most one, comes last). -/
theorem C15_ascending {mode : Mode} {req : Option (List Nat)} {d d' : List Entry} {e e' : Entry}
    (h : align mode req d = .ok d') (hp : (e, e') ∈ d.zip d') (hs : selected req e = true) :
    (e'.msgs.map Msg.time).Pairwise Time.lt := by
  rw [align_eq_spec] at h; cases h
  obtain ⟨_, rfl⟩ := specAlign_pair hp
  simp only [hs, if_true, times_map_pick]
  exact specTimes_pairwise mode req d

/-- Every entry of an aligned type's result is one of that type's input messages (same time, same identity),
or — in INSERT mode only — a fabricated default instance carrying the slot's time, at a time for which the
type had no message. -/
theorem C15_originals_preserved {mode : Mode} {req : Option (List Nat)} {d d' : List Entry} {e e' : Entry}
    (h : align mode req d = .ok d') (hp : (e, e') ∈ d.zip d') (hs : selected req e = true) :
    ∀ m ∈ e'.msgs, m ∈ e.msgs ∨
      (mode = .insert ∧ m = .fab m.time ∧ (m.time = none ∨ m.time ∉ p1Times e)) := by
  rw [align_eq_spec] at h; cases h
  obtain ⟨he, rfl⟩ := specAlign_pair hp
  simp only [hs, if_true]
  intro m hm
  obtain ⟨t, ht, rfl⟩ := List.mem_map.1 hm
  rcases pick_spec e.msgs t with ⟨v, rfl, hf⟩ | ⟨hfab, hno⟩
  · exact Or.inl (List.mem_of_find?_eq_some hf)
  · cases mode with
    | insert =>
      right
      refine ⟨rfl, ?_, ?_⟩
      · rw [time_pick]; exact hfab
      · rw [time_pick]; exact hno
    | drop =>
      -- in DROP mode every slot time is a valid time of this very type
      exfalso
      obtain ⟨T, hT, hS⟩ := specTimes_drop_sortedSet he hs
      rw [hT] at ht
      obtain ⟨v, hv, rfl⟩ := List.mem_map.1 ht
      have := (hS.2 v).1 hv e he hs
      rcases hno with hno | hno
      · cases hno
      · exact hno this

/-- In particular: a non-fabricated entry of the result is an input `(time, identity)` of that type. -/
theorem C15_survivors_are_inputs {mode : Mode} {req : Option (List Nat)} {d d' : List Entry} {e e' : Entry}
    (h : align mode req d = .ok d') (hp : (e, e') ∈ d.zip d') (hs : selected req e = true)
    (t : Time) (id : Nat) (hm : Msg.orig t id ∈ e'.msgs) : Msg.orig t id ∈ e.msgs := by
  rcases C15_originals_preserved h hp hs _ hm with h1 | ⟨_, h2, _⟩
  · exact h1
  · cases h2

/-- DROP fabricates nothing. -/
theorem C15_drop_only_originals {req : Option (List Nat)} {d d' : List Entry} {e e' : Entry}
    (h : align .drop req d = .ok d') (hp : (e, e') ∈ d.zip d') (hs : selected req e = true) :
    ∀ m ∈ e'.msgs, m ∈ e.msgs := by
  intro m hm
  rcases C15_originals_preserved h hp hs m hm with h1 | ⟨h2, _⟩
  · exact h1
  · cases h2

/-- Repeated timestamps: at a (valid) time the type has a message for, the result shows the FIRST input
message with that time; together with `C15_ascending` no other message with that time survives. -/
theorem C15_duplicates_keep_first {mode : Mode} {req : Option (List Nat)} {d d' : List Entry} {e e' : Entry}
    (h : align mode req d = .ok d') (hp : (e, e') ∈ d.zip d') (hs : selected req e = true) :
    ∀ m ∈ e'.msgs, ∀ v : Int, m.time = some v → some v ∈ p1Times e →
      e.msgs.find? (fun x => x.time == some v) = some m := by
  rw [align_eq_spec] at h; cases h
  obtain ⟨_, rfl⟩ := specAlign_pair hp
  simp only [hs, if_true]
  intro m hm v hv hin
  obtain ⟨t, _, rfl⟩ := List.mem_map.1 hm
  rw [time_pick] at hv; subst hv
  exact pick_of_mem hin

/-- Nothing else is lost: for every time on the result's axis that the type has a message for, that type's first
message with the time is in the result (with `C15_drop_times` / `C15_insert_times`: DROP keeps the first message
of every common time, INSERT the first message of every valid time of the type). -/
theorem C15_first_occurrences_survive {mode : Mode} {req : Option (List Nat)} {d d' : List Entry} {e e' : Entry}
    (h : align mode req d = .ok d') (hp : (e, e') ∈ d.zip d') (hs : selected req e = true)
    (v : Int) (hv : some v ∈ e'.msgs.map Msg.time) (m : Msg)
    (hm : e.msgs.find? (fun x => x.time == some v) = some m) : m ∈ e'.msgs := by
  obtain ⟨m', hm', ht⟩ := List.mem_map.1 hv
  have hin : some v ∈ p1Times e := by
    have h1 := List.mem_of_find?_eq_some hm
    have h2 := List.find?_some hm
    exact List.mem_map.2 ⟨m, h1, by simpa using h2⟩
  have := C15_duplicates_keep_first h hp hs m' hm' v ht hin
  rw [hm] at this
  cases this
  exact hm'

/-! ### Histories: several alignments of the same dict

Every theorem above is about ONE call on ARBITRARY lists, so it applies to each call of a history with `d` the
lists the previous call left (fabricated messages of earlier calls included).  The two statements below say that
a history is nothing but that: no call raises, and the result is the one-call specification applied call by
call - there is no state other than the message lists (in particular none derived from a numeric conversion
made before or between the calls). -/

/-- A history of calls never raises and computes the one-call specification applied step by step. -/
theorem C15_history_refines_spec (calls : List Call) (d : List Entry) :
    alignSeq calls d = .ok (specAlignSeq calls d) := by
  induction calls generalizing d with
  | nil => rfl
  | cons c cs ih =>
    have h : alignSeq (c :: cs) d = (align c.mode c.req d).bind (alignSeq cs) := by
      simp only [alignSeq, List.foldlM_cons]; rfl
    rw [h, align_eq_spec]
    exact ih (specAlign c.mode c.req d)

/-- Appending a call to a history: the new call sees exactly the lists the history produced. -/
theorem C15_history_step (calls : List Call) (c : Call) (d : List Entry) :
    alignSeq (calls ++ [c]) d = (alignSeq calls d).bind (align c.mode c.req) := by
  rw [C15_history_refines_spec, C15_history_refines_spec]
  simp only [specAlignSeq, List.foldl_append, List.foldl_cons, List.foldl_nil, Except.bind, align_eq_spec]

/-! ### The hypotheses are satisfiable, the statements are not vacuous -/

/-- three types with P1 time (one requested but unsorted with a repeated time and a NaN), one without -/
def C15_demo : List Entry :=
  [ { key := 1, hasP1 := true, msgs := [.orig (some 3) 0, .orig (some 1) 1, .orig (some 1) 2, .orig none 3, .orig (some 2) 4] },
    { key := 2, hasP1 := true, msgs := [.orig (some 2) 0, .orig (some 3) 1, .orig (some 5) 2] },
    { key := 3, hasP1 := false, msgs := [.orig none 0] },
    { key := 4, hasP1 := true, msgs := [.orig (some 9) 0] } ]

example : align .drop (some [1, 2, 3]) C15_demo = .ok
    [ { key := 1, hasP1 := true, msgs := [.orig (some 2) 4, .orig (some 3) 0] },
      { key := 2, hasP1 := true, msgs := [.orig (some 2) 0, .orig (some 3) 1] },
      { key := 3, hasP1 := false, msgs := [.orig none 0] },
      { key := 4, hasP1 := true, msgs := [.orig (some 9) 0] } ] := by rfl

example : align .insert (some [1, 2, 3]) C15_demo = .ok
    [ { key := 1, hasP1 := true, msgs := [.orig (some 1) 1, .orig (some 2) 4, .orig (some 3) 0, .fab (some 5), .fab none] },
      { key := 2, hasP1 := true, msgs := [.fab (some 1), .orig (some 2) 0, .orig (some 3) 1, .orig (some 5) 2, .fab none] },
      { key := 3, hasP1 := false, msgs := [.orig none 0] },
      { key := 4, hasP1 := true, msgs := [.orig (some 9) 0] } ] := by rfl

/-- DROP over types 1, 2 and then DROP over types 1, 4: type 1 ends empty, type 2 keeps the first result -/
example : alignSeq [⟨.drop, some [1, 2]⟩, ⟨.drop, some [1, 4]⟩] C15_demo = .ok
    [ { key := 1, hasP1 := true, msgs := [] },
      { key := 2, hasP1 := true, msgs := [.orig (some 2) 0, .orig (some 3) 1] },
      { key := 3, hasP1 := false, msgs := [.orig none 0] },
      { key := 4, hasP1 := true, msgs := [] } ] := by rfl

/-- INSERT over types 2, 4 and then DROP over types 1, 2: the message fabricated by the first call does not survive -/
example : alignSeq [⟨.insert, some [2, 4]⟩, ⟨.drop, some [1, 2]⟩] C15_demo = .ok
    [ { key := 1, hasP1 := true, msgs := [.orig (some 2) 4, .orig (some 3) 0] },
      { key := 2, hasP1 := true, msgs := [.orig (some 2) 0, .orig (some 3) 1] },
      { key := 3, hasP1 := false, msgs := [.orig none 0] },
      { key := 4, hasP1 := true, msgs := [.fab (some 2), .fab (some 3), .fab (some 5), .orig (some 9) 0] } ] := by rfl

example : InAll (some [1, 2, 3]) C15_demo 2 ∧ ¬ InAll (some [1, 2, 3]) C15_demo 1 ∧ InSome (some [1, 2, 3]) C15_demo 5 ∧
    AnyNaN (some [1, 2, 3]) C15_demo := by
  refine ⟨?_, ?_, ?_, ?_⟩ <;> simp [InAll, InSome, AnyNaN, C15_demo, selected, p1Times, Msg.time]

end FeVerif
