/-
C16 — numeric array conversion faithfully mirrors message fields.

`Gen.allTables` is the table extracted from the `to_numpy` classmethods on every run
(tools/c16_numpy_extract.py → FeVerif/Generated/Numpy.lean); `toNumpy` / `genericToNumpy` / `removeNan`
(FeVerif/Model/Numpy.lean) are the models of `Class.to_numpy`, `MessagePayload._message_to_numpy` and the NaN-time
removal of `MessageData.to_numpy`; all three are tied to the Python code by tools/props/c16.py.
-/
import FeVerif.Proofs.Numpy
import FeVerif.Generated.Numpy

namespace FeVerif
open FeVerif.Numpy

/-! ## 1. The extracted tables fill every same-named key from the same-named field -/

def detailsName : Nat := 0x64657461696c73        -- "details"

/-- `k` is a field of the class, or of the `MeasurementDetails` object the class embeds -/
def isFieldKey (md t : ClassTable) (k : Nat) : Bool :=
  t.fields.contains k || (t.embedsDetails && md.fields.contains k)

/-- the entry reads attribute `key` of the message, or attribute `key` of `m.details` -/
def readsOwnName (t : ClassTable) (e : Entry) : Bool :=
  e.path == [e.key] || (t.embedsDetails && e.path == [detailsName, e.key])

def sameNameOk (md t : ClassTable) : Bool :=
  t.entries.all fun e => !isFieldKey md t e.key || readsOwnName t e

/-- For every class defining `to_numpy` and every dictionary entry whose key is the name of a field of the class
(or of its embedded measurement details): the value is computed from exactly that attribute (`m.key`, or
`m.details.key`).  This is what a copy-paste slip "key `a` filled from field `b`" breaks; it is decided over the
table regenerated from the sources on every run. -/
theorem C16_same_name_same_field :
    ∀ t ∈ Gen.allTables, ∀ e ∈ t.entries, isFieldKey Gen.MeasurementDetails t e.key = true →
      e.path = [e.key] ∨ (t.embedsDetails = true ∧ e.path = [detailsName, e.key]) := by
  have h : Gen.allTables.all (sameNameOk Gen.MeasurementDetails) = true := by decide
  intro t ht e he hk
  have h1 := List.all_eq_true.1 h t ht
  have h2 := List.all_eq_true.1 h1 e he
  simp only [hk, Bool.not_true, Bool.false_or, readsOwnName, Bool.or_eq_true, Bool.and_eq_true,
    beq_iff_eq] at h2
  exact h2

/-- the form stated in the design: the last path component is the key -/
theorem C16_same_name_path_last :
    ∀ t ∈ Gen.allTables, ∀ e ∈ t.entries, isFieldKey Gen.MeasurementDetails t e.key = true →
      e.path.getLast? = some e.key := by
  intro t ht e he hk
  rcases C16_same_name_same_field t ht e he hk with h | ⟨_, h⟩ <;> rw [h] <;> rfl

/-- The outputs a class declares time-independent (`__metadata__['not_time_dependent']`) are exactly the entries of
the form "first message's value", in every extracted table. -/
theorem C16_first_iff_declared :
    ∀ t ∈ Gen.allTables, ∀ e ∈ t.entries,
      (e.kind = .first .nanScalar ∨ ∃ n, e.kind = .first (.nanVec n)) ↔ e.key ∈ t.notTimeDependent := by
  have h : Gen.allTables.all (fun t => t.entries.all fun e =>
      (match e.kind with | .first _ => true | _ => false) == t.notTimeDependent.contains e.key) = true := by decide
  intro t ht e he
  have h2 := List.all_eq_true.1 (List.all_eq_true.1 h t ht) e he
  simp only [beq_iff_eq] at h2
  constructor
  · intro hk
    have : (match e.kind with | .first _ => true | _ => false) = true := by
      rcases hk with hk | ⟨n, hk⟩ <;> rw [hk]
    rw [this] at h2
    exact List.contains_iff_mem.1 h2.symm |> fun x => by simpa using x
  · intro hm
    have hc : t.notTimeDependent.contains e.key = true := by simpa using hm
    rw [hc] at h2
    cases hk : e.kind with
    | first d => cases d with
      | nanScalar => exact Or.inl rfl
      | nanVec n => exact Or.inr ⟨n, rfl⟩
    | perMsg a b c => rw [hk] at h2; cases h2
    | fillNaN a b c => rw [hk] at h2; cases h2
    | opq => rw [hk] at h2; cases h2

/-- Only the class with the documented leading-UNKNOWN trimming rebinds its input list before building the
dictionary (every other class converts exactly the list it is given). -/
theorem C16_prelude_none_except_calibration :
    ∀ t ∈ Gen.allTables, t.prelude = .none ∨ t.name = 0x43616c6962726174696f6e537461747573 := by
  have h : Gen.allTables.all (fun t => t.prelude == .none || t.name == 0x43616c6962726174696f6e537461747573) = true := by
    decide
  intro t ht
  have := List.all_eq_true.1 h t ht
  simpa using this

/-! ## 2. Position `i` of every time-dependent array is the field of message `i` -/

/-- the numeric content of a field as the property wants to see it in an array: enumerations / ints / bools are
their integer, floats are themselves, a timestamp is its seconds (same binary64: no loss of the fraction) -/
def Val.asNumber : Val → Val
  | .time b => .s (.flt b)
  | v => v

/-- `ELEM` and `dtype=` never change a value (except `dtype=bool`, which maps non-zero to 1): whatever one message
contributes to an array *is* the field's value. -/
theorem C16_conversion_preserves_value (path : Path) (elem : Elem) (d : Dtype) (m : Msg) (w : Val)
    (hd : d ≠ .bool) (h : msgElem path elem d m = some w) :
    ∃ v, m.get path = some v ∧ (elem = .id → w = v) ∧ (elem ≠ .id → w = Val.asNumber v) := by
  unfold msgElem at h
  cases hg : m.get path with
  | none => simp [hg] at h
  | some v =>
    refine ⟨v, rfl, ?_⟩
    simp only [hg] at h
    have cs : ∀ x y, castScalar d x = some y → y = x := by
      intro x y hxy
      cases d <;> cases x <;> simp [castScalar] at hxy <;> first | exact hxy.symm | exact hxy.2.symm | exact absurd rfl hd
    have css : ∀ xs ys, castScalars d xs = some ys → ys = xs := by
      intro xs
      induction xs with
      | nil => intro ys h; simp [castScalars] at h; exact h
      | cons x xs ih =>
        intro ys h
        simp only [castScalars] at h
        split at h
        · rename_i y ys' h1 h2
          injection h with h; subst h
          rw [cs x y h1, ih ys' h2]
        · cases h
    have cv : ∀ u w, castVal d u = some w → w = u := by
      intro u w huw
      cases u with
      | s x =>
        simp only [castVal, Option.map_eq_some_iff] at huw
        obtain ⟨y, hy, rfl⟩ := huw
        rw [cs x y hy]
      | vec xs =>
        simp only [castVal, Option.map_eq_some_iff] at huw
        obtain ⟨ys, hy, rfl⟩ := huw
        rw [css xs ys hy]
      | time b => simp only [castVal] at huw; split at huw <;> simp_all
      | mat r => simp only [castVal] at huw; split at huw <;> simp_all
      | other => simp only [castVal] at huw; split at huw <;> simp_all
    cases elem with
    | id =>
      simp only [elemConv] at h
      have := cv v w h
      subst this
      exact ⟨fun _ => rfl, fun e => absurd rfl e⟩
    | int =>
      cases v with
      | s x => cases x with
        | int i => simp only [elemConv] at h; have := cv _ _ h; subst this; exact ⟨fun e => (by cases e), fun _ => rfl⟩
        | flt b => simp [elemConv] at h
      | time b => simp [elemConv] at h
      | vec xs => simp [elemConv] at h
      | mat r => simp [elemConv] at h
      | other => simp [elemConv] at h
    | float =>
      cases v with
      | s x => cases x with
        | int i => simp [elemConv] at h
        | flt b => simp only [elemConv] at h; have := cv _ _ h; subst this; exact ⟨fun e => (by cases e), fun _ => rfl⟩
      | time b => simp only [elemConv] at h; have := cv _ _ h; subst this; exact ⟨fun e => (by cases e), fun _ => rfl⟩
      | vec xs => simp [elemConv] at h
      | mat r => simp [elemConv] at h
      | other => simp [elemConv] at h

/-- `np.array([f(m) for m in messages])[.T]` for any per-message expression `f`: whenever an array is produced at all, it has exactly one
entry per message along its time axis (the last axis when transposed, the first otherwise) and entry `i` is what
message `i` contributes.  Unbounded in the number of messages. -/
theorem C16_positionwise_mapped (f : Msg → Option Val) (tr : Bool) (msgs : List Msg)
    (h : evalMapped f tr msgs ≠ .bad) :
    (evalMapped f tr msgs).WF ∧
    (evalMapped f tr msgs).timeLen tr = some msgs.length ∧
    ∀ i, (evalMapped f tr msgs).atTime tr i = (msgs[i]?).bind (f) ∧
      (i < msgs.length → ((msgs[i]?).bind (f)).isSome) := by
  unfold evalMapped at h ⊢
  cases ha : allSome (msgs.map (f)) with
  | none => simp [ha] at h
  | some vals =>
    simp only [ha] at h ⊢
    have hv := allSome_eq_some ha
    have hlen : vals.length = msgs.length := by
      have := congrArg List.length hv; simp at this; exact this.symm
    have hget : ∀ i : Nat, vals[i]? = (msgs[i]?).bind (f) := by
      intro i
      have := congrArg (fun l : List (Option Val) => l[i]?) hv
      simp only [List.getElem?_map] at this
      cases hm : msgs[i]? with
      | none =>
        have hn : vals[i]? = none := by
          rw [List.getElem?_eq_none_iff] at hm ⊢; omega
        simp [hn]
      | some m =>
        rw [hm] at this
        simp only [Option.map_some] at this
        cases hvi : vals[i]? with
        | none => rw [hvi] at this; simp at this
        | some v => rw [hvi] at this; simp at this; simp [this]
    have hsome : ∀ i, i < msgs.length → ((msgs[i]?).bind (f)).isSome := by
      intro i hi
      rw [← hget i, List.getElem?_eq_getElem (by omega)]; rfl
    cases tr with
    | false =>
      simp only [Bool.false_eq_true, if_false] at h ⊢
      obtain ⟨w, l, g⟩ := stack_spec vals h
      exact ⟨w, by rw [l, hlen], fun i => ⟨by rw [g i, hget i], hsome i⟩⟩
    | true =>
      simp only [if_true] at h ⊢
      have hs : stack vals ≠ .bad := by
        intro e; rw [e] at h; exact h rfl
      obtain ⟨w, l, g⟩ := stack_spec vals hs
      cases hst : stack vals with
      | bad => exact absurd hst hs
      | opq => rw [hst] at l; simp [Arr.timeLen] at l
      | a0 x => rw [hst] at l; simp [Arr.timeLen] at l
      | a3 b r c => rw [hst] at h; exact absurd rfl h
      | a1 xs =>
        rw [hst] at l g
        refine ⟨trivial, ?_, fun i => ⟨?_, hsome i⟩⟩
        · simp only [Arr.T, Arr.timeLen] at l ⊢; rw [l, hlen]
        · have := g i
          simp only [Arr.T, Arr.atTime] at this ⊢
          rw [this, hget i]
      | a2 rows cols =>
        rw [hst] at l g w
        obtain ⟨w', l', g'⟩ := transpose_spec rows cols w
        refine ⟨w', ?_, fun i => ⟨?_, hsome i⟩⟩
        · simp only [Arr.timeLen] at l; rw [l']; simp only [Option.some.injEq] at l; rw [l, hlen]
        · rw [g' i, g i, hget i]

/-- the stereotyped form `np.array([ELEM for m in messages], dtype=D)[.T]` -/
theorem C16_positionwise (path : Path) (elem : Elem) (d : Dtype) (tr : Bool) (msgs : List Msg)
    (h : evalPerMsg path elem d tr msgs ≠ .bad) :
    (evalPerMsg path elem d tr msgs).WF ∧
    (evalPerMsg path elem d tr msgs).timeLen tr = some msgs.length ∧
    ∀ i, (evalPerMsg path elem d tr msgs).atTime tr i = (msgs[i]?).bind (msgElem path elem d) ∧
      (i < msgs.length → ((msgs[i]?).bind (msgElem path elem d)).isSome) :=
  C16_positionwise_mapped (msgElem path elem d) tr msgs h

/-- `MeasurementDetails.to_numpy`'s `p1_time` (also reached through every class that embeds measurement details):
one entry per message; entry `i` is the field `p1_time` of message `i` unless that is NaN and the message's
time-source flag equals `v` (P1_TIME), in which case it is the message's `measurement_time`.  This is the documented
deviation from the property reported as `C16/MeasurementDetails/p1_time-nan-filled-from-measurement_time`. -/
theorem C16_p1_fill_partial (e : Entry) (fb cond : Path) (v : Int) (msgs : List Msg)
    (hk : e.kind = .fillNaN fb cond v) (h : evalEntry e msgs ≠ .bad) :
    (evalEntry e msgs).timeLen false = some msgs.length ∧
    ∀ i (hi : i < msgs.length), ∃ b c s,
      ((msgs[i]).get e.path = some (.time b) ∨ (msgs[i]).get e.path = some (.s (.flt b))) ∧
      msgElem fb .float .none msgs[i] = some (.s (.flt c)) ∧ msgElem cond .int .int msgs[i] = some (.s (.int s)) ∧
      (evalEntry e msgs).atTime false i = some (.s (.flt (if s = v ∧ isNanBits b = true then c else b))) := by
  have ev : evalEntry e msgs = evalMapped (msgFill e.path fb cond v) false msgs := by simp [evalEntry, hk]
  rw [ev] at h ⊢
  obtain ⟨_, l, g⟩ := C16_positionwise_mapped _ false msgs h
  refine ⟨l, ?_⟩
  intro i hi
  obtain ⟨g1, g2⟩ := g i
  have g2 := g2 hi
  rw [List.getElem?_eq_getElem hi] at g1 g2
  simp only [Option.bind_some] at g1 g2
  rw [g1]
  unfold msgFill at g2 ⊢
  split at g2
  · rename_i b c s h1 h2 h3
    refine ⟨b, c, s, ?_, h2, h3, rfl⟩
    unfold msgElem at h1
    cases hg : (msgs[i]).get e.path with
    | none => simp [hg] at h1
    | some u =>
      simp only [hg] at h1
      cases u with
      | time t =>
        simp only [elemConv, castVal, castScalar, Option.map_some, Option.some.injEq, Val.s.injEq, Scalar.flt.injEq] at h1
        subst h1; exact Or.inl rfl
      | s x => cases x with
        | flt t =>
          simp only [elemConv, castVal, castScalar, Option.map_some, Option.some.injEq, Val.s.injEq, Scalar.flt.injEq] at h1
          subst h1; exact Or.inr rfl
        | int t => simp [elemConv] at h1
      | vec xs => simp [elemConv] at h1
      | mat r => simp [elemConv] at h1
      | other => simp [elemConv] at h1
  · simp at g2

/-- "First message's value" entries hold the field of message 0 whatever follows it. -/
theorem C16_time_independent_first (e : Entry) (dflt : Default) (m : Msg) (ms : List Msg) (v : Val)
    (hk : e.kind = .first dflt) (hv : m.get e.path = some v) :
    evalEntry e (m :: ms) = ofVal v := by
  simp [evalEntry, hk, hv]

/-- The dictionary returned for a class holds, under key `k`, the evaluation of the last table entry with that
key on the list the class was given (dictionary semantics of `{…}`, `result[k] = …`, `result.update(…)`). -/
theorem C16_key_holds_last_entry (t : ClassTable) (hp : t.prelude = .none) (msgs : List Msg) (k : Nat) :
    ∃ d, toNumpy t msgs = some d ∧
      dictGet d k = (lastEntry t.entries k).map (fun e => evalEntry e msgs) := by
  refine ⟨buildDict t.entries msgs [], by simp [toNumpy, hp, applyPrelude], ?_⟩
  rw [dictGet_buildDict]
  cases lastEntry t.entries k <;> rfl

/-- The property for a whole class: for every class without an input-rebinding prelude and every key whose (last)
entry is of the array form and yields an array, that array has one entry per message and position `i` holds the
contribution of message `i`, read from the entry's field path. Together with `C16_same_name_same_field` (path = the
key's own field) and `C16_conversion_preserves_value` this is the statement of C16 for same-named keys. -/
theorem C16_class_positionwise (t : ClassTable) (hp : t.prelude = .none) (msgs : List Msg) (k : Nat) (e : Entry)
    (elem : Elem) (d : Dtype) (tr : Bool)
    (he : lastEntry t.entries k = some e) (hk : e.kind = .perMsg elem d tr) :
    ∃ dict a, toNumpy t msgs = some dict ∧ dictGet dict k = some a ∧
      (a ≠ .bad → a.WF ∧ a.timeLen tr = some msgs.length ∧
        ∀ i, i < msgs.length → ∃ w, msgElem e.path elem d msgs[i]! = some w ∧ a.atTime tr i = some w) := by
  obtain ⟨dict, h1, h2⟩ := C16_key_holds_last_entry t hp msgs k
  rw [he] at h2
  refine ⟨dict, evalEntry e msgs, h1, h2, ?_⟩
  have ev : evalEntry e msgs = evalPerMsg e.path elem d tr msgs := by simp [evalEntry, hk]
  rw [ev]
  intro hb
  obtain ⟨w, l, g⟩ := C16_positionwise e.path elem d tr msgs hb
  refine ⟨w, l, ?_⟩
  intro i hi
  obtain ⟨g1, g2⟩ := g i
  have g2 := g2 hi
  rw [List.getElem?_eq_getElem hi] at g1 g2
  simp only [Option.bind_some] at g1 g2
  obtain ⟨x, hx⟩ := Option.isSome_iff_exists.1 g2
  refine ⟨x, ?_, by rw [g1, hx]⟩
  rw [getElem!_pos msgs i hi]; exact hx

/-! ## 3. CalibrationStatus: the leading-UNKNOWN trimming -/

/-- What the trimming prelude does: it returns a suffix of the input (so array position `i` is input message
`i + (number dropped)`, not message `i`). -/
theorem C16_trim_is_suffix_partial (p : Path) (v : Int) (msgs ms' : List Msg)
    (h : trimLeadingEq p v msgs = some ms') : ∃ n, ms' = msgs.drop n := by
  unfold trimLeadingEq at h
  split at h
  · split at h
    · cases h
    · split at h
      · injection h with h; exact ⟨_, h.symm⟩
      · injection h with h; exact ⟨0, by simpa using h.symm⟩
  · injection h with h; exact ⟨0, by simpa using h.symm⟩

/- The full statement ("all time-dependent arrays have one entry per message") cannot hold for a class with this
prelude: -/
theorem C16_trim_full_fails (p : Path) (v : Int) :
    ¬ ∀ msgs ms', trimLeadingEq p v msgs = some ms' → ms'.length = msgs.length := by
  intro h
  have := h [[(p, .s (.int v))], [(p, .s (.int (v + 1)))]] [[(p, .s (.int (v + 1)))]] (by
    have hne : v + 1 ≠ v := by omega
    simp [trimLeadingEq, Msg.get, List.lookup, allSome, intOf, argmaxNe, hne])
  simp at this

/-! ## 4. The generic path -/

/-- `MessagePayload._message_to_numpy`: every key is an attribute name of the first message and its array is built
from that same attribute of every message. -/
theorem C16_generic_same_name (dflt : List Nat) (m0 : Msg) (ms : List Msg) :
    ∀ ka ∈ genericToNumpy dflt (m0 :: ms), ka.1 ∈ topFields m0 ∧
      ka.2 = match allSome ((m0 :: ms).map (fun m => m.get [ka.1])) with
        | some vals => genericArr vals
        | none => .bad := by
  intro ka h
  simp only [genericToNumpy, List.mem_map] at h
  obtain ⟨f, hf, rfl⟩ := h
  exact ⟨hf, rfl⟩

/-- and the generic array of a numeric scalar / timestamp attribute has one entry per message, entry `i` being the
attribute of message `i` (timestamps as their seconds) -/
theorem C16_generic_positionwise (vals : List Val) (h : genericArr vals ≠ .bad)
    (hne : vals ≠ []) (hhom : (∀ v ∈ vals, ∃ b, v = Val.time b) ∨ (∀ v ∈ vals, ∃ x, v = Val.s x)) :
    (genericArr vals).timeLen false = some vals.length ∧
    ∀ i, (genericArr vals).atTime false i = (vals[i]?).map Val.asNumber := by
  rcases hhom with ht | hsc
  · -- all timestamps
    cases vals with
    | nil => exact absurd rfl hne
    | cons v vs =>
      obtain ⟨b, rfl⟩ := ht v (List.mem_cons_self ..)
      simp only [genericArr, List.map_cons] at h ⊢
      cases ha : allSome (elemConv .float (Val.time b) :: vs.map (elemConv .float)) with
      | none => rw [ha] at h; exact absurd rfl h
      | some ws =>
        simp only [ha] at h ⊢
        have hv := allSome_eq_some ha
        rw [← List.map_cons] at hv
        obtain ⟨_, l, g⟩ := stack_spec ws h
        have hl : ws.length = (Val.time b :: vs).length := by
          have := congrArg List.length hv; simp at this; simp; omega
        refine ⟨by rw [l, hl], ?_⟩
        intro i
        rw [g i]
        have := congrArg (fun l : List (Option Val) => l[i]?) hv
        simp only [List.getElem?_map] at this
        cases hm : (Val.time b :: vs)[i]? with
        | none =>
          have : ws[i]? = none := by rw [List.getElem?_eq_none_iff] at hm ⊢; omega
          simp [this]
        | some u =>
          obtain ⟨b', rfl⟩ := ht u (List.mem_of_getElem? hm)
          rw [hm] at this
          simp only [Option.map_some, elemConv] at this
          cases hw : ws[i]? with
          | none => rw [hw] at this; simp at this
          | some w => rw [hw] at this; simp at this; simp [Val.asNumber, this]
  · cases vals with
    | nil => exact absurd rfl hne
    | cons v vs =>
      obtain ⟨x, rfl⟩ := hsc v (List.mem_cons_self ..)
      simp only [genericArr] at h ⊢
      obtain ⟨_, l, g⟩ := stack_spec _ h
      refine ⟨l, ?_⟩
      intro i
      rw [g i]
      cases hm : (Val.s x :: vs)[i]? with
      | none => rfl
      | some u =>
        obtain ⟨y, rfl⟩ := hsc u (List.mem_of_getElem? hm)
        rfl

/-! ## 5. Removing the entries without a valid P1 time removes the same positions everywhere -/

/-- `MessageData.to_numpy(remove_nan_times=True)`: let `kept` be the increasing list of positions whose P1 time is
not NaN (one list, computed once from `p1_time`). Every array that is not declared time-independent and has one
entry per message along its time axis is replaced by its restriction to `kept` along that axis — the same positions
for every key; arrays declared time-independent, and everything when no P1 time is NaN, are returned unchanged.
(For a 2-D array whose time axis is the first one the source requires the second dimension to differ from the
number of messages: with a square array it assumes time is along the columns.) -/
theorem C16_nan_removal_uniform (ntd : List Nat) (d : Dict) (p1 : List Scalar)
    (hp1 : dictGet d p1TimeKey = some (.a1 p1)) :
    ∃ d', removeNan true ntd d = some d' ∧ d'.map (·.1) = d.map (·.1) ∧
      ((∀ x ∈ p1, x.isNan = false) → d' = d) ∧
      ((∃ x ∈ p1, x.isNan = true) →
        ∀ i (hi : i < d.length), ∃ hi' : i < d'.length,
          (d[i].1 ∈ ntd → d'[i].2 = d[i].2) ∧
          (d[i].1 ∉ ntd → ∀ tr, d[i].2.WF → d[i].2.timeLen tr = some p1.length →
            (∀ rows cols, d[i].2 = .a2 rows cols → tr = false → cols ≠ p1.length) →
            d'[i].2.timeLen tr = some (keptIdx (p1.map (fun x => !x.isNan))).length ∧
            ∀ j, d'[i].2.atTime tr j = ((keptIdx (p1.map (fun x => !x.isNan)))[j]?).bind (d[i].2.atTime tr))) := by
  unfold removeNan
  simp only [Bool.true_eq_false, if_false, hp1]
  by_cases hany : p1.any Scalar.isNan = true
  · simp only [hany, if_true]
    refine ⟨_, rfl, ?_, ?_, ?_⟩
    · simp only [List.map_map]
      apply List.map_congr_left
      intro ka _
      simp only [Function.comp]
      split <;> rfl
    · intro hall
      obtain ⟨x, hx, hn⟩ := List.any_eq_true.1 hany
      rw [hall x hx] at hn; cases hn
    · intro _ i hi
      refine ⟨by simpa using hi, ?_, ?_⟩
      · intro hm
        simp [hm]
      · intro hm tr hwf hlen hax
        have hc : ntd.contains d[i].1 = false := by simpa using hm
        simp only [List.getElem_map, hc, Bool.false_eq_true, if_false]
        have hl : (p1.map (fun x => !x.isNan)).length = p1.length := by simp
        exact removeOne_spec _ d[i].2 tr hwf (by rw [hlen, hl]) (by rw [hl]; exact hax)
  · have hany' : p1.any Scalar.isNan = false := by simpa using hany
    simp only [hany', Bool.false_eq_true, if_false]
    refine ⟨d, rfl, rfl, fun _ => rfl, ?_⟩
    rintro ⟨x, hx, hn⟩
    have := List.any_eq_true.2 ⟨x, hx, hn⟩
    rw [hany'] at this; cases this

/-- End to end for one converted field: after the removal, position `j` of the array holds what message
`kept[j]` contributed — for every array built by `np.array([ELEM for m in messages])[.T]`, with the one `kept`. -/
theorem C16_removal_of_converted (path : Path) (elem : Elem) (d : Dtype) (tr : Bool) (msgs : List Msg) (mask : List Bool)
    (h : evalPerMsg path elem d tr msgs ≠ .bad) (hm : mask.length = msgs.length)
    (hax : ∀ rows cols, evalPerMsg path elem d tr msgs = .a2 rows cols → tr = false → cols ≠ mask.length) :
    (removeOne mask (evalPerMsg path elem d tr msgs)).timeLen tr = some (keptIdx mask).length ∧
    ∀ j, (removeOne mask (evalPerMsg path elem d tr msgs)).atTime tr j =
      ((keptIdx mask)[j]?).bind (fun i => (msgs[i]?).bind (msgElem path elem d)) := by
  obtain ⟨w, l, g⟩ := C16_positionwise path elem d tr msgs h
  obtain ⟨r1, r2⟩ := removeOne_spec mask _ tr w (by rw [l, hm]) hax
  refine ⟨r1, fun j => ?_⟩
  rw [r2 j]
  cases (keptIdx mask)[j]? with
  | none => rfl
  | some i => exact (g i).1

/-- kept positions are exactly the positions with a valid P1 time, in increasing order, each once -/
theorem C16_kept_positions (mask : List Bool) :
    (∀ i ∈ keptIdx mask, i < mask.length ∧ mask[i]? = some true) ∧
    (∀ i, mask[i]? = some true → i ∈ keptIdx mask) ∧
    (keptIdx mask).Pairwise (· < ·) := by
  induction mask with
  | nil => simp [keptIdx]
  | cons b m ih =>
    obtain ⟨h1, h2, h3⟩ := ih
    have hmap : ((keptIdx m).map (· + 1)).Pairwise (· < ·) := by
      rw [List.pairwise_map]; exact h3.imp (by intro a b h; omega)
    cases b with
    | false =>
      simp only [keptIdx]
      refine ⟨?_, ?_, hmap⟩
      · intro i hi
        obtain ⟨k, hk, rfl⟩ := List.mem_map.1 hi
        have := h1 k hk
        exact ⟨by simp; omega, by simpa using this.2⟩
      · intro i hi
        cases i with
        | zero => simp at hi
        | succ k => exact List.mem_map.2 ⟨k, h2 k (by simpa using hi), rfl⟩
    | true =>
      simp only [keptIdx]
      refine ⟨?_, ?_, ?_⟩
      · intro i hi
        rcases List.mem_cons.1 hi with rfl | hi
        · simp
        · obtain ⟨k, hk, rfl⟩ := List.mem_map.1 hi
          have := h1 k hk
          exact ⟨by simp; omega, by simpa using this.2⟩
      · intro i hi
        cases i with
        | zero => simp
        | succ k => exact List.mem_cons_of_mem _ (List.mem_map.2 ⟨k, h2 k (by simpa using hi), rfl⟩)
      · rw [List.pairwise_cons]
        refine ⟨?_, hmap⟩
        intro a ha
        obtain ⟨k, _, rfl⟩ := List.mem_map.1 ha
        omega

/-! ## 6. `MessageData.to_numpy` called again: when the conversion may be skipped -/

/-- The conversion is skipped only when there are no messages to convert from, or the cached time vector has exactly
one entry per current message and its first and last entry equal the P1 times of the first and the last message.
(This is all the test establishes: a list changed in its interior with the same count and the same end times is not
told apart - reported as `C16/MessageData/sequence/same-count-same-end-times/...`.) -/
theorem C16_md_skip_only_if (cached : Dict) (e : Ends) (h : mdDecision cached e = .skip) :
    e.count = 0 ∨ ∃ p1 f l f' l', dictGet cached p1TimeKey = some (.a1 p1) ∧ p1.length = e.count ∧
      e.first = some f ∧ p1.head? = some (.flt f') ∧ fltNe f f' = false ∧
      e.last = some l ∧ p1.getLast? = some (.flt l') ∧ fltNe l l' = false := by
  unfold mdDecision at h
  split at h
  · cases h
  · rename_i p1 hc
    split at h
    · rename_i h0; exact Or.inl h0
    · split at h
      · cases h
      · rename_i hn
        split at h
        · cases h
        · rename_i f f' hf hh
          split at h
          · cases h
          · rename_i hne
            split at h
            · cases h
            · rename_i l l' hl hg
              split at h
              · cases h
              · rename_i hne'
                refine Or.inr ⟨p1, f, l, f', l', hc, ?_, hf, hh, by simpa using hne, hl, hg, by simpa using hne'⟩
                have : ¬ e.count ≠ p1.length := hn
                omega
            · cases h
        · cases h
  · cases h

/-- No numpy members yet: the conversion is done. -/
theorem C16_md_first_conversion (cached : Dict) (e : Ends) (hc : dictGet cached p1TimeKey = none) :
    mdDecision cached e = .convert := by
  simp [mdDecision, hc]

/-- A change of the number of messages since the arrays were computed is always followed by a fresh conversion
(whatever bookkeeping the object keeps besides the list). -/
theorem C16_md_count_change_reconverts (cached : Dict) (e : Ends) (p1 : List Scalar)
    (hc : dictGet cached p1TimeKey = some (.a1 p1)) (h0 : e.count ≠ 0) (hn : e.count ≠ p1.length) :
    mdDecision cached e = .convert := by
  simp [mdDecision, hc, h0, hn]

/-- So is a change of the first or of the last P1 time (a NaN end time never counts as unchanged). -/
theorem C16_md_end_change_reconverts (cached : Dict) (e : Ends) (p1 : List Scalar) (f f' : Nat)
    (hc : dictGet cached p1TimeKey = some (.a1 p1)) (h0 : e.count ≠ 0)
    (hf : e.first = some f) (hh : p1.head? = some (.flt f')) (hne : fltNe f f' = true) :
    mdDecision cached e = .convert := by
  unfold mdDecision
  simp only [hc, h0, if_false, hf, hh, hne, if_true]
  split <;> rfl

/-- A skipped conversion leaves every attribute as it was. -/
theorem C16_md_skip_keeps (flag : Bool) (ntd : List Nat) (cached : Dict) (e : Ends) (conv : Dict)
    (h : mdDecision cached e = .skip) : mdToNumpy flag ntd cached e conv = .ok cached := by
  simp [mdToNumpy, h]

/-- Whenever the conversion is done, every output of the class conversion of the CURRENT message list is what the
object holds afterwards, whatever it held before (no removal requested) ... -/
theorem C16_md_converted_holds_current (ntd : List Nat) (cached : Dict) (e : Ends) (conv : Dict)
    (h : mdDecision cached e = .convert) :
    ∃ d, mdToNumpy false ntd cached e conv = .ok d ∧ ∀ k a, lastVal conv k = some a → dictGet d k = some a := by
  refine ⟨dictUpdate cached conv, by simp [mdToNumpy, h, removeNan], ?_⟩
  intro k a hk
  rw [dictGet_dictUpdate, hk]

/-- ... and with removal requested the result is the uniform removal (`C16_nan_removal_uniform`) applied to exactly
those attributes. -/
theorem C16_md_converted_then_removed (ntd : List Nat) (cached : Dict) (e : Ends) (conv : Dict) (p1 : List Scalar)
    (h : mdDecision cached e = .convert) (hp : lastVal conv p1TimeKey = some (.a1 p1)) :
    ∃ d, mdToNumpy true ntd cached e conv = .ok d ∧ removeNan true ntd (dictUpdate cached conv) = some d ∧
      dictGet (dictUpdate cached conv) p1TimeKey = some (.a1 p1) := by
  have hg : dictGet (dictUpdate cached conv) p1TimeKey = some (.a1 p1) := by rw [dictGet_dictUpdate, hp]
  obtain ⟨d, hd, _⟩ := C16_nan_removal_uniform ntd (dictUpdate cached conv) p1 hg
  exact ⟨d, by simp [mdToNumpy, h, hd], hd, hg⟩

/-- The two together, for the case a stale counter would miss: after any change of the message count the attributes
named by the class conversion describe the current list. -/
theorem C16_md_after_count_change (ntd : List Nat) (cached : Dict) (e : Ends) (conv : Dict) (p1 : List Scalar)
    (hc : dictGet cached p1TimeKey = some (.a1 p1)) (h0 : e.count ≠ 0) (hn : e.count ≠ p1.length) :
    ∃ d, mdToNumpy false ntd cached e conv = .ok d ∧ ∀ k a, lastVal conv k = some a → dictGet d k = some a :=
  C16_md_converted_holds_current ntd cached e conv (C16_md_count_change_reconverts cached e p1 hc h0 hn)

/-! ## 7. `DataLoader.to_numpy(data)`: every entry of a dictionary gets its own conversion, wherever it stands -/

/-- If no entry raises anything but `ValueError`, the loop is the entrywise map: every entry is what ITS OWN `to_numpy()`
makes of it, an entry that cannot be converted (`ValueError`) is left as it was - and ends nothing. -/
theorem C16_loader_entrywise {ε : Type} (step : ε → EntryStep ε) (es : List ε) (h : ∀ e ∈ es, step e ≠ .raises) :
    loaderToNumpy step es = some (es.map fun e => (step e).after e) := by
  induction es with
  | nil => rfl
  | cons e es ih =>
    have ih' := ih (fun x hx => h x (List.mem_cons_of_mem _ hx))
    have he := h e (List.mem_cons_self ..)
    simp only [loaderToNumpy, List.map_cons, ih']
    cases hs : step e with
    | converted e' => simp [EntryStep.after]
    | valueError => simp [EntryStep.after]
    | raises => exact absurd hs he

/-- The result for one entry does not depend on its position in the dictionary nor on what the other entries are (in
particular not on unconvertible entries ahead of it). -/
theorem C16_loader_position_independent {ε : Type} (step : ε → EntryStep ε) (pre post : List ε) (e : ε)
    (h : ∀ x ∈ pre ++ e :: post, step x ≠ .raises) :
    ∃ r, loaderToNumpy step (pre ++ e :: post) = some r ∧ r.length = pre.length + 1 + post.length ∧
      r[pre.length]? = some ((step e).after e) := by
  refine ⟨_, C16_loader_entrywise step _ h, by simp; omega, ?_⟩
  simp

/-- Every entry is attempted. -/
theorem C16_loader_attempts_all {ε : Type} (step : ε → EntryStep ε) (es : List ε) (h : ∀ e ∈ es, step e ≠ .raises) :
    loaderAttempted step es = es.length := by
  induction es with
  | nil => rfl
  | cons e es ih =>
    have ih' := ih (fun x hx => h x (List.mem_cons_of_mem _ hx))
    have he := h e (List.mem_cons_self ..)
    simp only [loaderAttempted, List.length_cons, ih']
    cases hs : step e with
    | converted e' => omega
    | valueError => omega
    | raises => exact absurd hs he

/-! ## Non-vacuity (executable checks of the model, not theorems) -/

-- an unconvertible entry first / in the middle / last: the convertible ones are converted all the same
#guard
  let step : Nat → EntryStep Nat := fun n => if n % 2 == 0 then .converted (n + 100) else if n == 7 then .raises else .valueError
  loaderToNumpy step [1, 2, 4] == some [1, 102, 104] && loaderToNumpy step [2, 1, 4] == some [102, 1, 104]
    && loaderToNumpy step [2, 4, 1] == some [102, 104, 1] && loaderToNumpy step [2, 7, 4] == none
    && loaderAttempted step [1, 2, 4] == 3 && loaderAttempted step [2, 7, 4] == 2


-- a transposed 3-vector field over two messages: A×N, column i = message i; NaN removal drops column 1 everywhere
#guard
  let k := encodeName "lla_deg"
  let e : Entry := { key := k, path := [k], kind := .perMsg .id .none true }
  let p : Entry := { key := p1TimeKey, path := [p1TimeKey], kind := .perMsg .float .none false }
  let m (t a b c : Nat) : Msg := [([p1TimeKey], .time t), ([k], .vec [.flt a, .flt b, .flt c])]
  let d := buildDict [p, e] [m 0x3ff8000000000000 1 2 3, m nanBits 4 5 6] []
  d == [(p1TimeKey, .a1 [.flt 0x3ff8000000000000, .flt nanBits]), (k, .a2 [[.flt 1, .flt 4], [.flt 2, .flt 5], [.flt 3, .flt 6]] 2)]
    && removeNan true [] d == some [(p1TimeKey, .a1 [.flt 0x3ff8000000000000]), (k, .a2 [[.flt 1], [.flt 2], [.flt 3]] 1)]

-- the extracted CalibrationStatus table drops a leading UNKNOWN-stage message (the documented trimming)
#guard (Gen.allTables.filter (fun t => t.prelude != .none)).length ≤ 1

-- three messages converted, two epochs inserted between the first and the last (same end times): converted again;
-- the same three messages: skipped; an interior message exchanged for another one: skipped as well (open finding)
#guard
  let p1 (xs : List Nat) : Dict := [(p1TimeKey, .a1 (xs.map .flt))]
  let t (n : Nat) : Nat := 0x3ff0000000000000 + n
  mdDecision (p1 [t 1, t 2, t 3]) ⟨5, some (t 1), some (t 3)⟩ == .convert
    && mdDecision (p1 [t 1, t 2, t 3]) ⟨3, some (t 1), some (t 3)⟩ == .skip
    && mdDecision (p1 [t 1, t 2, t 3]) ⟨3, some (t 1), some (t 4)⟩ == .convert
    && mdDecision (p1 [t 1, t 2, nanBits]) ⟨3, some (t 1), some nanBits⟩ == .convert
    && mdDecision [] ⟨0, none, none⟩ == .convert
    && mdDecision (p1 [t 1]) ⟨0, none, none⟩ == .skip
    && mdDecision (p1 [t 1, t 2]) ⟨2, none, none⟩ == .raises
    && mdToNumpy true [] (p1 [t 1, t 2]) ⟨3, some (t 1), some (t 2)⟩ (p1 [t 1, nanBits, t 2]) == .ok (p1 [t 1, t 2])

end FeVerif
