/-
C17 — unknown enumeration values are preserved, flagged and history-independent; bit-mask helpers round-trip.

`DynEnum.ofDefined d` is the model of the class object Python builds for `class X(IntEnum): NAME = value ...`
(`d` = the body in order, aliases included), `e.call v strict` the model of `X(v, raise_on_unrecognized=strict)`
(result, new class state), `e.getItem n` of `X[n]`, `e.iter`/`e.len` of `list(X)`/`len(X)`
(FeVerif/Model/DynEnum.lean, tied to enum_utils.py + aenum.extend_enum by tools/props/c17.py, which compares every
answer of every operation script on the real classes).  A *history* is any list of `EnumOp`s: integer conversions,
strict or lenient, and read-only lookups; `e.run ops` is the class after it.  `enumOk d` (at least one member,
distinct names, no name starting with the hidden prefix `_U`) is decided by the kernel for every IntEnum subclass of
the package on each run (FeVerif/Generated/PyEnums.lean); `C17_package_enums` / `C17_package_masks` instantiate the
general theorems with those tables.
-/
import FeVerif.Proofs.DynEnum
import FeVerif.Generated.PyEnums

namespace FeVerif

/-- **Lenient conversion preserves and flags.**  In every reachable state, converting any integer with unrecognised
values permitted succeeds, yields a member whose value is that integer, and the member reports itself unrecognised
exactly when the integer is not a defined value. -/
theorem C17_lenient_preserves (d : List (Name × Int)) (hd : enumOk d = true) (ops : List EnumOp) (v : Int) :
    ∃ m, (((DynEnum.ofDefined d).run ops).call v false).1 = .ok m ∧ m.value = v ∧
      (m.isUnrecognized = true ↔ v ∉ definedValues d) := by
  have B := base_ofDefined hd
  obtain ⟨hrun, _⟩ := B.run_eq ops
  rw [hrun]
  cases hv : dget v (DynEnum.ofDefined d).v2m with
  | some m =>
    have hin : v ∈ definedValues d := (known_iff_defined d v).1 (by rw [hv]; rfl)
    refine ⟨m, by rw [B.call_known hv], (B.v2mVal v m hv).1, ?_⟩
    rw [(B.v2mVal v m hv).2]
    exact ⟨fun h => (nomatch h), fun h => absurd hin h⟩
  | none =>
    have hnot : v ∉ definedValues d := fun h => by
      have := (known_iff_defined d v).2 h
      rw [hv] at this; cases this
    refine ⟨hiddenMember v, ?_, rfl, ?_⟩
    · by_cases hx : v ∈ seenAfter (DynEnum.ofDefined d) [] ops
      · rw [B.call_seen hv hx]; rfl
      · rw [B.call_new_lenient hv hx]
    · rw [hiddenMember_unrecognized]
      exact ⟨fun _ => hnot, fun _ => rfl⟩

/-- The member returned for an unknown value is the hidden member `_U_<v>`, the same one every time: a second
lenient conversion, at any later point of any history, returns it again. -/
theorem C17_lenient_same_member (d : List (Name × Int)) (hd : enumOk d = true) (ops ops' : List EnumOp) (v : Int)
    (hv : v ∉ definedValues d) :
    (((DynEnum.ofDefined d).run ops).call v false).1 = .ok ⟨hiddenName v, v⟩ ∧
      (((((DynEnum.ofDefined d).run ops).call v false).2.run ops').call v false).1 = .ok ⟨hiddenName v, v⟩ := by
  have B := base_ofDefined hd
  have hnone : dget v (DynEnum.ofDefined d).v2m = none := by
    cases h : dget v (DynEnum.ofDefined d).v2m with
    | none => rfl
    | some m => exact absurd ((known_iff_defined d v).1 (by rw [h]; rfl)) hv
  have key : ∀ ops, (((DynEnum.ofDefined d).run ops).call v false).1 = .ok ⟨hiddenName v, v⟩ := by
    intro ops
    rw [(B.run_eq ops).1]
    by_cases hx : v ∈ seenAfter (DynEnum.ofDefined d) [] ops
    · rw [B.call_seen hnone hx]; rfl
    · rw [B.call_new_lenient hnone hx]; rfl
  refine ⟨key ops, ?_⟩
  have : (((DynEnum.ofDefined d).run ops).call v false).2.run ops' =
      (DynEnum.ofDefined d).run (ops ++ [.conv v false] ++ ops') := by
    have run_append : ∀ (a b : List EnumOp) (e : DynEnum), e.run (a ++ b) = (e.run a).run b := by
      intro a
      induction a with
      | nil => intro b e; rfl
      | cons x a ih => intro b e; exact ih b (e.step x)
    rw [run_append, run_append]; rfl
  rw [this]
  exact key _

/-- **Strict conversion refuses.**  In every reachable state - after any history, including histories in which the
same value was converted leniently before - the strict conversion of an integer that is not a defined value raises
`ValueError` and leaves the class unchanged. -/
theorem C17_strict_refuses (d : List (Name × Int)) (hd : enumOk d = true) (ops : List EnumOp) (v : Int)
    (hv : v ∉ definedValues d) :
    ((DynEnum.ofDefined d).run ops).call v true = (.error .valueError, (DynEnum.ofDefined d).run ops) := by
  have B := base_ofDefined hd
  have hnone : dget v (DynEnum.ofDefined d).v2m = none := by
    cases h : dget v (DynEnum.ofDefined d).v2m with
    | none => rfl
    | some m => exact absurd ((known_iff_defined d v).1 (by rw [h]; rfl)) hv
  rw [(B.run_eq ops).1]
  by_cases hx : v ∈ seenAfter (DynEnum.ofDefined d) [] ops
  · rw [B.call_seen hnone hx]; rfl
  · exact B.call_new_strict hnone hx

/-- ... and it is not vacuous refusal: a defined value is accepted by both conversions in every reachable state, as
the same member as in the fresh class, whose name is a line of the body with that value. -/
theorem C17_defined_accepted (d : List (Name × Int)) (hd : enumOk d = true) (ops : List EnumOp) (v : Int)
    (hv : v ∈ definedValues d) (strict : Bool) :
    ∃ m, ((DynEnum.ofDefined d).run ops).call v strict = (.ok m, (DynEnum.ofDefined d).run ops) ∧
      ((DynEnum.ofDefined d).call v strict).1 = .ok m ∧
      m.value = v ∧ m.isUnrecognized = false ∧ (m.name, v) ∈ d := by
  have B := base_ofDefined hd
  cases h : dget v (DynEnum.ofDefined d).v2m with
  | none =>
    have := (known_iff_defined d v).2 hv
    rw [h] at this; cases this
  | some m =>
    have h0 := B.call_known (xs := []) h strict
    rw [withExtras_nil] at h0
    refine ⟨m, ?_, by rw [h0], (B.v2mVal v m h).1, (B.v2mVal v m h).2, ?_⟩
    · rw [(B.run_eq ops).1]; exact B.call_known h strict
    · exact List.mem_reverse.1 ((DefInv.ofDefinedRev d.reverse).v2mVal v m h).2

/-- No history changes the state other than by adding hidden members: the class after `ops` is the fresh class plus
one member `_U_<x>` for each distinct unknown value `x` converted leniently, in order of first conversion. -/
theorem C17_reachable_states (d : List (Name × Int)) (hd : enumOk d = true) (ops : List EnumOp) :
    (DynEnum.ofDefined d).run ops = withExtras (DynEnum.ofDefined d) (seenAfter (DynEnum.ofDefined d) [] ops) ∧
      ∀ x ∈ seenAfter (DynEnum.ofDefined d) [] ops, x ∉ definedValues d := by
  have B := base_ofDefined hd
  refine ⟨(B.run_eq ops).1, fun x hx hin => ?_⟩
  have := (known_iff_defined d x).2 hin
  rw [(B.run_eq ops).2 x hx] at this; cases this

/-- **Defined members, iteration order, length and name lookups are history-independent.**  After any history:
`list(E)` is what it was (namely the canonical members of the body: first line of every value, in order), `len(E)`
is what it was, every defined name resolves to what it resolved to (a member with the value written on that line),
and every name that neither is nor upper-cases to a hidden name resolves - or fails - as before; the same for the
strict conversion by name. -/
theorem C17_defined_stable (d : List (Name × Int)) (hd : enumOk d = true) (ops : List EnumOp) :
    ((DynEnum.ofDefined d).run ops).iter = .ok (canonicalMembers d) ∧
    (DynEnum.ofDefined d).iter = .ok (canonicalMembers d) ∧
    ((DynEnum.ofDefined d).run ops).len = .ok (canonicalMembers d).length ∧
    (DynEnum.ofDefined d).len = .ok (canonicalMembers d).length ∧
    (∀ p ∈ d, ∃ m, ((DynEnum.ofDefined d).run ops).getItem p.1 = .ok m ∧ (DynEnum.ofDefined d).getItem p.1 = .ok m ∧
        m.value = p.2 ∧ m.isUnrecognized = false) ∧
    (∀ n, startsWith n unrecognizedPrefix = false → startsWith (upperName n) unrecognizedPrefix = false →
        ((DynEnum.ofDefined d).run ops).getItem n = (DynEnum.ofDefined d).getItem n ∧
        (((DynEnum.ofDefined d).run ops).callName n true).1 = ((DynEnum.ofDefined d).callName n true).1) := by
  have B := base_ofDefined hd
  obtain ⟨_, hnd, hh⟩ := enumOk_spec hd
  have hiter0 : (DynEnum.ofDefined d).iter = .ok (canonicalMembers d) := by
    have := membersOf_ofDefinedRev d.reverse (nodup_reverse_map hnd)
    show (match DynEnum.membersOf (DynEnum.ofDefinedRev d.reverse).map (DynEnum.ofDefinedRev d.reverse).names with
      | .ok ms => Except.ok (ms.filter fun (m : EnumMember) => !m.isUnrecognized) | .error err => .error err) = _
    rw [this]
    show Except.ok _ = Except.ok (canonRev d.reverse)
    congr 1
    rw [List.filter_eq_self]
    intro m hm
    have := hh _ (List.mem_reverse.1 (canonRev_mem hm))
    simp only [EnumMember.isUnrecognized, this, Bool.not_false]
  rw [(B.run_eq ops).1]
  refine ⟨by rw [(B.iter_withExtras _).1, hiter0], hiter0, ?_, by simp only [DynEnum.len, hiter0], ?_, ?_⟩
  · rw [B.len_withExtras]; simp only [DynEnum.len, hiter0]
  · intro p hp
    obtain ⟨m, hm, hv⟩ := lookup_ofDefinedRev d.reverse (nodup_reverse_map hnd) p (List.mem_reverse.2 hp)
    have hm : dget p.1 (DynEnum.ofDefined d).map = some m := hm
    obtain ⟨a, b⟩ := getItem_withExtras_present (seenAfter (DynEnum.ofDefined d) [] ops) p.1 hm
    refine ⟨m, a, b, hv, ?_⟩
    exact hh _ (List.mem_reverse.1 ((DefInv.ofDefinedRev d.reverse).mapMem _ (dget_mem hm)))
  · intro n h1 h2
    have hg : (withExtras (DynEnum.ofDefined d) (seenAfter (DynEnum.ofDefined d) [] ops)).getItem n =
        (DynEnum.ofDefined d).getItem n := by
      rcases getItem_withExtras (e0 := DynEnum.ofDefined d) (seenAfter (DynEnum.ofDefined d) [] ops) n with h | ⟨m, _, _, _, h | h⟩
      · exact h
      · rw [h1] at h; cases h
      · rw [h2] at h; cases h
    exact ⟨hg, by rw [callName_strict_fst, callName_strict_fst, hg]⟩

/-- **Defined members, iteration and length, stated outright.**  In every reachable state: `list(E)` is the list of
canonical members of the body; these are the lines of the body in declaration order with the later lines of a repeated
value (alias names) left out - a sublist of the body, every defined value exactly once, no hidden member; `len(E)` is
the length of that list, i.e. the number of distinct defined values, NOT the number of names; `list(reversed(E))` is
that list reversed; `E[name]` for every name of the body, alias names included, is the member of that list with the
value written on the line; `v in E` holds exactly for the defined values and `m in E` for every member iteration
yields, while the hidden member of an unknown value is not `in E`. -/
theorem C17_members_iteration_length (d : List (Name × Int)) (hd : enumOk d = true) (ops : List EnumOp) :
    ((DynEnum.ofDefined d).run ops).iter = .ok (canonicalMembers d) ∧
    ((DynEnum.ofDefined d).run ops).len = .ok (canonicalMembers d).length ∧
    ((DynEnum.ofDefined d).run ops).reversedIter = .ok (canonicalMembers d).reverse ∧
    (canonicalMembers d).Sublist (d.map fun p => (⟨p.1, p.2⟩ : EnumMember)) ∧
    ((canonicalMembers d).map (·.value)).Nodup ∧
    (∀ v, v ∈ (canonicalMembers d).map (·.value) ↔ v ∈ definedValues d) ∧
    (∀ m ∈ canonicalMembers d, m.isUnrecognized = false) ∧
    (∀ p ∈ d, ∃ m ∈ canonicalMembers d, ((DynEnum.ofDefined d).run ops).getItem p.1 = .ok m ∧ m.value = p.2) ∧
    (∀ v, ((DynEnum.ofDefined d).run ops).containsValue v = decide (v ∈ definedValues d)) ∧
    (∀ m ∈ canonicalMembers d, ((DynEnum.ofDefined d).run ops).containsMember m = true) ∧
    (∀ v, v ∉ definedValues d → ((DynEnum.ofDefined d).run ops).containsMember ⟨hiddenName v, v⟩ = false) := by
  have B := base_ofDefined hd
  have S := C17_defined_stable d hd ops
  obtain ⟨_, hnd, hh⟩ := enumOk_spec hd
  have hplain : ∀ m ∈ canonicalMembers d, m.isUnrecognized = false := fun m hm =>
    hh _ (List.mem_reverse.1 (canonRev_mem hm))
  have hmem0 := membersOf_ofDefinedRev d.reverse (nodup_reverse_map hnd)
  have hrev0 : (DynEnum.ofDefined d).reversedIter = .ok (canonicalMembers d).reverse := by
    have := (reversedIter_of_members (e := DynEnum.ofDefined d) hmem0).2
    rw [this]
    show Except.ok _ = Except.ok (canonRev d.reverse).reverse
    congr 2
    rw [List.filter_eq_self]
    intro m hm
    simp only [hplain m hm, Bool.not_false]
  refine ⟨S.1, S.2.2.1, ?_, ?_, canonRev_values_nodup _, ?_, hplain, ?_, ?_, ?_, ?_⟩
  · rw [(B.run_eq ops).1, B.reversed_withExtras, hrev0]
  · have := canonRev_sublist d.reverse
    rwa [List.reverse_reverse] at this
  · intro v
    have := canonRev_values d.reverse v
    rwa [List.map_reverse, List.mem_reverse] at this
  · intro p hp
    obtain ⟨m, a, _, hv, _⟩ := S.2.2.2.2.1 p hp
    obtain ⟨m', hm', _⟩ := lookup_ofDefinedRev d.reverse (nodup_reverse_map hnd) p (List.mem_reverse.2 hp)
    have hm' : dget p.1 (DynEnum.ofDefined d).map = some m' := hm'
    have e1 := (getItem_withExtras_present (seenAfter (DynEnum.ofDefined d) [] ops) p.1 hm').1
    rw [← (B.run_eq ops).1, a] at e1
    injection e1 with e1
    subst e1
    exact ⟨m, (CanonInv.ofDefinedRev d.reverse).mapCanon _ (dget_mem hm'), a, hv⟩
  · intro v
    rw [(B.run_eq ops).1, B.contains_withExtras]
    by_cases hv : v ∈ definedValues d
    · rw [decide_eq_true hv]; exact (known_iff_defined d v).2 hv
    · rw [decide_eq_false hv]
      cases h : (dget v (DynEnum.ofDefined d).v2m).isSome with
      | false => rfl
      | true => exact absurd ((known_iff_defined d v).1 h) hv
  · intro m hm
    simp only [DynEnum.containsMember, hplain m hm, Bool.not_false]
  · intro v _
    have := hiddenMember_unrecognized v
    simp only [DynEnum.containsMember, hiddenMember] at this ⊢
    rw [this]; rfl

/-- The only name lookups a history can change are hidden-name lookups: if `E[n]` after a history differs from
`E[n]` on the fresh class, then it now returns an unrecognised member whose value is one of the unknown values seen,
and `n` (or `n.upper()`) starts with the hidden prefix.  (`E['_U_3']` raises `KeyError` on the fresh class and
resolves after `E(3, raise_on_unrecognized=False)`; nothing else moves.) -/
theorem C17_lookup_changes_only_hidden (d : List (Name × Int)) (hd : enumOk d = true) (ops : List EnumOp) (n : Name) :
    ((DynEnum.ofDefined d).run ops).getItem n = (DynEnum.ofDefined d).getItem n ∨
      ∃ m, ((DynEnum.ofDefined d).run ops).getItem n = .ok m ∧ m.isUnrecognized = true ∧ m.value ∉ definedValues d ∧
        (startsWith n unrecognizedPrefix = true ∨ startsWith (upperName n) unrecognizedPrefix = true) := by
  obtain ⟨hrun, hfresh⟩ := C17_reachable_states d hd ops
  rw [hrun]
  rcases getItem_withExtras (e0 := DynEnum.ofDefined d) (seenAfter (DynEnum.ofDefined d) [] ops) n with h | ⟨m, a, b, c, e⟩
  · exact Or.inl h
  · exact Or.inr ⟨m, a, b, hfresh _ c, e⟩

/-- **Mask round trip.**  For a mask class with offset `offset` over captured members `vals` whose values are
pairwise different and not below the offset, and any list `S` of those members (any order, repetitions allowed):
`to_bitmask(S)` succeeds and `to_values` of that mask is exactly the members of `S`, in enumeration order. -/
theorem C17_mask_roundtrip (offset : Int) (attrs : List (Name × Int)) (vals S : List EnumMember)
    (hoff : ∀ m ∈ vals, offset ≤ m.value) (hnd : (vals.map (·.value)).Nodup) (hS : ∀ m ∈ S, m ∈ vals) :
    ∃ mask, toBitmask offset attrs (S.map fun m => .val m.value) = .ok mask ∧
      toValues offset mask vals = .ok (vals.filter fun m => decide (m ∈ S)) :=
  ⟨_, mask_roundtrip offset attrs vals S hoff hnd hS⟩

/-- `to_string` of the mask of a set of captured members names exactly those members, in enumeration order.  (Like
`to_values` and `to_bitmask` it is a function of its argument alone: a caller that edits a list it got back from an
earlier call cannot change what a later call returns.) -/
theorem C17_mask_to_string (offset : Int) (attrs : List (Name × Int)) (vals S : List EnumMember)
    (hoff : ∀ m ∈ vals, offset ≤ m.value) (hnd : (vals.map (·.value)).Nodup) (hS : ∀ m ∈ S, m ∈ vals) :
    ∃ mask, toBitmask offset attrs (S.map fun m => .val m.value) = .ok mask ∧
      maskToString offset mask vals = .ok (joinCommaSpace ((vals.filter fun m => decide (m ∈ S)).map (·.str))) := by
  obtain ⟨h1, h2⟩ := mask_roundtrip offset attrs vals S hoff hnd hS
  exact ⟨_, h1, by simp only [maskToString, h2]⟩

/-- The same for the mask derived from a class body at any point of any history: `enum_bitmask` captures `list(E)`,
which is the canonical members whatever has been converted before, and their values are distinct by construction. -/
theorem C17_mask_roundtrip_enum (d : List (Name × Int)) (hd : enumOk d = true) (ops : List EnumOp) (offset : Int)
    (attrs : List (Name × Int)) (hoff : ∀ p ∈ d, offset ≤ p.2) (S : List EnumMember)
    (hS : ∀ m ∈ S, m ∈ canonicalMembers d) :
    ∃ vals mask, ((DynEnum.ofDefined d).run ops).iter = .ok vals ∧
      toBitmask offset attrs (S.map fun m => .val m.value) = .ok mask ∧
      toValues offset mask vals = .ok (vals.filter fun m => decide (m ∈ S)) := by
  refine ⟨canonicalMembers d, maskBitsOf offset S 0, (C17_defined_stable d hd ops).1, ?_⟩
  apply mask_roundtrip offset attrs _ S _ (canonRev_values_nodup _) hS
  intro m hm
  exact hoff _ (List.mem_reverse.1 (canonRev_mem hm))

/-- Every IntEnum subclass of the package (table regenerated from the working tree on each run) satisfies the
hypothesis of the theorems above, hence all of them. -/
theorem C17_package_enums (e : PyEnum) (he : e ∈ PyEnums.all) (ops : List EnumOp) (v : Int) :
    (∃ m, (((DynEnum.ofDefined e.defn).run ops).call v false).1 = .ok m ∧ m.value = v ∧
        (m.isUnrecognized = true ↔ v ∉ definedValues e.defn)) ∧
    (v ∉ definedValues e.defn →
        ((DynEnum.ofDefined e.defn).run ops).call v true = (.error .valueError, (DynEnum.ofDefined e.defn).run ops)) ∧
    ((DynEnum.ofDefined e.defn).run ops).iter = (DynEnum.ofDefined e.defn).iter ∧
    ((DynEnum.ofDefined e.defn).run ops).len = (DynEnum.ofDefined e.defn).len ∧
    (∀ p ∈ e.defn, ((DynEnum.ofDefined e.defn).run ops).getItem p.1 = (DynEnum.ofDefined e.defn).getItem p.1) := by
  have hd := PyEnums.all_ok e he
  have hs := C17_defined_stable e.defn hd ops
  refine ⟨C17_lenient_preserves _ hd ops v, C17_strict_refuses _ hd ops v, by rw [hs.1, hs.2.1], by rw [hs.2.2.1, hs.2.2.2.1], ?_⟩
  intro p hp
  obtain ⟨m, a, b, _⟩ := hs.2.2.2.2.1 p hp
  rw [a, b]

/-- ... and the members / iteration / length clause for every IntEnum subclass of the package, in every reachable
state; the facts `PyEnums.e<N>_members` (decided by the kernel on each regeneration) tie the member list the
translator computed from the interpreter's table (first name of every distinct value, in declaration order - what the
harness's oracle expects `list(E)` to show and `len(E)` to count) to `canonicalMembers`. -/
theorem C17_package_members (e : PyEnum) (he : e ∈ PyEnums.all) (ops : List EnumOp) :
    ((DynEnum.ofDefined e.defn).run ops).iter = .ok (canonicalMembers e.defn) ∧
    ((DynEnum.ofDefined e.defn).run ops).len = .ok (canonicalMembers e.defn).length ∧
    ((DynEnum.ofDefined e.defn).run ops).reversedIter = .ok (canonicalMembers e.defn).reverse ∧
    (∀ p ∈ e.defn, ∃ m ∈ canonicalMembers e.defn,
        ((DynEnum.ofDefined e.defn).run ops).getItem p.1 = .ok m ∧ m.value = p.2) ∧
    (∀ v, ((DynEnum.ofDefined e.defn).run ops).containsValue v = decide (v ∈ definedValues e.defn)) := by
  have h := C17_members_iteration_length e.defn (PyEnums.all_ok e he) ops
  exact ⟨h.1, h.2.1, h.2.2.1, h.2.2.2.2.2.2.2.1, h.2.2.2.2.2.2.2.2.1⟩

/-- The mask classes of the package: for any list of captured members, by member or by name (any case),
`to_bitmask` gives the same mask and `to_values` returns exactly those members. -/
theorem C17_package_masks (m : PyMask) (hm : m ∈ PyEnums.masks) (S : List EnumMember) (hS : ∀ x ∈ S, x ∈ m.enumValues) :
    ∃ mask, toBitmask m.offset m.attrs (S.map fun x => .val x.value) = .ok mask ∧
      toBitmask m.offset m.attrs (S.map fun x => .str x.name) = .ok mask ∧
      toValues m.offset mask m.enumValues = .ok (m.enumValues.filter fun x => decide (x ∈ S)) := by
  obtain ⟨hnd, hall⟩ := maskOk_spec (PyEnums.masks_ok m hm)
  obtain ⟨h1, h2⟩ := mask_roundtrip m.offset m.attrs m.enumValues S (fun x hx => (hall x hx).1) hnd hS
  refine ⟨_, h1, ?_, h2⟩
  rw [← h1]
  exact toBitmaskFrom_names m.offset m.attrs S (fun x hx => hall x (hS x hx)) 0

/-! Non-vacuity: a class body with an alias satisfies `enumOk`; the model run on a concrete history shows the
behaviour the theorems speak about (tests, not theorems). -/
def c17Body : List (Name × Int) := [([65], 0), ([66], 1), ([67], 1), ([68], 7)]   -- A = 0, B = 1, C = 1 (alias), D = 7

example : enumOk c17Body = true := by decide
#guard canonicalMembers c17Body == [⟨[65], 0⟩, ⟨[66], 1⟩, ⟨[68], 7⟩]
#guard enumOkIs (((DynEnum.ofDefined c17Body).run [.conv 3 false, .conv (-2) false, .conv 3 true]).call 3 false).1
  ⟨[95, 85, 95, 51], 3⟩                                                                              -- `_U_3`
#guard enumErrIs (((DynEnum.ofDefined c17Body).run [.conv 3 false]).call 3 true).1 .valueError
#guard enumOkIs ((DynEnum.ofDefined c17Body).run [.conv 3 false, .conv (-2) false]).iter (canonicalMembers c17Body)
#guard enumOkIs (((DynEnum.ofDefined c17Body).run [.conv 3 false]).getItem [95, 117, 95, 51]) ⟨[95, 85, 95, 51], 3⟩   -- E['_u_3']
#guard enumErrIs ((DynEnum.ofDefined c17Body).getItem [95, 85, 95, 51]) .keyError
#guard enumOkIs ((DynEnum.ofDefined c17Body).run [.conv 3 false, .conv (-2) false]).len 3               -- four names, three members
#guard enumOkIs ((DynEnum.ofDefined c17Body).run [.conv 3 false]).reversedIter [⟨[68], 7⟩, ⟨[66], 1⟩, ⟨[65], 0⟩]
#guard enumOkIs (((DynEnum.ofDefined c17Body).run [.conv 3 false]).getItem [67]) ⟨[66], 1⟩                   -- E['C'] is E.B
#guard ((DynEnum.ofDefined c17Body).run [.conv 3 false]).containsValue 1 && !((DynEnum.ofDefined c17Body).run [.conv 3 false]).containsValue 3
#guard !(DynEnum.ofDefined c17Body).containsValue 3
#guard enumOkIs (toBitmask (-1) [] [.val 7, .val 0]) 258
#guard enumOkIs (toValues (-1) 258 (canonicalMembers c17Body)) [⟨[65], 0⟩, ⟨[68], 7⟩]
#guard enumOkIs (maskToString (-1) 258 (canonicalMembers c17Body)) [65, 44, 32, 68]                    -- 'A, D'
#guard PyEnums.all.length > 30 && PyEnums.masks.length ≥ 1

end FeVerif
