/-
C18 — extraction of FusionEngine content is byte-exact, indexed and idempotent.

Model: FeVerif/Model/Extract.lean, tied to utils/log.py (`extract_fusion_engine_log`) and the p1_extract
application by tools/props/c18.py.  The sequential scan is `cfgFile.runFile`.
-/
import FeVerif.Model.Extract
import FeVerif.Proofs.Frame
import FeVerif.Proofs.PyDecoder

namespace FeVerif
open Cfg Extract

/-- **The reader returns the indexed messages.** Iterating the index of the scan with the reader's
per-entry re-validation (seek, header, size limit, payload, CRC) returns every entry, with exactly
the bytes `file[offset, offset+length)` — the `messages` the extraction writes. -/
theorem C18_reader_returns_indexed_messages (input : Bytes) :
    readIndexed input (cfgFile.runFile input 0) = messages input := by
  unfold readIndexed messages
  have h : ∀ p ∈ cfgFile.runFile input 0, readEntry input p.1 = some (slice input p.1 p.2) := by
    intro p hp
    have hv := runFile_mem_valid (c := cfgFile) input 0 p hp
    rw [Nat.sub_zero, stepFile_emit_iff, step_emit_iff] at hv
    obtain ⟨h1, h2, h3, h4, h5⟩ := hv
    have hml : cfgFile.msgLen (input.drop p.1) = HDR + u32le (input.drop p.1) 16 := by
      unfold Cfg.msgLen cfgFile; simp only; unfold HDR; rw [u32le_take (by omega)]
    rw [hml] at h3
    have hok : fileHeaderOk ((input.drop p.1).take HDR) = true := h2
    unfold fileHeaderOk at hok
    simp only [Bool.and_eq_true, decide_eq_true_eq] at hok
    have hmax : u32le (input.drop p.1) 16 ≤ MAX_EXPECTED := by
      have := hok.2; unfold HDR at this; rwa [u32le_take (by omega)] at this
    have hlen : HDR ≤ (input.drop p.1).length := h1
    unfold readEntry slice
    rw [if_neg (by omega), if_neg (by omega), if_neg (by omega), ← h3]
    have h5' : pyCrcOk ((input.drop p.1).take p.2) = true := h5
    rw [if_pos h5']
  generalize cfgFile.runFile input 0 = l at h
  induction l with
  | nil => rfl
  | cons a r ih =>
    rw [List.filterMap_cons, h a (List.mem_cons_self), List.map_cons]
    simp only
    rw [ih (fun p hp => h p (List.mem_cons_of_mem _ hp))]

/-- A byte string that the scan accepts whole. -/
def Whole (m : Bytes) : Prop := cfgFile.stepFile m = .emit m.length

/-- **Scan of a concatenation of whole messages** = one entry per message at the running offset. -/
theorem C18_scan_of_concat (ms : List Bytes) (hw : ∀ m ∈ ms, Whole m) (off : Nat) :
    cfgFile.runFile ms.flatten off = builderOffsets ms off := by
  induction ms generalizing off with
  | nil =>
    simp only [List.flatten_nil, builderOffsets]
    apply runFile_stop
    unfold Cfg.stepFile; rw [if_pos]; exact cfgFile.hdrLen_pos
  | cons m rest ih =>
    have hm : Whole m := hw m (by simp)
    have hstep : cfgFile.stepFile (m ++ rest.flatten) = .emit m.length := by
      have := (stepFile_emit_take' (c := cfgFile) (m ++ rest.flatten) m.length m.length).1
        (by rw [List.take_left']; exact hm; rfl)
      exact this.1
    rw [List.flatten_cons, runFile_emit hstep, List.drop_left', builderOffsets, ih (fun x hx => hw x (by simp [hx]))]
    rfl

/-- Every extracted message is accepted whole by the scan. -/
theorem messages_whole (input : Bytes) : ∀ m ∈ messages input, Whole m := by
  intro m hm
  unfold messages at hm
  obtain ⟨p, hp, rfl⟩ := List.mem_map.1 hm
  have hv := runFile_mem_valid (c := cfgFile) input 0 p hp
  have hpos := stepFile_emit_pos hv
  rw [Nat.sub_zero] at hv hpos
  unfold Whole slice
  have hlen : ((input.drop p.1).take p.2).length = p.2 := by
    simp only [List.length_take]; omega
  rw [hlen]
  exact (stepFile_emit_take' (c := cfgFile) (input.drop p.1) p.2 p.2).2 ⟨hv, Nat.le_refl _⟩

/-- **The output's fresh index is the index the builder wrote**: scanning the output afresh finds
exactly the extracted messages, at the offsets recorded while writing, with their lengths. -/
theorem C18_extract_index_eq_fresh (input : Bytes) :
    cfgFile.runFile (messages input).flatten 0 = builderOffsets (messages input) 0 :=
  C18_scan_of_concat _ (messages_whole input) 0

theorem slices_of_builderOffsets (ms : List Bytes) (pre : Bytes) :
    (builderOffsets ms pre.length).map (fun p => slice (pre ++ ms.flatten) p.1 p.2) = ms := by
  induction ms generalizing pre with
  | nil => rfl
  | cons m rest ih =>
    simp only [builderOffsets, List.map_cons, List.flatten_cons]
    congr 1
    · unfold slice
      rw [List.drop_left', List.take_left']; rfl; rfl
    · have := ih (pre ++ m)
      simp only [List.length_append, List.append_assoc] at this
      exact this

/-- **Output = concatenation; extraction is idempotent.** Extracting the output again gives the same
messages, hence byte for byte the same output, and the same count. -/
theorem C18_extract_idempotent (input : Bytes) :
    messages (messages input).flatten = messages input := by
  unfold messages
  have h := C18_extract_index_eq_fresh input
  unfold messages at h
  rw [h]
  have := slices_of_builderOffsets ((cfgFile.runFile input 0).map fun p => slice input p.1 p.2) []
  simpa using this

theorem C18_extract_idempotent' (input : Bytes) (out : Bytes) (n : Nat) (h : extract input = (some out, n)) :
    extract out = (some out, n) := by
  unfold extract at h ⊢
  split at h
  · cases h
  · rename_i hne
    injection h with h1 h2
    injection h1 with h1
    subst h1; subst h2
    rw [C18_extract_idempotent, if_neg hne]

/-- The reported count is the number of messages of the scan; no message ⇒ no output file. -/
theorem C18_extract_count (input : Bytes) :
    (extract input).2 = (cfgFile.runFile input 0).length ∧
    ((cfgFile.runFile input 0) = [] ↔ (extract input).1 = none) := by
  unfold extract messages
  cases h : cfgFile.runFile input 0 with
  | nil => simp
  | cons a r => simp

/-- Output bytes, spelled out: the concatenation, in order, of the raw bytes of the accepted messages. -/
theorem C18_extract_bytes (input out : Bytes) (n : Nat) (h : extract input = (some out, n)) :
    out = ((cfgFile.runFile input 0).map fun p => slice input p.1 p.2).flatten := by
  unfold extract at h
  split at h
  · cases h
  · injection h with h1 _
    injection h1 with h1
    exact h1.symm

end FeVerif
