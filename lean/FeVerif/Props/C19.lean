/-
C19 — Yaw/heading conversions are mutually inverse and range-normalised.

  For every finite angle, converting yaw (counter-clockwise from east) to compass heading gives the angle
  congruent to 90° − yaw within [0, 360), converting heading to yaw gives the angle congruent to 90° − heading
  within [−180, 180), the two conversions are inverse up to a full turn, and the radian variants agree with
  the degree variants; scalars and arrays give identical element-wise results.

The theorems are about the definitions of `Model/Angle.lean` themselves (the ones the native driver executes):
`Rat` there is Lean's own rational type, which is what Mathlib calls `ℚ`.

PARTIAL with respect to the property text in one respect only: the arithmetic here is exact.  The code computes
in IEEE-754 binary64, where each `+`/`-` rounds (`np.fmod` itself is exact).  The congruences then hold up to
rounding error (a tolerance in the check).  Whether a rounded result can land exactly on the excluded end point
(`360.0`, `180.0`) is decided only relative to the hypotheses `Rounding` (section "Range under rounded arithmetic":
for every monotone rounding that is exact on representable values the results stay in range; for radians the
spacing fact below `2·math.pi` is a hypothesis).  That NumPy's binary64 arithmetic satisfies `Rounding` is not
proved; it is covered by the boundary inputs of `tools/props/c19.py` (every multiple of 45° ± 1..3 ulp, ±5e-324,
±1e-300, −1e-17 offsets, wrap points thousands of turns away), by the range oracle run on every generated input
and by the bit-exact comparison of NumPy with the executable rounded model.  No theorem below is named `_partial`
because each is the full statement for the arithmetic it names; the float layer is the named gap.
-/
import FeVerif.Proofs.Angle

namespace FeVerif

open Angle

/-! ### Degrees -/

/-- heading ∈ [0, 360) for every yaw -/
theorem C19_heading_range (y : Rat) : 0 ≤ yawToHeading y ∧ yawToHeading y < 360 := by
  have h := wrapAngle_range (a := 180 / 2 - y) (T := 2 * 180) (by norm_num)
  simp only [yawToHeading, yawToHeadingH]
  norm_num at h ⊢
  exact h

/-- heading ≡ 90 − yaw (mod 360) -/
theorem C19_heading_congr (y : Rat) : ∃ k : Int, yawToHeading y = 90 - y + 360 * (k : Rat) := by
  obtain ⟨k, hk⟩ := wrapAngle_congr (180 / 2 - y) (2 * 180)
  refine ⟨k, ?_⟩
  simp only [yawToHeading, yawToHeadingH]
  rw [hk]
  ring

/-- yaw ∈ [−180, 180) for every heading -/
theorem C19_yaw_range (h : Rat) : -180 ≤ headingToYaw h ∧ headingToYaw h < 180 := by
  have hw := wrapAngle_range (a := 180 / 2 - h + 180) (T := 2 * 180) (by norm_num)
  simp only [headingToYaw, headingToYawH]
  constructor <;> linarith [hw.1, hw.2]

/-- yaw ≡ 90 − heading (mod 360) -/
theorem C19_yaw_congr (h : Rat) : ∃ k : Int, headingToYaw h = 90 - h + 360 * (k : Rat) := by
  obtain ⟨k, hk⟩ := wrapAngle_congr (180 / 2 - h + 180) (2 * 180)
  refine ⟨k, ?_⟩
  simp only [headingToYaw, headingToYawH]
  rw [hk]
  ring

/-- the two conversions are inverse up to a whole number of turns, in both orders -/
theorem C19_inverse_mod_turn (x : Rat) :
    (∃ k : Int, headingToYaw (yawToHeading x) = x + 360 * (k : Rat)) ∧
    (∃ k : Int, yawToHeading (headingToYaw x) = x + 360 * (k : Rat)) := by
  constructor
  · obtain ⟨k1, h1⟩ := C19_heading_congr x
    obtain ⟨k2, h2⟩ := C19_yaw_congr (yawToHeading x)
    refine ⟨k2 - k1, ?_⟩
    rw [h2, h1]
    push_cast
    ring
  · obtain ⟨k1, h1⟩ := C19_yaw_congr x
    obtain ⟨k2, h2⟩ := C19_heading_congr (headingToYaw x)
    refine ⟨k2 - k1, ?_⟩
    rw [h2, h1]
    push_cast
    ring

/-- on the normalised ranges the conversions are exact inverses -/
theorem C19_inverse_in_range :
    (∀ y : Rat, -180 ≤ y → y < 180 → headingToYaw (yawToHeading y) = y) ∧
    (∀ h : Rat, 0 ≤ h → h < 360 → yawToHeading (headingToYaw h) = h) := by
  constructor
  · intro y h1 h2
    obtain ⟨k, hk⟩ := (C19_inverse_mod_turn y).1
    have r := C19_yaw_range (yawToHeading y)
    exact eq_of_congr_of_range (lo := -180) (T := 360) (by norm_num) ⟨r.1, by linarith [r.2]⟩
      ⟨h1, by linarith⟩ hk
  · intro h h1 h2
    obtain ⟨k, hk⟩ := (C19_inverse_mod_turn h).2
    have r := C19_heading_range (headingToYaw h)
    exact eq_of_congr_of_range (lo := 0) (T := 360) (by norm_num) ⟨r.1, by linarith [r.2]⟩
      ⟨h1, by linarith⟩ hk

/-- both conversions are periodic: a full turn on the input does not change the output -/
theorem C19_periodic (x : Rat) (n : Int) :
    yawToHeading (x + 360 * (n : Rat)) = yawToHeading x ∧ headingToYaw (x + 360 * (n : Rat)) = headingToYaw x := by
  constructor
  · obtain ⟨k1, h1⟩ := C19_heading_congr (x + 360 * (n : Rat))
    obtain ⟨k2, h2⟩ := C19_heading_congr x
    have r1 := C19_heading_range (x + 360 * (n : Rat))
    have r2 := C19_heading_range x
    refine eq_of_congr_of_range (lo := 0) (T := 360) (k := k1 - n - k2) (by norm_num) ⟨r1.1, by linarith [r1.2]⟩
      ⟨r2.1, by linarith [r2.2]⟩ ?_
    rw [h1, h2]
    push_cast
    ring
  · obtain ⟨k1, h1⟩ := C19_yaw_congr (x + 360 * (n : Rat))
    obtain ⟨k2, h2⟩ := C19_yaw_congr x
    have r1 := C19_yaw_range (x + 360 * (n : Rat))
    have r2 := C19_yaw_range x
    refine eq_of_congr_of_range (lo := -180) (T := 360) (k := k1 - n - k2) (by norm_num) ⟨r1.1, by linarith [r1.2]⟩
      ⟨r2.1, by linarith [r2.2]⟩ ?_
    rw [h1, h2]
    push_cast
    ring

/-! ### Radians (and any other unit): the half turn `H` is a positive parameter, so `π` need not be rational -/

/-- the `deg=False` branch with half turn `H > 0` has the corresponding ranges `[0, 2H)` and `[−H, H)` -/
theorem C19_rad_range {H : Rat} (hH : 0 < H) (x : Rat) :
    (0 ≤ yawToHeadingH H x ∧ yawToHeadingH H x < 2 * H) ∧ (-H ≤ headingToYawH H x ∧ headingToYawH H x < H) := by
  have h1 := wrapAngle_range (a := H / 2 - x) (T := 2 * H) (by linarith)
  have h2 := wrapAngle_range (a := H / 2 - x + H) (T := 2 * H) (by linarith)
  simp only [yawToHeadingH, headingToYawH]
  exact ⟨h1, by linarith [h2.1], by linarith [h2.2]⟩

/-- the `deg=False` branch is congruent to a quarter turn minus the input, modulo a full turn `2H` -/
theorem C19_rad_congr (H x : Rat) :
    (∃ k : Int, yawToHeadingH H x = H / 2 - x + 2 * H * (k : Rat)) ∧
    (∃ k : Int, headingToYawH H x = H / 2 - x + 2 * H * (k : Rat)) := by
  obtain ⟨k1, h1⟩ := wrapAngle_congr (H / 2 - x) (2 * H)
  obtain ⟨k2, h2⟩ := wrapAngle_congr (H / 2 - x + H) (2 * H)
  simp only [yawToHeadingH, headingToYawH]
  exact ⟨⟨k1, h1⟩, ⟨k2, by rw [h2]; ring⟩⟩

/-- the radian variants agree with the degree variants: converting the input from degrees to the unit in which
the half turn is `H` (`x ↦ x·H/180`) and converting the degree result the same way give the same value -/
theorem C19_rad_deg_agree {H : Rat} (hH : 0 < H) (x : Rat) :
    yawToHeadingH H (x * H / 180) = yawToHeading x * H / 180 ∧
    headingToYawH H (x * H / 180) = headingToYaw x * H / 180 := by
  have hc : H / 180 ≠ 0 := by positivity
  have e1 : H / 2 - x * H / 180 = H / 180 * (180 / 2 - x) := by ring
  have e2 : H / 2 - x * H / 180 + H = H / 180 * (180 / 2 - x + 180) := by ring
  have e3 : 2 * H = H / 180 * (2 * 180) := by ring
  simp only [yawToHeading, headingToYaw, yawToHeadingH, headingToYawH]
  rw [e2, e1, e3, wrapAngle_scale hc, wrapAngle_scale hc]
  constructor <;> ring

/-! ### Call forms: the unit is what the second positional argument / the keyword `deg` says, degrees by default -/

/-- what a call asks for depends only on the truth value of the flag, not on how it is passed; an omitted flag and a
true flag are the degree conversion, a false flag is the radian conversion (half turn `piD`) -/
theorem C19_call_forms_agree (piD x : Rat) (b : Bool) :
    yawToHeadingCall piD (.positional b) x = yawToHeadingCall piD (.keyword b) x ∧
    headingToYawCall piD (.positional b) x = headingToYawCall piD (.keyword b) x ∧
    yawToHeadingCall piD .omitted x = yawToHeading x ∧ headingToYawCall piD .omitted x = headingToYaw x ∧
    yawToHeadingCall piD (.positional true) x = yawToHeading x ∧ headingToYawCall piD (.positional true) x = headingToYaw x ∧
    yawToHeadingCall piD (.positional false) x = yawToHeadingH piD x ∧
    headingToYawCall piD (.positional false) x = headingToYawH piD x :=
  ⟨rfl, rfl, rfl, rfl, rfl, rfl, rfl, rfl⟩

/-- every call form lands in the range of the unit it names: [0, 360) / [−180, 180), or [0, 2π) / [−π, π) -/
theorem C19_call_range {piD : Rat} (hpi : 0 < piD) (u : UnitArg) (x : Rat) :
    (0 ≤ yawToHeadingCall piD u x ∧ yawToHeadingCall piD u x < 2 * halfTurn piD u.deg) ∧
    (-(halfTurn piD u.deg) ≤ headingToYawCall piD u x ∧ headingToYawCall piD u x < halfTurn piD u.deg) := by
  have hH : 0 < halfTurn piD u.deg := by
    unfold halfTurn
    split
    · norm_num
    · exact hpi
  exact C19_rad_range hH x

/-- every call form is congruent to a quarter turn (of its unit) minus the input -/
theorem C19_call_congr (piD : Rat) (u : UnitArg) (x : Rat) :
    (∃ k : Int, yawToHeadingCall piD u x = halfTurn piD u.deg / 2 - x + 2 * halfTurn piD u.deg * (k : Rat)) ∧
    (∃ k : Int, headingToYawCall piD u x = halfTurn piD u.deg / 2 - x + 2 * halfTurn piD u.deg * (k : Rat)) :=
  C19_rad_congr (halfTurn piD u.deg) x

/-! ### Arrays -/

/-- an array argument gives, position by position, the scalar result (same length, same elements) -/
theorem C19_array_elementwise (H : Rat) (xs : List Rat) :
    yawToHeadingArr H xs = xs.map (yawToHeadingH H) ∧ headingToYawArr H xs = xs.map (headingToYawH H) ∧
    (yawToHeadingArr H xs).length = xs.length ∧ (headingToYawArr H xs).length = xs.length ∧
    (∀ i (hi : i < xs.length), (yawToHeadingArr H xs)[i]? = some (yawToHeadingH H xs[i])) ∧
    (∀ i (hi : i < xs.length), (headingToYawArr H xs)[i]? = some (headingToYawH H xs[i])) := by
  refine ⟨rfl, rfl, by simp [yawToHeadingArr], by simp [headingToYawArr], ?_, ?_⟩
  · intro i hi
    simp [yawToHeadingArr, List.getElem?_eq_getElem hi]
  · intro i hi
    simp [headingToYawArr, List.getElem?_eq_getElem hi]

/-- every element of a converted array is in range (degrees) -/
theorem C19_array_range (xs : List Rat) :
    (∀ v ∈ yawToHeadingArr 180 xs, 0 ≤ v ∧ v < 360) ∧ (∀ v ∈ headingToYawArr 180 xs, -180 ≤ v ∧ v < 180) := by
  constructor
  · intro v hv
    obtain ⟨x, _, rfl⟩ := List.mem_map.mp hv
    exact C19_heading_range x
  · intro v hv
    obtain ⟨x, _, rfl⟩ := List.mem_map.mp hv
    exact C19_yaw_range x

/-! ### Range under rounded arithmetic

`yawToHeadingR` / `headingToYawR` round every `+` and `-` with `R.rnd`.  For any format and rounding with the
properties listed in `Spec/Angle.lean` (`Rounding`: monotone, exact on representable values, `fmod` closed) the
results stay inside the half-open ranges: rounding cannot produce the excluded end point.  That binary64 with
round-to-nearest-even *is* such a `Rounding` is standard IEEE-754 but is not proved here; the check ties the
executable instance (`roundDouble`) to NumPy by exact equality of results. -/

/-- rounded heading ∈ [0, 2H): the sum `fmod … + 2H` may round up to exactly `2H`, the second `fmod` maps that to 0 -/
theorem C19_heading_range_rounded (R : Rounding) (h0 : R.rep 0) {H : Rat} (hH : 0 < H) (y : Rat) :
    0 ≤ yawToHeadingR R.rnd H y ∧ yawToHeadingR R.rnd H y < 2 * H :=
  wrapAngleR_range R h0 (by linarith)

/-- rounded yaw ∈ [−H, H), given the largest representable value `p` below `H` bounds `w − H` for every representable
`w < 2H` (a fact about the spacing of the format just below `2H`, see `C19_yaw_range_binary64`) -/
theorem C19_yaw_range_rounded (R : Rounding) (h0 : R.rep 0) {H : Rat} (hH : 0 < H) (hnH : R.rep (-H))
    (hT : R.rep (2 * H)) {p : Rat} (hp : R.rep p) (hpH : p < H)
    (hgap : ∀ w, R.rep w → w < 2 * H → w - H ≤ p) (h : Rat) :
    -H ≤ headingToYawR R.rnd H h ∧ headingToYawR R.rnd H h < H := by
  have hw := wrapAngleR_range R h0 (a := R.rnd (R.rnd (H / 2 - h) + H)) (T := 2 * H) (by linarith)
  have hrep := wrapAngleR_rep R hT (R.rnd (R.rnd (H / 2 - h) + H))
  simp only [headingToYawR]
  constructor
  · have := R.mono (a := -H) (b := wrapAngleR R.rnd (R.rnd (R.rnd (H / 2 - h) + H)) (2 * H) - H) (by linarith [hw.1])
    rwa [R.fix hnH] at this
  · have := R.mono (hgap _ hrep hw.2)
    rw [R.fix hp] at this
    linarith

/-- binary64, degrees: whatever the (monotone, exact-on-doubles) rounding mode, `heading_to_yaw` stays in [−180, 180)
and `yaw_to_heading` in [0, 360) -/
theorem C19_range_binary64 (R : Rounding) (hrep : ∀ x, R.rep x ↔ IsDouble x) (x : Rat) :
    (0 ≤ yawToHeadingR R.rnd 180 x ∧ yawToHeadingR R.rnd 180 x < 360) ∧
    (-180 ≤ headingToYawR R.rnd 180 x ∧ headingToYawR R.rnd 180 x < 180) := by
  have h0 : R.rep 0 := (hrep 0).mpr isDouble_zero
  constructor
  · have := C19_heading_range_rounded R h0 (H := 180) (by norm_num) x
    norm_num at this
    exact this
  · refine C19_yaw_range_rounded R h0 (H := 180) (by norm_num) ((hrep _).mpr isDouble_neg_180)
      ((hrep _).mpr (by norm_num; exact isDouble_360)) ((hrep _).mpr isDouble_pred_180) (by norm_num) ?_ x
    intro w hw hlt
    have := isDouble_lt_360 ((hrep w).mp hw) (by linarith)
    have e : (360 : Rat) - 1 / 2 ^ 44 - 180 = 180 - 1 / 2 ^ 44 := by norm_num
    have e2 : (1 : Rat) / 2 ^ 45 ≤ 1 / 2 ^ 44 := by norm_num
    linarith

/-- with exact arithmetic as the (trivial) rounding the rounded formulas are the exact ones: the hypotheses of the
theorems above are satisfiable and the two models are the same function there -/
theorem C19_rounded_exact_agree (H x : Rat) :
    yawToHeadingR Rounding.exact.rnd H x = yawToHeadingH H x ∧ headingToYawR Rounding.exact.rnd H x = headingToYawH H x := by
  simp [yawToHeadingR, headingToYawR, wrapAngleR, yawToHeadingH, headingToYawH, wrapAngle, Rounding.exact]

/-! ### The formulas before the repair (commit 085562a) do not have the property

`np.fmod(90.0 - yaw + 180.0, 360.0)`: wrong offset (`yaw = 0`, east, gave 270 instead of 90) and, because `fmod`
keeps the dividend's sign, results outside the range (`yaw = 300` gave −30; `heading = 300` gave −210). -/
theorem C19_prefix_formula_fails :
    ¬ (∀ y : Rat, (0 ≤ yawToHeadingOld y ∧ yawToHeadingOld y < 360) ∧
        ∃ k : Int, yawToHeadingOld y = 90 - y + 360 * (k : Rat)) ∧
    ¬ (∀ h : Rat, -180 ≤ headingToYawOld h ∧ headingToYawOld h < 180) := by
  have t : trunc ((90 - 300 + 180 : Rat) / 360) = 0 := trunc_eq_zero (by norm_num) (by norm_num)
  constructor
  · intro h
    have h300 := (h 300).1.1
    simp only [yawToHeadingOld, fmod_eq, t] at h300
    norm_num at h300
  · intro h
    have h300 := (h 300).1
    simp only [headingToYawOld, fmod_eq, t] at h300
    norm_num at h300

/-! ### Non-vacuity: concrete values, computed by the same definitions -/
#guard yawToHeading 0 == 90 && yawToHeading 90 == 0 && yawToHeading 300 == 150 && yawToHeading (-270) == 0
#guard headingToYaw 0 == 90 && headingToYaw 300 == 150 && headingToYaw 270 == -180 && headingToYaw (-90 - 1/1000) == -180 + 1/1000
#guard yawToHeadingArr 180 [0, 45, 450, -1/3] == [90, 45, 0, 90 + 1/3]
#guard yawToHeadingR roundDouble 180 (90 + pow2 (-46)) == 0 && headingToYawR roundDouble 180 (270 + pow2 (-44)) == 180 - pow2 (-44)

end FeVerif
