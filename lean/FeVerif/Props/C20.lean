/-
C20 — C++ data-version text conversion is a safe, exact round trip.

Model: FeVerif/Model/DataVersion.lean (`fromString` = `FromString(const char*)` of data_version.cc after
the fix commit a4e1937, over a NUL-terminated buffer whose every read is bounds-checked by the model;
`toStr` = `ToString`/`operator<<`; `opEq … opGe` = the six operators of data_version.h).
Oracle: FeVerif/Spec/DataVersion.lean (`Grammar s M m`: `s` is digits(M ≤ 255) "." digits(m ≤ 65535),
leading zeros admitted; `LexLt`).  The model is tied to the compiled code under ASan/UBSan by
tools/props/c20.py + cxx/c20_harness.cc.
-/
import FeVerif.Proofs.DataVersion

namespace FeVerif
open DV

/-- ToString of a valid version is a text of the grammar denoting that version. -/
theorem C20_toString_in_grammar (v : DataVersion) (hv : v.isValid = true) :
    Grammar (toStr v) v.major.toNat v.minor.toNat := by
  unfold toStr; rw [if_pos hv]
  obtain ⟨a1, a2, a3⟩ := decDigits_spec v.major.toNat
  obtain ⟨b1, b2, b3⟩ := decDigits_spec v.minor.toNat
  have h1 := v.major.toNat_lt
  have h2 := v.minor.toNat_lt
  simp at h1 h2
  exact ⟨_, _, rfl, a1, a2, a3, by omega, b1, b2, b3, by omega⟩

/-- Round trip: formatting a valid version and parsing the text back yields the same version
(all 256 × 65536 − 1 of them; no fault on the way). -/
theorem C20_roundtrip (v : DataVersion) (hv : v.isValid = true) : fromString (toStr v) = .ok v := by
  rw [fromString_of_grammar (C20_toString_in_grammar v hv)]
  cases v; simp

/-- The invalid version is formatted as `<invalid>`, which parses back to the invalid version; so
the round trip holds for every `DataVersion` value. -/
theorem C20_roundtrip_all (v : DataVersion) : fromString (toStr v) = .ok v := by
  by_cases hv : v.isValid = true
  · exact C20_roundtrip v hv
  · have hinv : v = INVALID := by
      cases v with | mk a b =>
      simp [DataVersion.isValid] at hv
      simp [INVALID, hv.1, hv.2]
    subst hinv
    have h0 : read (toStr INVALID) 0 = .ok '<' := by decide
    unfold fromString
    rw [h0]
    have : isDigit '<' = false := by decide
    simp [this]

/-- Memory safety: for every string (any bytes, any length) `FromString` performs no read beyond
the terminator — the model's reads are bounds-checked and none of them faults. -/
theorem C20_never_faults (s : List Char) : fromString s ≠ .fault := fromString_ne_fault s

/-- Hence `FromString` always returns a version. -/
theorem C20_total (s : List Char) : ∃ v, fromString s = .ok v := by
  cases h : fromString s with
  | ok v => exact ⟨v, rfl⟩
  | fault => exact absurd h (C20_never_faults s)

/-- The grammar, both ways: a text `<major>.<minor>` (digits only, major ≤ 255, minor ≤ 65535) is
parsed to exactly that version; every other C string is parsed to the invalid version. -/
theorem C20_grammar (s : List Char) (hn : NulFree s) :
    (∀ M m, Grammar s M m → fromString s = .ok ⟨UInt8.ofNat M, UInt16.ofNat m⟩) ∧
    ((¬ ∃ M m, Grammar s M m) → fromString s = .ok INVALID) := by
  refine ⟨fun M m h => fromString_of_grammar h, fun h => ?_⟩
  rcases fromString_cases s hn with h' | ⟨M, m, hg, _⟩
  · exact h'
  · exact absurd ⟨M, m, hg⟩ h

/-- The result is a *valid* version exactly for the texts of the grammar other than `255.65535`
(whose value is the reserved invalid version), and then it is the denoted version. -/
theorem C20_valid_iff_grammar (s : List Char) (hn : NulFree s) (v : DataVersion) :
    (fromString s = .ok v ∧ v.isValid = true) ↔
      ∃ M m, Grammar s M m ∧ ¬ (M = 255 ∧ m = 65535) ∧ v = ⟨UInt8.ofNat M, UInt16.ofNat m⟩ := by
  constructor
  · rintro ⟨h, hv⟩
    rcases fromString_cases s hn with h' | ⟨M, m, hg, h'⟩
    · rw [h'] at h; injection h with h; subst h; exact absurd hv (by decide)
    · rw [h'] at h; injection h with h; subst h
      refine ⟨M, m, hg, ?_, rfl⟩
      rintro ⟨rfl, rfl⟩
      exact absurd hv (by decide)
  · rintro ⟨M, m, hg, hne, rfl⟩
    refine ⟨fromString_of_grammar hg, ?_⟩
    obtain ⟨a, b, _, _, _, _, hM, _, _, _, hm⟩ := hg
    unfold DataVersion.isValid
    simp only [Bool.or_eq_true, bne_iff_ne, ne_eq]
    by_cases h1 : M = 255
    · right
      intro h
      have := congrArg UInt16.toNat h
      simp at this
      omega
    · left
      intro h
      have := congrArg UInt8.toNat h
      simp at this
      omega

/-! ### ordering -/

/-- `operator<` is the lexicographic order on `(major, minor)`. -/
theorem C20_lt_is_lex (a b : DataVersion) : opLt a b = true ↔ LexLt a b := opLt_iff a b

/-- `operator==` is equality of both fields. -/
theorem C20_eq_is_eq (a b : DataVersion) : opEq a b = true ↔ a = b := opEq_iff a b

/-- Trichotomy: exactly one of `a < b`, `a == b`, `b < a`. -/
theorem C20_trichotomy (a b : DataVersion) :
    (opLt a b = true ∧ opEq a b = false ∧ opLt b a = false) ∨
    (opLt a b = false ∧ opEq a b = true ∧ opLt b a = false) ∨
    (opLt a b = false ∧ opEq a b = false ∧ opLt b a = true) := by
  have hab := opLt_iff a b
  have hba := opLt_iff b a
  have he := opEq_iff a b
  rw [lexLt_iff_key] at hab hba
  have hk : key a = key b → a = b := key_inj
  have hk' : a = b → key a = key b := fun h => by rw [h]
  cases h1 : opLt a b <;> cases h2 : opEq a b <;> cases h3 : opLt b a <;> simp_all <;> omega

/-- `<` is a strict total order and `!= > <= >=` are the derived relations. -/
theorem C20_total_order :
    (∀ a, opLt a a = false) ∧
    (∀ a b c, opLt a b = true → opLt b c = true → opLt a c = true) ∧
    (∀ a b, opLt a b = true ∨ a = b ∨ opLt b a = true) ∧
    (∀ a b, opNe a b = !opEq a b) ∧
    (∀ a b, opGt a b = opLt b a) ∧
    (∀ a b, opLe a b = true ↔ (opLt a b = true ∨ opEq a b = true)) ∧
    (∀ a b, opGe a b = true ↔ (opGt a b = true ∨ opEq a b = true)) ∧
    (∀ a b, opLe a b = true ∨ opLe b a = true) ∧
    (∀ a b, opLe a b = true → opLe b a = true → a = b) ∧
    (∀ a b c, opLe a b = true → opLe b c = true → opLe a c = true) := by
  have lt_key : ∀ a b, opLt a b = true ↔ key a < key b := fun a b => by rw [opLt_iff, lexLt_iff_key]
  have ltf_key : ∀ a b, opLt a b = false ↔ ¬ key a < key b := fun a b => by
    rw [← lt_key]; simp
  have le_key : ∀ a b, opLe a b = true ↔ key a ≤ key b := fun a b => by
    unfold opLe opGt; simp only [Bool.not_eq_true', ltf_key]; omega
  have eq_key : ∀ a b, opEq a b = true ↔ key a = key b := fun a b => by
    rw [opEq_iff]; exact ⟨fun h => by rw [h], key_inj⟩
  refine ⟨?_, ?_, ?_, ?_, ?_, ?_, ?_, ?_, ?_, ?_⟩
  · intro a; rw [ltf_key]; omega
  · intro a b c; simp only [lt_key]; omega
  · intro a b
    rcases Nat.lt_trichotomy (key a) (key b) with h | h | h
    · exact Or.inl ((lt_key a b).2 h)
    · exact Or.inr (Or.inl (key_inj h))
    · exact Or.inr (Or.inr ((lt_key b a).2 h))
  · intro a b; rfl
  · intro a b; rfl
  · intro a b; rw [le_key, lt_key, eq_key]; omega
  · intro a b
    unfold opGe opGt; simp only [Bool.not_eq_true', ltf_key, lt_key, eq_key]; omega
  · intro a b; simp only [le_key]; omega
  · intro a b h1 h2; rw [le_key] at h1 h2; exact key_inj (by omega)
  · intro a b c; simp only [le_key]; omega

/-! ### the code before the fix (kept as a record of what the check found) -/

/-- Before the fix: every text consisting of a number ≤ 255 only (`"5"`, `"12"`, …) made
`FromString` read the byte after the terminator. -/
theorem C20_before_fix_reads_past_terminator (ds : List Char) (hne : ds ≠ []) (hd : AllDigits ds)
    (hv : decVal ds ≤ 255) : fromStringV0 ds = .fault := by
  have hs : strtol ds 0 = .ok (clampLong false (decVal ds), ds.length) := by
    have := strtol_run [] ds [] hne hd stopsDigits_nil
    simpa using this
  have hlen : ds.length ≠ 0 := fun h => hne (List.length_eq_zero_iff.1 h)
  have h2 : strtol ds (ds.length + 1) = .fault := by
    unfold strtol
    rw [skipSpaces_fault (read_fault (by omega))]
  unfold fromStringV0
  simp only [hs, clampLong_small (show decVal ds ≤ 65535 by omega)]
  rw [if_neg (by omega), h2]

/-- Before the fix: the separator was never looked at — any non-digit character between the two
numbers was taken (`"5x3"` gave 5.3). -/
theorem C20_before_fix_ignores_separator (a b : List Char) (c : Char) (hc : isDigit c = false)
    (ha : a ≠ []) (hda : AllDigits a) (hva : decVal a ≤ 255)
    (hb : b ≠ []) (hdb : AllDigits b) (hvb : decVal b ≤ 65535) :
    fromStringV0 (a ++ c :: b) = .ok ⟨UInt8.ofNat (decVal a), UInt16.ofNat (decVal b)⟩ := by
  have hs1 : strtol (a ++ c :: b) 0 = .ok (clampLong false (decVal a), a.length) := by
    have := strtol_run [] a (c :: b) ha hda hc
    simpa using this
  have hs2 : strtol (a ++ c :: b) (a.length + 1) =
      .ok (clampLong false (decVal b), a.length + 1 + b.length) := by
    have := strtol_run (a ++ [c]) b [] hb hdb stopsDigits_nil
    simpa using this
  have hlen1 : a.length ≠ 0 := fun h => ha (List.length_eq_zero_iff.1 h)
  have hlen2 : b.length ≠ 0 := fun h => hb (List.length_eq_zero_iff.1 h)
  unfold fromStringV0
  simp only [hs1, clampLong_small (show decVal a ≤ 65535 by omega)]
  rw [if_neg (by omega)]
  simp only [hs2, clampLong_small hvb]
  rw [if_neg (by omega)]
  simp

/-! ### the statements are about something (executable sanity checks of model and spec) -/

#guard fromString "3.2".toList == .ok ⟨3, 2⟩
#guard fromString "007.0003".toList == .ok ⟨7, 3⟩
#guard fromString "255.65534".toList == .ok ⟨255, 65534⟩
#guard fromString "255.65535".toList == .ok INVALID
#guard fromString "256.1".toList == .ok INVALID
#guard fromString "1.65536".toList == .ok INVALID
#guard fromString "5".toList == .ok INVALID
#guard fromString "5x3".toList == .ok INVALID
#guard fromString " 5.3".toList == .ok INVALID
#guard fromString "+5.3".toList == .ok INVALID
#guard fromString "5.-3".toList == .ok INVALID
#guard fromString "5.3 ".toList == .ok INVALID
#guard fromString "99999999999999999999999.1".toList == .ok INVALID
#guard fromStringV0 "5".toList == .fault
#guard fromStringV0 "5x3".toList == .ok ⟨5, 3⟩
#guard fromStringV0 " +5.-0".toList == .ok ⟨5, 0⟩
#guard toStr ⟨3, 2⟩ == "3.2".toList
#guard toStr ⟨0, 0⟩ == "0.0".toList
#guard toStr ⟨255, 65534⟩ == "255.65534".toList
#guard toStr INVALID == "<invalid>".toList
#guard opLt ⟨1, 65535⟩ ⟨2, 0⟩ && !opLt ⟨2, 0⟩ ⟨1, 65535⟩ && opLe ⟨2, 0⟩ ⟨2, 0⟩

example : Grammar "3.2".toList 3 2 :=
  ⟨['3'], ['2'], rfl, by simp, by intro c hc; simp at hc; subst hc; decide, by decide, by omega,
    by simp, by intro c hc; simp at hc; subst hc; decide, by decide, by omega⟩

example : LexLt ⟨1, 65535⟩ ⟨2, 0⟩ ∧ ¬ LexLt ⟨2, 0⟩ ⟨1, 65535⟩ := by unfold LexLt; decide

end FeVerif
