/-
C19 — what the rounded-arithmetic theorems assume about the floating-point format (core Lean, no Mathlib).

`Rounding` lists the facts about a format and its rounding function that the range proofs use; all of them are
standard properties of IEEE-754 binary64 with any of its rounding modes.  `IsDouble` is the set of finite binary64
values, used to discharge the one format-specific fact (the spacing of doubles just below 360).
-/
import FeVerif.Model.Angle

namespace FeVerif.Angle

/-- A floating-point format (`rep x`: `x` is a value of the format) with its rounding function `rnd`. -/
structure Rounding where
  rnd : Rat → Rat
  rep : Rat → Prop
  /-- rounding is monotone -/
  mono : ∀ {a b : Rat}, a ≤ b → rnd a ≤ rnd b
  /-- a representable value is not changed by rounding -/
  fix : ∀ {a : Rat}, rep a → rnd a = a
  /-- rounding produces a representable value -/
  rep_rnd : ∀ a : Rat, rep (rnd a)
  /-- the exact `fmod` of two representable values is representable (why C `fmod` never rounds) -/
  rep_fmod : ∀ {a b : Rat}, rep a → rep b → rep (fmod a b)

/-- Finite IEEE-754 binary64 values: `± m · 2^e` with `m < 2^53` and `-1074 ≤ e ≤ 971`. -/
def IsDouble (x : Rat) : Prop :=
  ∃ (m : Int) (k : Nat), m.natAbs < 2 ^ 53 ∧
    ((k ≤ 1074 ∧ x = (m : Rat) / ((2 ^ k : Nat) : Rat)) ∨ (k ≤ 971 ∧ x = (m : Rat) * ((2 ^ k : Nat) : Rat)))

/-- exact arithmetic is the trivial instance (shows the hypotheses are consistent) -/
def Rounding.exact : Rounding where
  rnd := id
  rep := fun _ => True
  mono := fun h => h
  fix := fun _ => rfl
  rep_rnd := fun _ => trivial
  rep_fmod := fun _ _ => trivial

end FeVerif.Angle
