/-
C03 — specification: what "the enumerations and the message-type registry agree between C++ and Python" means
over the two generated tables, and the HAND-WRITTEN pairing table (trusted).

Generated/C03Cxx.lean  (tools/c03_cxx_extract.py; values printed by a C++ probe compiled against the headers)
Generated/C03Py.lean   (tools/c03_py_extract.py;  values of the imported package, cross-checked with `ast.parse`)

Names are natural numbers: the big-endian base-256 value of the name's bytes (`nm`).  The encoding is injective on
names that do not start with a NUL byte, so equality of codes is equality of names.
-/
import FeVerif.Generated.C03Cxx
import FeVerif.Generated.C03Py

namespace FeVerif.C03

/-- Name code of an ASCII identifier: big-endian base-256 value of its characters (for ASCII text this is the
big-endian value of the UTF-8 bytes, which is what the translators emit). -/
def nm (s : String) : Nat := s.toList.foldl (fun a c => a * 256 + c.toNat) 0

/-- Members of an enumeration: (name code, value). -/
abbrev Members := List (Nat × Int)

/-- Look an enumeration up by name code. -/
def lookup (n : Nat) : List (Nat × Members) → Option Members
  | [] => none
  | (k, v) :: rest => if k = n then some v else lookup n rest

/-- A pairing of a C++ enumeration with a Python `IntEnum`, and, per side, the range sentinels: named values that
mark the end of the defined range and are never the value of a field on the wire. -/
structure Pair where
  cxx : Nat
  py : Nat
  cxxSentinels : List Nat := []
  pySentinels : List Nat := []
  deriving DecidableEq

/-- Same (unqualified) name on both sides, no sentinels. -/
def same (s : String) : Pair := { cxx := nm s, py := nm s }

/-- `MAX_VALUE = <last enumerator>`: the C++ headers' end-of-range alias. -/
def MAX_VALUE : Nat := nm "MAX_VALUE"

/--
THE PAIRING TABLE (hand-written, trusted).  One line per C++ `enum class` of
`src/point_one/fusion_engine/messages/*.h`, in header order, plus the one enumeration the headers spell as
`static const` members.  C++ names are qualified relative to `point_one::fusion_engine::messages`.

Sentinels:
* C++ `MAX_VALUE` (MessageType, SolutionType, SatelliteType, FrequencyBand): an alias of the last enumerator, "the
  maximum defined enum value"; Python has no such alias.
* Python `MessageType.RESERVED = 20000`: lower bound of the range reserved for internal use (every value `>= RESERVED`
  is reported as "RESERVED"); it is not a message type and C++ has no such enumerator.
-/
def enumPairs : List Pair := [
  -- configuration.h
  same "ConfigType",
  same "ConfigurationSource",
  same "SaveAction",
  { cxx := nm "CoarseOrientation::Direction", py := nm "Direction" },
  same "VehicleModel",
  same "WheelSensorType",
  same "AppliedSpeedType",
  same "SteeringType",
  same "TickMode",
  same "TickDirection",
  same "IonoDelayModel",
  same "TropoDelayModel",
  same "DataType",
  same "InterfaceConfigType",
  same "ProtocolType",
  same "TransportType",
  same "TransportDirection",
  same "SocketType",
  same "NmeaMessageType",
  same "MessageRate",
  -- defs.h
  { cxx := nm "MessageType", py := nm "MessageType", cxxSentinels := [MAX_VALUE], pySentinels := [nm "RESERVED"] },
  same "Response",
  { cxx := nm "SolutionType", py := nm "SolutionType", cxxSentinels := [MAX_VALUE] },
  -- device.h
  same "DeviceType",
  { cxx := nm "EventNotificationMessage::EventType", py := nm "EventType" },
  -- fault_control.h
  same "FaultType",
  same "CoComType",
  -- measurements.h
  same "SensorDataSource",
  same "SystemTimeSource",
  same "GearType",
  -- signal_defs.h
  { cxx := nm "SatelliteType", py := nm "SatelliteType", cxxSentinels := [MAX_VALUE] },
  { cxx := nm "FrequencyBand", py := nm "FrequencyBand", cxxSentinels := [MAX_VALUE] },
  -- solution.h
  same "CalibrationStage",
  -- ros.h: `static const uint8_t COVARIANCE_TYPE_*` members of ros::GPSFixMessage (not an `enum class`)
  { cxx := nm "ros::GPSFixMessage::COVARIANCE_TYPE_*", py := nm "CovarianceType" }
]

/--
Python `IntEnum` classes of `fusion_engine_client/messages/*.py` that are NOT protocol enumerations (hand-written,
trusted): no payload class serialises a field of this type and the C++ headers define nothing corresponding.
* `UpdateAction` (`REPLACE = 0`): referenced nowhere in the package.
* `SignalType` (`UNKNOWN = 0`): placeholder used only by the signal-id hashing helpers of `signal_defs.py`.
A Python *protocol enumeration* is every other class written as `class X(IntEnum)` in those files (the two classes the
`@enum_bitmask` decorator manufactures from `SatelliteType` / `FrequencyBand` are computed, not declared, and are not
in `Py.enums`).
-/
def pyNotOnWire : List Nat := [nm "UpdateAction", nm "SignalType"]

/-- Everything on the C++ side that a pair may refer to. -/
def cxxAll : List (Nat × Members) := Cxx.enums ++ Cxx.constGroups

/-- Members that can appear on the wire: all but the listed sentinels. -/
def wire (m : Members) (sentinels : List Nat) : Members := m.filter (fun nv => decide (nv.1 ∉ sentinels))

/-- Equality as sets of (name, value). -/
def SameMembers (a b : Members) : Prop := ∀ nv : Nat × Int, nv ∈ a ↔ nv ∈ b

/-- The two sides of a pair exist and have the same named wire values with the same numbers. -/
def PairAgrees (p : Pair) : Prop :=
  ∃ c q, lookup p.cxx cxxAll = some c ∧ lookup p.py Py.enums = some q ∧
    SameMembers (wire c p.cxxSentinels) (wire q p.pySentinels)

/-- A listed sentinel really is one: it is a member of the enumeration on its side (so the table cannot silently
"excuse" a name that does not exist), and on the C++ side it is an alias — its value is also carried by a
non-sentinel enumerator, so removing it removes no wire value. -/
def SentinelsJustified (p : Pair) : Prop :=
  ∃ c q, lookup p.cxx cxxAll = some c ∧ lookup p.py Py.enums = some q ∧
    (∀ s ∈ p.cxxSentinels, ∃ nv ∈ c, nv.1 = s ∧ ∃ nv' ∈ wire c p.cxxSentinels, nv'.2 = nv.2) ∧
    (∀ s ∈ p.pySentinels, ∃ nv ∈ q, nv.1 = s ∧ ∀ nv' ∈ c, nv'.2 < nv.2)

/-! ### the enumerations as a user reaches them

`Py.enums` is `E.__members__` read right after the import.  A user reaches a named wire value through `E.NAME`,
`E['NAME']`, `E('NAME')`, `E['name']`, `E.from_string(..)`, `E(number).name`, `for m in E`, ..., in a process in which
other enumerations have been asked before.  `Py.accessViews` (tools/c03_py_access.py) holds, per order in which the
enumerations were asked and per access path, the table name -> number of every declared enumeration as that path
answered; `Py.accessExtraNames` the names / numbers that resolved in an enumeration that does not define them. -/

/-- For a path keyed by NUMBER (`E(5)`, `E[5]`, iteration) an entry carries the name of the member returned, which for
an alias is the first name of that number: every entry of the view is a named value of the C++ enumeration, and every
number of the C++ enumeration is reached. -/
def CoversByValue (c v : Members) : Prop := (∀ nv ∈ v, nv ∈ c) ∧ (∀ nv ∈ c, ∃ nv' ∈ v, nv'.2 = nv.2)

/-- What a view has to be relative to the C++ enumeration: the same set of (name, number) for a path keyed by name,
`CoversByValue` for a path keyed by number. -/
def ViewRel : Bool → Members → Members → Prop
  | false, c, q => SameMembers c q
  | true, c, q => CoversByValue c q

/-- `PairAgrees` with the Python side read from a view instead of `Py.enums`. -/
def ViewAgrees (byValue : Bool) (view : List (Nat × Members)) (p : Pair) : Prop :=
  ∃ c q, lookup p.cxx cxxAll = some c ∧ lookup p.py view = some q ∧
    ViewRel byValue (wire c p.cxxSentinels) (wire q p.pySentinels)

/-- Orders of asking the enumerations that the table must contain (each observed in its own fresh interpreter). -/
def requiredOrders : List Nat := [nm "forward", nm "reverse"]

/-- Access paths that the table must contain for each of those orders (`from_string` is listed by the translator when
the class has it; the paths with `raise_on_unrecognized=False` likewise). -/
def requiredPaths : List Nat := [nm "attr", nm "members", nm "getitem", nm "call", nm "getitem_lower", nm "getitem_mixed",
  nm "call_lower", nm "by_value", nm "getitem_value", nm "iteration"]

/-! ### registry -/

/-- C++ payload struct: (qualified name, MESSAGE_TYPE, MESSAGE_VERSION); Python payload class likewise. -/
abbrev Decl := Nat × Int × Int
def Decl.name (d : Decl) : Nat := d.1
def Decl.type (d : Decl) : Int := d.2.1
def Decl.version (d : Decl) : Int := d.2.2

/-- The declarations in `l` whose message type is `t`. -/
def declaring (l : List Decl) (t : Int) : List Decl := l.filter (fun d => decide (d.type = t))

/-- `l` holds exactly one element (counted with multiplicity), and it satisfies `Q`. -/
def TheOnly (l : List Decl) (Q : Decl → Prop) : Prop := ∃ k, l = [k] ∧ Q k

end FeVerif.C03
