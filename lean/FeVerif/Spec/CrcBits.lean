/-
Bit-level vocabulary for the error-detection statements of C06 (core Lean only).

The CRC register is fed one message bit at a time, least significant bit of each byte first
(`crcBits`); `crcIter k` is `k` zero-feed steps; `crcLin` is the linear part of the CRC (zero
initial register, no final complement) — the quantity by which the CRC of a message changes when
an error pattern is xored onto it; `IsBurst` describes an error pattern whose altered bits all lie
in a window of at most 32 consecutive bit positions of the stream.
-/
import FeVerif.Model.Crc32

namespace FeVerif

/-- `k` zero-feed steps of the register. -/
def crcIter : Nat → W32 → W32
  | 0, c => c
  | k + 1, c => crcIter k (crcShift c)

def bitW (b : Bool) : W32 := if b then 1#32 else 0#32

/-- Feed one message bit: xor it into the low bit of the register, then one step. -/
def crcBitStep (c : W32) (b : Bool) : W32 := crcShift (c ^^^ bitW b)

/-- Feed a sequence of message bits. -/
def crcBits (c : W32) (bits : List Bool) : W32 := bits.foldl crcBitStep c

/-- The eight bits of a byte in the order the CRC consumes them (least significant first). -/
def bitsOfByte (b : Byte) : List Bool :=
  [b.toNat.testBit 0, b.toNat.testBit 1, b.toNat.testBit 2, b.toNat.testBit 3,
   b.toNat.testBit 4, b.toNat.testBit 5, b.toNat.testBit 6, b.toNat.testBit 7]

/-- The bit stream of a byte sequence. -/
def bitsOf (bs : Bytes) : List Bool := bs.flatMap bitsOfByte

/-- Byte-wise xor of a buffer with an error pattern (of the same length). -/
def xorBytes (a e : Bytes) : Bytes := List.zipWith (· ^^^ ·) a e

/-- The linear remainder: zero initial register, no final complement. -/
def crcLin (e : Bytes) : W32 := e.foldl crcByteSpec 0#32

def zeros (n : Nat) : List Bool := List.replicate n false

/-- An error pattern (as a bit stream) that is non-zero and whose set bits all lie within a window
of at most 32 consecutive positions.  Single-bit errors and double-bit errors less than 32
positions apart are instances. -/
def IsBurst (bits : List Bool) : Prop :=
  ∃ (p : Nat) (w : List Bool) (q : Nat), bits = zeros p ++ w ++ zeros q ∧ w.length ≤ 32 ∧ true ∈ w

/-- Two set bits `d` positions apart in a stream, `0 < d < 2^32 - 1`. -/
def TwoBits (bits : List Bool) : Prop :=
  ∃ p d q, 0 < d ∧ d < 4294967295 ∧ bits = zeros p ++ [true] ++ zeros (d - 1) ++ [true] ++ zeros q

/-- The pattern that flips bit `k` of byte `i` in a buffer of `n` bytes. -/
def flipPattern (n i k : Nat) : Bytes := (List.replicate n (0 : Byte)).set i (UInt8.ofNat (2 ^ k))

/-- Bits `w` placed in a register, first bit at position 0. -/
def packBits : List Bool → W32
  | [] => 0#32
  | b :: w => bitW b ^^^ (packBits w <<< 1)

end FeVerif
