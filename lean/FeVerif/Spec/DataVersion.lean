/-
C20 — what the text form of a data version is (the oracle the theorems are stated against).

Reading of `"<0-255>.<0-65535>"`: one or more decimal digits whose value is at most 255, one `'.'`,
one or more decimal digits whose value is at most 65535, and nothing else (no blanks, no sign, no
trailing characters).  Leading zeros are admitted (`"007.0003"` is 7.3): the C++ documentation only
speaks of the "X.Y form", `strtol` takes them, and rejecting them is not demanded by the property.
-/
import FeVerif.Model.DataVersion

namespace FeVerif
namespace DV

def AllDigits (l : List Char) : Prop := ∀ c ∈ l, isDigit c = true

/-- Value of a decimal digit string, most significant digit first. -/
def decVal (l : List Char) : Nat := l.foldl (fun n c => 10 * n + digitVal c) 0

/-- `s` is the text `<major>.<minor>`. -/
def Grammar (s : List Char) (major minor : Nat) : Prop :=
  ∃ a b, s = a ++ '.' :: b ∧
    a ≠ [] ∧ AllDigits a ∧ decVal a = major ∧ major ≤ 255 ∧
    b ≠ [] ∧ AllDigits b ∧ decVal b = minor ∧ minor ≤ 65535

/-- The content of a C string does not contain the terminator. -/
def NulFree (s : List Char) : Prop := NUL ∉ s

/-- Lexicographic order on `(major, minor)`. -/
def LexLt (a b : DataVersion) : Prop :=
  a.major.toNat < b.major.toNat ∨ (a.major.toNat = b.major.toNat ∧ a.minor.toNat < b.minor.toNat)

end DV
end FeVerif
