/-
The framing specification shared by C04, C05, C07, C08, C14, C18:
a left-to-right scan of a byte sequence for messages `header ++ body` that pass
a header predicate and a body predicate (CRC).  Everything is parametric in the predicates.
-/
import FeVerif.Basic.Bytes

namespace FeVerif

/-- A framing configuration.  `headerOk` looks at exactly `hdrLen` bytes (sync, reserved bytes,
announced length within the limit), `payload` is the number of bytes announced to follow the
header, `bodyOk` looks at exactly `hdrLen + payload` bytes (the integrity check). -/
structure Cfg where
  hdrLen : Nat
  hdrLen_pos : 0 < hdrLen
  headerOk : Bytes → Bool
  payload : Bytes → Nat
  bodyOk : Bytes → Bool

namespace Cfg

def msgLen (c : Cfg) (buf : Bytes) : Nat := c.hdrLen + c.payload (buf.take c.hdrLen)

/-- The verdict of the scan on the front of `buf`. -/
inductive Step
  | stop            -- cannot be judged yet: fewer than `hdrLen` bytes, or a plausible header whose body is incomplete
  | drop            -- the first byte does not start a message
  | emit (n : Nat)  -- the first `n` bytes are a message
  deriving DecidableEq, Repr

def step (c : Cfg) (buf : Bytes) : Step :=
  if buf.length < c.hdrLen then .stop
  else if c.headerOk (buf.take c.hdrLen) = false then .drop
  else if buf.length < c.msgLen buf then .stop
  else if c.bodyOk (buf.take (c.msgLen buf)) = true then .emit (c.msgLen buf)
  else .drop

theorem step_emit_pos {c : Cfg} {buf : Bytes} {n : Nat} (h : c.step buf = .emit n) :
    0 < n ∧ n ≤ buf.length := by
  unfold step at h
  split at h; · cases h
  split at h; · cases h
  split at h; · cases h
  split at h
  · injection h with h; subst h
    have := c.hdrLen_pos
    constructor
    · unfold msgLen; omega
    · omega
  · cases h

theorem step_drop_pos {c : Cfg} {buf : Bytes} (h : c.step buf = .drop) : 0 < buf.length := by
  unfold step at h
  have := c.hdrLen_pos
  split at h; · cases h
  omega

/-- Result of a scan: accepted messages as `(stream offset, length)`, the bytes not yet judged,
and the stream offset of the first of them. -/
structure Out where
  msgs : List (Nat × Nat)
  rest : Bytes
  off : Nat
  deriving DecidableEq, Repr

/-- Streaming scan: stops at the first position that cannot be judged yet. -/
def run (c : Cfg) (buf : Bytes) (off : Nat) : Out :=
  match h : c.step buf with
  | .stop => ⟨[], buf, off⟩
  | .drop => run c (buf.drop 1) (off + 1)
  | .emit n => ⟨(off, n) :: (run c (buf.drop n) (off + n)).msgs, (run c (buf.drop n) (off + n)).rest,
                (run c (buf.drop n) (off + n)).off⟩
termination_by buf.length
decreasing_by
  all_goals simp only [List.length_drop]
  all_goals first
    | (have := step_drop_pos h; omega)
    | (have := step_emit_pos h; omega)

/-- Verdict on the front of `buf` when `buf` is known to be everything there is (a file):
a candidate running past the end is not a message. -/
def stepFile (c : Cfg) (buf : Bytes) : Step :=
  if buf.length < c.hdrLen then .stop
  else if c.headerOk (buf.take c.hdrLen) = false then .drop
  else if buf.length < c.msgLen buf then .drop
  else if c.bodyOk (buf.take (c.msgLen buf)) = true then .emit (c.msgLen buf)
  else .drop

theorem stepFile_emit_pos {c : Cfg} {buf : Bytes} {n : Nat} (h : c.stepFile buf = .emit n) :
    0 < n ∧ n ≤ buf.length := by
  unfold stepFile at h
  split at h; · cases h
  split at h; · cases h
  split at h; · cases h
  split at h
  · injection h with h; subst h
    have := c.hdrLen_pos
    constructor
    · unfold msgLen; omega
    · omega
  · cases h

theorem stepFile_drop_pos {c : Cfg} {buf : Bytes} (h : c.stepFile buf = .drop) : 0 < buf.length := by
  unfold stepFile at h
  have := c.hdrLen_pos
  split at h; · cases h
  omega

/-- Sequential scan of a complete file. -/
def runFile (c : Cfg) (buf : Bytes) (off : Nat) : List (Nat × Nat) :=
  match h : c.stepFile buf with
  | .stop => []
  | .drop => runFile c (buf.drop 1) (off + 1)
  | .emit n => (off, n) :: runFile c (buf.drop n) (off + n)
termination_by buf.length
decreasing_by
  all_goals simp only [List.length_drop]
  all_goals first
    | (have := stepFile_drop_pos h; omega)
    | (have := stepFile_emit_pos h; omega)

end Cfg
end FeVerif
