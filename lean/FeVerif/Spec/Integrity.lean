/-
Vocabulary for the corruption statements of C06 (core Lean only): an exactly framed message, the
CRC comparison every validator performs, and the two ways a message is altered (error pattern on
the CRC-protected region `[8, end)`, replacement of the stored CRC field `[4, 8)`).
-/
import FeVerif.Model.Header
import FeVerif.Spec.CrcBits

namespace FeVerif

/-- `msg` is exactly one framed message: 24 header bytes plus the announced payload. -/
def ExactMsg (msg : Bytes) : Prop := msg.length = HDR + u32le msg 16

instance (msg : Bytes) : Decidable (ExactMsg msg) := by unfold ExactMsg; infer_instance

/-- The CRC-32 of bytes `[8, end)` equals the stored CRC field (bytes `[4, 8)`). -/
def CrcMatches (msg : Bytes) : Prop := (crc32 0#32 (msg.drop 8)).toNat = u32le msg 4

instance (msg : Bytes) : Decidable (CrcMatches msg) := by unfold CrcMatches; infer_instance

/-- Error pattern `e` xored onto the CRC-protected region `[8, end)` of `msg`. -/
def corruptProtected (msg e : Bytes) : Bytes := msg.take 8 ++ xorBytes (msg.drop 8) e

/-- The stored CRC field `[4, 8)` replaced by the four bytes `f`. -/
def replaceCrcField (msg f : Bytes) : Bytes := msg.take 4 ++ f ++ msg.drop 8

/-- A crafted 36-byte message (type 10000, sequence 0, source 0, 12 payload bytes of which the last four
were solved for): flipping bit 2 of byte 16 (payload size 12 → 8) turns its first 32 bytes into another
message whose stored CRC is correct.  Produced by tools/props/c06.py (`craft_size_flip`) and returned
verbatim by the Python encoder for that payload. -/
def c06Crafted : Bytes :=
  [0x2e, 0x31, 0, 0, 0x0d, 0x27, 0xd9, 0x04, 2, 0, 0x10, 0x27, 0, 0, 0, 0, 0x0c, 0, 0, 0, 0, 0, 0, 0,
   1, 2, 3, 4, 5, 6, 7, 8, 0x08, 0xc0, 0x12, 0xac]

end FeVerif
