/-
Specification side of C12: what a read on a freshly opened loader must return, stated without the
cache and without the three `max_messages` mechanisms.
-/
import FeVerif.Model.Loader

namespace FeVerif.Loader

/-- No message type carries both P1 time and system time (true of the registry; checked on every run). -/
def Reg.Disjoint (reg : Reg) : Prop := ∀ t, reg.hasP1 t = true → reg.hasSys t = false

/-- The messages the log reader yields, in file order, under the filters of the call: time range,
requested types, (with `require_p1_time`) entries with P1 time, source identifiers, the `require_*`
conditions on the payload, and only messages that deserialise. -/
def specStream (reg : Reg) (rd : Reader) (log : List Entry) (e : Eff) : List Entry :=
  ((if e.requireP1 && rd.dropsUntimed then
      ((rd.timeSel e.timeRange log).filter (fun x => e.types.contains x.type)).filter (fun x => x.time.isSome)
    else (rd.timeSel e.timeRange log).filter (fun x => e.types.contains x.type))).filter (readOk reg rd log e)

/-- ... limited to the first N (N ≥ 0) or the last |N| (N < 0) across all requested types. -/
def specSelected (reg : Reg) (rd : Reader) (log : List Entry) (e : Eff) : List Entry :=
  match e.maxMessages with
  | none => specStream reg rd log e
  | some n => sliceN n (specStream reg rd log e)

/-- A `MessageData` holding exactly the given messages, as read (not yet aligned / converted). -/
def specData (p : Params) (returnIndex : Bool) (l : List Entry) : MData :=
  { params := p, msgs := l.map Msg.orig, idx := if returnIndex then l.map (fun x => x.ord) else [],
    arrays := none, idxArr := false }

/-- The value a fresh loader must return: the selected messages in file order (`return_in_order`), or
grouped by requested type and then time-aligned / converted as the call asks. -/
def freshSpec (reg : Reg) (rd : Reader) (log : List Entry) (a : Args) : Result :=
  if a.inOrder then
    Result.ordered (specData (mkParams Variant.current a (eff reg rd log a)) a.returnIndex
      (specSelected reg rd log (eff reg rd log a)))
  else
    Result.dict (postDict Variant.current reg (eff reg rd log a) (eff reg rd log a).types
      ((eff reg rd log a).types.map (fun t =>
        (t, specData (mkParams Variant.current a (eff reg rd log a)) a.returnIndex
              ((specSelected reg rd log (eff reg rd log a)).filter (fun x => x.type == t))))))

end FeVerif.Loader
