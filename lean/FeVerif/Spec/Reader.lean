/-
Specifications for C10 (filtered reads) and C11 (cursor).
-/
import FeVerif.Model.Reader

namespace FeVerif
namespace Reader

/-- Filter criteria of a read. -/
structure Crit where
  types : Option (List Nat)
  range : Option TRange
  sources : Option (List Nat)
  maxBytes : Option Nat
  deriving Repr

def zipOrd : List Msg → Nat → List (Nat × Msg)
  | [], _ => []
  | m :: ms, i => (i, m) :: zipOrd ms (i + 1)

def secOf (m : Msg) : Option Nat := m.timeNs.map (· / NS)

/-- Position (ordinal) of the first message of the log whose whole-second P1 time satisfies `p`;
the length of the log if there is none. -/
def firstTimed (log : List Msg) (p : Nat → Bool) : Nat :=
  log.findIdx fun m => match secOf m with | some t => p t | none => false

/-- Ordinal of the first P1-timed message at or after the (floored) start; 0 without a start. -/
def specStart (log : List Msg) (start : Option Nat) : Nat :=
  match start with | none => 0 | some st => firstTimed log fun t => decide (t ≥ st / NS)

/-- Ordinal of the first P1-timed message at or after the end; the length of the log without an end. -/
def specStop (log : List Msg) (stop : Option Nat) : Nat :=
  match stop with | none => log.length | some sp => firstTimed log fun t => decide (t * NS ≥ sp)

/-- Whether the message at ordinal `i` falls in the time range: decided by its POSITION among all
messages of the log — at or after the first timed message at/after the (floored) start, and before the
first timed message at/after the end. -/
def inTime (log : List Msg) (start stop : Option Nat) (i : Nat) : Bool :=
  decide (specStart log start ≤ i) && decide (i < specStop log stop)

def critOk (log : List Msg) (c : Crit) (bnds : Option Nat × Option Nat) (im : Nat × Msg) : Bool :=
  (match c.types with | none => true | some ts => ts.contains im.2.type) &&
  (match c.sources with | none => true | some ss => ss.contains im.2.src) &&
  (match c.range with | none => true | some _ => inTime log bnds.1 bnds.2 im.1) &&
  (match c.maxBytes with | none => true | some mb => decide (im.2.offset + im.2.size ≤ mb))

/-- **The specification of a filtered read**: the messages of the unfiltered read that satisfy every
criterion, in file order.  `none`: a time range was requested on a non-empty log without any P1 time
(the reader raises). -/
def filterSpec (log : List Msg) (c : Crit) : Option (List Nat) :=
  match c.range with
  | some r =>
    if log.isEmpty then some []
    else if (bounds r (t0Of (indexOf log))).1.isNone && (bounds r (t0Of (indexOf log))).2.isNone then
      some (((zipOrd log 0).filter (critOk log { c with range := none } (none, none))).map (·.1))
    else if (t0Of (indexOf log)).isNone then none
    else some (((zipOrd log 0).filter (critOk log c (bounds r (t0Of (indexOf log))))).map (·.1))
  | none => some (((zipOrd log 0).filter (critOk log c (none, none))).map (·.1))

/-! ### Cursor specification -/

/-- Abstract reader state: the filtered list in force and the offset after which reading continues. -/
structure Abs where
  orig : List Ent
  sel : List Ent
  pos : Option Nat
  deriving Repr

def after (pos : Option Nat) (e : Ent) : Bool := match pos with | none => true | some p => decide (e.offset > p)

def absStep (a : Abs) : Op → Abs × Res
  | .readNext =>
    match a.sel.find? (after a.pos) with
    | none => (a, .stop)
    | some e => ({ a with pos := some e.offset }, .msg e.ordinal)
  | .filterTypes ts => ({ a with sel := sliceByTypes a.sel ts }, .done)
  | .filterTime r =>
    match sliceByRange a.sel (t0Of a.orig) r with
    | none => (a, .indexError)
    | some c => ({ a with sel := c }, .done)
  | .filterSlice i j => ({ a with sel := (a.sel.take j).drop i }, .done)
  | .filterStride i j k => ({ a with sel := stride k ((a.sel.take j).drop i) }, .done)
  | .removeUntimed => ({ a with sel := removeUntimed a.sel }, .done)
  | .clear => ({ a with sel := a.orig }, .done)
  | .rewind => ({ a with pos := none }, .done)
  | .seek i filtered =>
    if i ≥ (if filtered then a.sel.length else a.orig.length) then (a, .valueError)
    else
      ({ a with sel := if filtered then a.sel else a.orig,
                pos := if i = 0 then none else ((if filtered then a.sel else a.orig)[i - 1]?).map (·.offset) }, .done)
  | .seekEof =>
    match a.sel.find? (after a.pos), a.sel.getLast? with
    | some _, some l => ({ a with pos := some l.offset }, .done)
    | _, _ => (a, .done)

def absRun (a : Abs) : List Op → Abs × List Res
  | [] => (a, [])
  | op :: ops => ((absRun (absStep a op).1 ops).1, (absStep a op).2 :: (absRun (absStep a op).1 ops).2)

end Reader
end FeVerif
