/-
The RTCM 3 framing specification: the shared left-to-right scan (`Cfg.run`, Spec/Frame.lean)
instantiated for the RTCM 3 transport frame

    0xD3 | 6 reserved bits, 10-bit payload length | payload | CRC-24Q (3 bytes, big endian)

and a framing buffer of `capacity` bytes.
-/
import FeVerif.Spec.Frame
import FeVerif.Model.Crc24

namespace FeVerif

/-- The 10-bit length field of the 3 header bytes `h`. -/
def rtcmPayloadLen (h : Bytes) : Nat := ((byteAt h 1 <<< 8) ||| byteAt h 2) &&& 0x3FF

/-- Big-endian 24-bit number at `bs[i..i+3)`. -/
def be24At (bs : Bytes) (i : Nat) : Nat :=
  (byteAt bs i <<< 16) ||| (byteAt bs (i + 1) <<< 8) ||| byteAt bs (i + 2)

/-- The message number: the first 12 bits of the payload, i.e. `(b₃b₄) >> 4` of the frame. -/
def rtcmMsgNum (frame : Bytes) : Nat := ((byteAt frame 3 <<< 8) ||| byteAt frame 4) >>> 4

/-- Header: preamble and the whole frame (3 + length + 3 bytes) fits the buffer (and the format's
maximum of 1029 bytes, which a 10-bit length cannot exceed).
Body: the CRC-24Q of everything but the last three bytes equals those three bytes, big endian. -/
def cfgRtcm (capacity : Nat) : Cfg where
  hdrLen := 3
  hdrLen_pos := by decide
  headerOk h := byteAt h 0 == 0xD3 && decide (rtcmPayloadLen h + 6 ≤ capacity) && decide (rtcmPayloadLen h + 6 ≤ 1029)
  payload h := rtcmPayloadLen h + 3
  bodyOk m := crc24q (m.take (m.length - 3)) == be24At m (m.length - 3)

end FeVerif
