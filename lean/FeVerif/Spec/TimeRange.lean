/-
Specification of time-range membership (property C13), independent of the latches of the implementation.

An interval `[start, stop)` is absolute, or relative to an origin (the supplied `t0`, else the first P1 time
of the message sequence).  For a message `m` preceded by the messages `pre`, whose verdicts were `acc`:

* `m` has a P1 time `t`: accepted iff the (relative) time of `t` lies in the interval;
* `m` has no P1 time: accepted iff no earlier message had a P1 time at or beyond the end, and
  the start is open or some earlier message was accepted.
-/
import FeVerif.Model.TimeRange

namespace FeVerif.TR

structure Interval where
  /-- `none`: open start -/
  start : Option Ext
  /-- `none`: open end -/
  stop : Option Int
  absolute : Bool
  /-- origin of relative time (irrelevant for an absolute interval); `none` only if there is neither a supplied
  `t0` nor any P1 time -/
  origin : Option Int
  deriving DecidableEq, Repr

/-- The time compared with the bounds. -/
def Interval.rel (I : Interval) (t : Int) : Option Int :=
  if I.absolute then some t else I.origin.map (t - ·)

def Interval.startOk (I : Interval) (c : Int) : Bool :=
  match I.start with
  | none => true
  | some s => !s.above c

def Interval.atOrBeyondEnd (I : Interval) (c : Int) : Bool :=
  match I.stop with
  | none => false
  | some e => decide (e ≤ c)

/-- `start ≤ rel t < stop` -/
def Interval.contains (I : Interval) (t : Int) : Bool :=
  match I.rel t with
  | some c => I.startOk c && !I.atOrBeyondEnd c
  | none => false

/-- `m` carries a P1 time at or beyond the end. -/
def Interval.endSeen (I : Interval) (m : Msg) : Bool :=
  match m.p1? with
  | some t =>
    match I.rel t with
    | some c => I.atOrBeyondEnd c
    | none => false
  | none => false

/-- Verdict for `m`, given the earlier messages and their verdicts. -/
def Interval.verdict (I : Interval) (pre : List Msg) (acc : List Bool) (m : Msg) : Bool :=
  match m.p1? with
  | some t => I.contains t
  | none => !pre.any I.endSeen && (I.start.isNone || acc.any id)

def Interval.seqFrom (I : Interval) (pre : List Msg) (acc : List Bool) : List Msg → List Bool
  | [] => []
  | m :: ms => I.verdict pre acc m :: I.seqFrom (pre ++ [m]) (acc ++ [I.verdict pre acc m]) ms

/-- The verdicts for a whole sequence. -/
def Interval.seq (I : Interval) (msgs : List Msg) : List Bool := I.seqFrom [] [] msgs

/-! ## what the documentation says the times of a message are

Independent of the accessors: read off the members, as `messages/measurements.h` / `measurement_details.py`
describe them.  `MeasurementDetails.p1_time` is "the P1 time corresponding with the measurement time of
applicability, if available"; `measurement_time` is in the time base named by `measurement_time_source`, so it is
a P1 time only when that is `P1_TIME`, and a system time only when it is `TIMESTAMPED_ON_RECEPTION`. -/

/-- The P1 time of the message, if it has one. -/
def Obj.docP1 : Obj → Option Int
  | .raw => none
  | .plain (some (some t)) _ => some t
  | .plain _ _ => none
  | .meas d =>
    match d.p1Time with
    | some t => some t
    | none => if d.source = .p1Time then d.measurementTime else none

/-- The members do not contradict each other: when a measurement names P1 time as the base of `measurement_time`
and `details.p1_time` is filled in as well, the two are the same instant.  (Otherwise - two different P1 times, or
a `measurement_time` declared to be P1 time but invalid next to a valid `details.p1_time` - the documentation does
not say which of the two members is *the* P1 time of the message.) -/
def Obj.unambiguous : Obj → Bool
  | .meas d => if d.source = .p1Time then d.p1Time.isNone || d.p1Time = d.measurementTime else true
  | _ => true

/-- The system time of the message, if it has one: the `system_time_ns` member, or a measurement time that was
stamped on reception. -/
def Obj.docSys : Obj → SysTime
  | .raw => .none
  | .plain _ (some v) => .ns v
  | .plain _ none => .none
  | .meas d =>
    match d.measurementTime with
    | some t => if d.source = .timestampedOnReception then .ofTime t else .none
    | none => .none

/-- `None` and NaN both mean "no system time". -/
def SysTime.value : SysTime → SysTime
  | .nan => .none
  | x => x

/-- The message as the specification sees it: P1-timed with that time, or not P1-timed. -/
def Obj.docMsg (o : Obj) : Msg :=
  match o.docP1 with
  | some t => .p1 t
  | none => .noP1


/-- P1 times of a sequence, in order. -/
def p1Times (msgs : List Msg) : List Int := msgs.filterMap Msg.p1?

/-- "P1 times do not decrease." -/
def Monotone (msgs : List Msg) : Prop := (p1Times msgs).Pairwise (· ≤ ·)

/-- First P1 time of a sequence. -/
def firstP1 (msgs : List Msg) : Option Int := (p1Times msgs).head?

/-- `a` if present, else `b`. -/
def orElse (a b : Option Int) : Option Int :=
  match a with
  | some z => some z
  | none => b

/-- The interval a range object stands for on a message sequence. -/
def TimeRange.interval (r : TimeRange) (msgs : List Msg) : Interval :=
  ⟨r.start, r.stop, r.absolute, orElse r.t0 (firstP1 msgs)⟩

/-- An end bound as the end of an interval: an omitted or infinite end is open. -/
def endOf : Option Ext → Option Int
  | some (.fin v) => some v
  | _ => none

/-- A start bound as the start of an interval: an omitted start, and an absolute start of exactly 0, are open. -/
def startOf (s : Option Ext) (absolute : Bool) : Option Ext :=
  if s = some (.fin 0) ∧ absolute = true then none else s

/-- `_range_specified` says what it should. -/
def TimeRange.WF (r : TimeRange) : Prop := r.specified = (r.start.isSome || r.stop.isSome)

/-- A range object as the constructor or `restart()` leaves it: latches clear. -/
structure TimeRange.Fresh (r : TimeRange) : Prop where
  wf : r.WF
  started : r.started = false
  ended : r.ended = false

/-- Two ranges measure time in frames that agree on the message sequence: nothing to ask of two absolute
ranges; two relative ranges must have the same origin (supplied `t0`, else the first P1 time); when a relative
range without its own `t0` is combined with an absolute one, `intersect` converts it with the *other* range's
`t0`, which then has to be the origin it would have found itself (the first P1 time). -/
def Compatible (a b : TimeRange) (msgs : List Msg) : Prop :=
  match a.absolute, b.absolute with
  | true, true => True
  | false, false => orElse a.t0 (firstP1 msgs) = orElse b.t0 (firstP1 msgs)
  | true, false => b.t0 = none → a.t0 = firstP1 msgs
  | false, true => a.t0 = none → b.t0 = firstP1 msgs

end FeVerif.TR
