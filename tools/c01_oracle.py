"""C01 oracle: the property statement itself, run on the real classes.

For a *subject* (a registered payload class, MessageHeader, Timestamp, MeasurementDetails, SatelliteInfo, or a
ConfigType / InterfaceConfigType / FaultType sub-payload adapter) and a byte string b0:

    o1 = unpack(b0)  ->  b1 = pack(o1)  ->  o2 = unpack(b1)  ->  b2 = pack(o2)

required: o2 == o1 field-wise (canon(): NaN == NaN, arrays element-wise), b2 == b1,
consumed(b1) == len(b1) == calcsize(o1) == calcsize(o2), all of it independent of the offset in the buffer
and of library-allocated vs caller-supplied buffers.  A container whose polymorphic content is None (not
understood / absent) may refuse to pack with its explicit TypeError.

"Regardless of the offset / of the buffer" is taken over every call form the classes offer:
  * pack(): library-allocated (no buffer, buffer=None, with and without return_buffer, a stray offset), and
    caller-supplied bytearray / memoryview, positional and keyword arguments, return_buffer False / True / default,
    at offsets OFFSETS + PACK_EXTRA with guard bytes before and after: the bytes in [off, off+size) equal pack(),
    every guard byte is untouched, the return value is the size / the buffer;
  * unpack(): bytes / bytearray / memoryview, positional and keyword, message_version= where the class takes it:
    identical value and consumed count, input buffer unmodified;
  * MessageHeader.pack(payload=...) (header + payload in one call) in the same forms, for the parsed header with
    payloads of several lengths and for the serialisation of EVERY registered payload class; the result is read
    back with validate_sync / validate_crc and the payload class's unpack at off + 24.
The serialisation of a parsed object is never longer than what the parse consumed (the first parse may consume
more: normalisation; never less).

Object re-use.  "Any message object obtained by parsing bytes" includes an object that has been used before:
unpack() must make the receiver describe the bytes just parsed and nothing else.  For every subject, with B ranging
over the same encodings and A over those plus truncated and otherwise refused ones:
  * chains  : ONE receiver unpacks a long shuffled sequence of encodings (parsed, packed and sized after each step;
              refused unpacks stay in the sequence), after every step it must be indistinguishable from a fresh
              object that parsed only the last encoding: same consumed count, field values and value types, the same
              pack() bytes or the same refusal, the same calcsize();
  * pairs   : the encodings are grouped by shape (which members are None / empty / of which class, length classes of
              the variable parts, recognised or unknown enumeration values, parse refused with which exception,
              pack() refused or not) and, separately, by the values of their enumeration / boolean / small-integer
              fields; for ordered pairs of groups (all of them while the budget allows)
              `o = Class(); o.unpack(A); o.unpack(B)` against `Class().unpack(B)`, A also through the validating
              form of MessageHeader.unpack.
A difference is minimised to the shortest history that reproduces it on a new object and reported as
`stale-state:<what differs>` with that history as replay.

Everything here is deterministic in (seed, subject name); one subject = one work item for the pool.
"""
import enum
import math
import random
import struct
import zlib

import canon as _canon

OFFSETS = (0, 1, 3, 8)
PACK_EXTRA = (24, 57)      # further write offsets: the header size (a message that follows a header) and a large odd one


# ---------------------------------------------------------------------------------------------------------
# canonical comparison
def _strip_io(c):
    if isinstance(c, tuple):
        return tuple(_strip_io(x) for x in c if not (isinstance(x, tuple) and len(x) == 2 and x[0] == '_io'))
    if isinstance(c, list):
        return [_strip_io(x) for x in c if not (isinstance(x, tuple) and len(x) == 2 and x[0] == '_io')]
    return c


def cval(o):
    return _strip_io(_canon.canon(o))


def fields_of(c):
    """attribute -> canonical value for the canon() form of an object with attributes; else {'': c}."""
    if isinstance(c, tuple) and len(c) == 2 and isinstance(c[1], list) and all(
            isinstance(x, tuple) and len(x) == 2 and isinstance(x[0], str) for x in c[1]):
        return dict(c[1])
    return {'': c}


def diff_fields(c1, c2):
    f1, f2 = fields_of(c1), fields_of(c2)
    return sorted(k for k in set(f1) | set(f2) if f1.get(k, '<absent>') != f2.get(k, '<absent>'))


_LEAF = (bool, int, float, str, bytes, bytearray, memoryview)


def _tname(o):
    t = type(o)
    if t in (list, tuple, dict):
        return t.__name__
    return '/'.join(c.__name__ for c in t.__mro__[:3] if c not in (object, tuple, list, dict))


def tsig(o, coarse=False, depth=0):
    """The types of an object graph: canon() flattens named tuples to plain lists, so two different configuration
    classes with the same numbers in them compare equal there.  coarse=True is the *shape* of the value, used to group
    encodings: None or not, empty or not, class names, recognised enumeration member or bare number, list lengths as
    0 / 1 / 2 / more with the distinct element shapes."""
    if o is None:
        return 'None'
    if isinstance(o, enum.Enum):
        return 'enum'
    if isinstance(o, _LEAF):
        if coarse and isinstance(o, (str, bytes, bytearray, memoryview)):
            return 'text' if len(o) else 'empty'
        return ''
    if depth > 12:
        return '<deep>'
    if hasattr(o, 'dtype') and hasattr(o, 'shape'):
        return '' if not coarse else 'arr%s' % (tuple(o.shape),)
    if isinstance(o, dict):
        kids = [(str(k), tsig(v, coarse, depth + 1)) for k, v in sorted(o.items(), key=lambda kv: str(kv[0]))
                if not (isinstance(k, str) and k.startswith('_io'))]
        return (_tname(o), tuple(kids))
    if isinstance(o, (list, tuple)):
        kids = [tsig(x, coarse, depth + 1) for x in o]
        if coarse and type(o) in (list, tuple) or (coarse and len(kids) > 8):
            return (_tname(o), min(len(kids), 3), tuple(sorted(set(repr(k) for k in kids))))
        return (_tname(o), tuple(kids))
    d = getattr(o, '__dict__', None)
    if isinstance(d, dict):
        return (_tname(o), tuple((k, tsig(v, coarse, depth + 1)) for k, v in sorted(d.items()) if not k.startswith('__')))
    return _tname(o)


# ---------------------------------------------------------------------------------------------------------
# subjects
class Subject:
    """Uniform access to unpack / pack / pack-into / calcsize of one class."""
    greedy = False        # consumes the rest of the buffer: no suffix after b0
    into = True           # supports pack(buffer, offset, return_buffer=False)

    def __init__(self, name, cls):
        self.name = name
        self.cls = cls

    def new(self):
        return self.cls()

    def unpack(self, buf, off):
        o = self.new()
        n = o.unpack(buf, off)
        return o, n

    # ---- re-use: a receiver is the thing that carries state from one parse to the next
    def receiver(self):
        return self.new()

    def unpack_with(self, recv, buf, off):
        n = recv.unpack(buf, off)
        return recv, n

    def unpack_strict(self, recv, buf, off):
        """a validating form of unpack (may refuse after it has started to update the receiver); None: there is none"""
        return None

    def pack(self, o):
        return bytes(o.pack())

    def pack_into(self, o, buf, off):
        return o.pack(buf, off, return_buffer=False)

    def pack_into_ret(self, o, buf, off):
        return o.pack(buf, off, return_buffer=True)

    def calcsize(self, o):
        return o.calcsize()

    def refusal_ok(self, o, exc):
        return False


class TimestampSubject(Subject):
    def pack(self, o):
        return bytes(o.pack(return_buffer=True))


class HeaderSubject(Subject):
    def unpack_strict(self, recv, buf, off):
        return recv.unpack(buf, off, validate_sync=True, validate_crc=True, warn_on_unrecognized=False)


class ContainerSubject(Subject):
    member = 'config_object'

    def refusal_ok(self, o, exc):
        # explicit refusal: the polymorphic member was not understood (None) and the class says so
        return isinstance(exc, TypeError) and getattr(o, self.member, None) is None


class FaultSubject(ContainerSubject):
    member = 'payload'


class AdapterSubject(Subject):
    """A ConfigType / InterfaceConfigType / FaultType sub-payload: NamedTupleAdapter over a construct.Struct."""
    into = False

    def __init__(self, name, adapter):
        import construct
        self.name = name
        self.cls = adapter
        self.wrapped = construct.Struct('v' / adapter, 'n' / construct.Tell)

    def new(self):
        return None

    def unpack(self, buf, off):
        r = self.wrapped.parse(bytes(buf[off:]))
        return r.v, r.n

    def receiver(self):
        # the adapter itself is the only thing that lives from one parse to the next; there is no way to make a new
        # one, so for sub-payloads the re-use checks say "the same bytes give the same value whatever was parsed
        # before"; the containers (SetConfigMessage, ConfigResponseMessage, FaultControlMessage) re-use real objects
        return self.wrapped

    def unpack_with(self, recv, buf, off):
        r = recv.parse(bytes(buf[off:]))
        return r.v, r.n

    def pack(self, o):
        return bytes(self.cls.build(o))

    def calcsize(self, o):
        return self.cls.sizeof()


def all_subjects():
    from fusion_engine_client.messages import message_type_to_class, MessageHeader, Timestamp, MeasurementDetails
    from fusion_engine_client.messages import solution, configuration, fault_control
    subs = []
    for t, c in sorted(message_type_to_class.items(), key=lambda x: int(x[0])):
        n = c.__name__
        if n in ('SetConfigMessage', 'ConfigResponseMessage'):
            s = ContainerSubject(n, c)
        elif n == 'FaultControlMessage':
            s = FaultSubject(n, c)
        else:
            s = Subject(n, c)
        if n in ('InputDataWrapperMessage', 'STA5635IQData'):
            s.greedy = True
        subs.append(s)
    subs.append(HeaderSubject('MessageHeader', MessageHeader))
    subs.append(TimestampSubject('Timestamp', Timestamp))
    subs.append(Subject('MeasurementDetails', MeasurementDetails))
    subs.append(Subject('SatelliteInfo', solution.SatelliteInfo))
    for k, a in sorted(configuration._conf_gen.CONFIG_MAP.items(), key=lambda x: int(x[0])):
        subs.append(AdapterSubject('ConfigType.' + k.name, a))
    for k, a in sorted(configuration._conf_gen.INTERFACE_CONFIG_MAP.items(), key=lambda x: int(x[0])):
        subs.append(AdapterSubject('InterfaceConfigType.' + k.name, a))
    for k, a in sorted(fault_control._class_gen.TYPE_MAP.items(), key=lambda x: int(x[0])):
        subs.append(AdapterSubject('FaultType.' + k.name, a))
    return subs


def subject_by_name(name):
    for s in all_subjects():
        if s.name == name:
            return s
    raise KeyError(name)


# ---------------------------------------------------------------------------------------------------------
# valid encodings, written with struct (independent of the repository's encoder)
def ts_bytes(rng, kind=None):
    kind = kind or rng.choice('nzb1rmMGhbrG')
    if kind == 'n':
        return b'\xff' * 8
    if kind == 'z':
        return bytes(8)
    if kind == '1':            # 1 ns
        return struct.pack('<II', rng.choice([0, 1, 17, 4999, 1 << 22, 1400000000]), 1)
    if kind == 'b':            # boundaries of the ns field
        return struct.pack('<II', rng.choice([0, 3682, 1 << 22, (1 << 23) - 1, 1 << 23, 1 << 24, 1400000000, 0xFFFFFFFE]),
                           rng.choice([0, 1, 2, 499999999, 500000000, 500000001, 999999998, 999999999, 999999999,
                                       1000000000, 0xFFFFFFFE]))
    if kind == 'r':
        return struct.pack('<II', rng.randrange(5000), rng.randrange(10 ** 9))
    if kind == 'm':
        return struct.pack('<II', rng.randrange(1 << 21, 1 << 25), rng.randrange(10 ** 9))
    if kind == 'M':
        return struct.pack('<II', rng.randrange(1 << 25, 0xFFFFFFFF), rng.randrange(10 ** 9))
    if kind == 'G':            # GPS-era seconds
        return struct.pack('<II', rng.randrange(1300000000, 1500000000), rng.randrange(10 ** 9))
    return struct.pack('<II', rng.randrange(1 << 32), rng.randrange(1 << 32))   # 'h': anything, ns may exceed 1e9


def rbytes(rng, n):
    return bytes(rng.randrange(256) for _ in range(n))


def ascii_str(rng, n):
    return bytes(rng.choice(b'abcXYZ019 ._-/') for _ in range(n))


LENS = (0, 1, 2, 3, 5, 8, 17, 40)


def lens(rng, maxn, thorough):
    """variable-part lengths: every length 0..N (N small in quick) plus the maximum."""
    top = 24 if thorough else 9
    return [n for n in list(range(0, top)) + [maxn] if n <= maxn]


def sat_entry(rng):
    return struct.pack('<BBBBff', rng.choice([0, 1, 2, 3, 4, 5, 6, 7, 8]), rng.randrange(256), rng.randrange(4),
                       rng.choice([0, 1, 2, 160, 255, rng.randrange(256)]), rng.uniform(0, 360), rng.uniform(-90, 90))


def config_payloads():
    """(config type int, size) of every ConfigType payload, (subtype int, size) of every interface config."""
    from fusion_engine_client.messages import configuration as c
    cm = [(int(k), a.sizeof()) for k, a in c._conf_gen.CONFIG_MAP.items()]
    im = [(int(k), a.sizeof()) for k, a in c._conf_gen.INTERFACE_CONFIG_MAP.items()]
    return sorted(cm), sorted(im)


def fault_payloads():
    from fusion_engine_client.messages import fault_control as f
    return sorted((int(k), a.sizeof()) for k, a in f._class_gen.TYPE_MAP.items())


def iface_id(rng):
    return struct.pack('<BBxx', rng.choice([0, 1, 2, 4, 5, 7, 8, 254, 255, 9]), rng.randrange(4))


def config_blob(rng, size):
    """content bytes for a sub-payload of `size` bytes: small ints / bools / floats mixture."""
    k = rng.randrange(4)
    if k == 0:
        return bytes(size)
    if k == 1:
        return bytes(rng.choice([0, 1, 2]) for _ in range(size))
    if k == 2 and size % 4 == 0:
        return b''.join(struct.pack('<f', rng.uniform(-3, 3)) for _ in range(size // 4))
    return rbytes(rng, size)


def var_encodings(name, rng, thorough):
    """Valid encodings with variable parts of every length, for the classes that have them. [] otherwise."""
    out = []
    if name == 'GNSSSatelliteMessage':
        for n in lens(rng, 40 if not thorough else 255, thorough):
            out.append(ts_bytes(rng) + ts_bytes(rng) + struct.pack('<H2x', n) + b''.join(sat_entry(rng) for _ in range(n)))
    elif name == 'VersionInfoMessage':
        for n in lens(rng, 255, thorough):
            ls = [n, rng.choice(LENS), rng.choice(LENS), rng.choice(LENS)]
            rng.shuffle(ls)
            ss = [ascii_str(rng, l) for l in ls]
            out.append(struct.pack('<QBBBB4x', rng.getrandbits(64), *ls) + b''.join(ss))
        # NUL padded, and non-ASCII UTF-8 content
        out.append(struct.pack('<QBBBB4x', 5, 5, 0, 2, 0) + b'abc\0\0' + b'\0\0')
        s = 'vé1.2€'.encode('utf8')
        out.append(struct.pack('<QBBBB4x', 5, len(s), 0, 0, 3) + s + b'xyz')
        # multi-byte UTF-8 in each of the four strings separately (fw, engine, os, rx), and in all of them
        for pos in range(4):
            for txt in ('rx-µ4', '€', 'ß' * 7):
                ls = [2, 0, 3, 1]
                parts = [b'ab'[:ls[0]], b'', b'xyz', b'q']
                parts[pos] = txt.encode('utf8')
                ls[pos] = len(parts[pos])
                out.append(struct.pack('<QBBBB4x', 9, *ls) + b''.join(parts))
        parts = [t.encode('utf8') for t in ('fö', 'éng', 'ø', 'rµ')]
        out.append(struct.pack('<QBBBB4x', 9, *[len(x) for x in parts]) + b''.join(parts))
    elif name == 'DeviceIDMessage':
        for n in lens(rng, 255, thorough):
            ls = [n, rng.choice(LENS), rng.choice(LENS)]
            rng.shuffle(ls)
            out.append(struct.pack('<QBBBB4x', rng.getrandbits(64), rng.choice([0, 1, 2, 3, 4, 5, 6, 7, 99]), *ls) +
                       b''.join(rbytes(rng, l) for l in ls))
    elif name == 'EventNotificationMessage':
        for n in lens(rng, 300 if not thorough else 65535, thorough):
            et = rng.choice([0, 1, 2, 3, 4, 77])
            d = rbytes(rng, n)
            if n >= 2 and rng.random() < 0.3:
                d = b'/2' + d[2:]
            out.append(struct.pack('<B3xQQH2x', et, rng.getrandbits(64), rng.getrandbits(64), n) + d)
    elif name == 'FaultControlMessage':
        for t, size in fault_payloads() + [(200, 0)]:
            for extra in (0, 1, 3):
                out.append(struct.pack('<B15xI', t, size + extra) + config_blob(rng, size) + rbytes(rng, extra))
            if size:
                out.append(struct.pack('<B15xI', t, size - 1) + config_blob(rng, size - 1))
    elif name in ('SetConfigMessage', 'ConfigResponseMessage'):
        cm, im = config_payloads()

        def wrap(t, data):
            if name == 'SetConfigMessage':
                return struct.pack('<HBxI', t, rng.choice([0, 0, 1, 2, 3, 0x80]), len(data)) + data
            return struct.pack('<BBHB3xI', rng.choice([0, 1, 2, 9]), rng.choice([0, 1]), t,
                               rng.choice([0, 0, 0, 3, 9, 200]), len(data)) + data
        for t, size in cm + [(9999, 4)]:
            for extra in (0, 2):
                out.append(wrap(t, config_blob(rng, size) + rbytes(rng, extra)))
            out.append(wrap(t, b''))
            if size > 1:
                out.append(wrap(t, config_blob(rng, size - 1)))
        for st, size in im + [(99, 4)]:
            hdr = iface_id(rng) + struct.pack('<B3x', st)
            for extra in (0, 2):
                out.append(wrap(200, hdr + config_blob(rng, size) + rbytes(rng, extra)))
            out.append(wrap(200, hdr))
            out.append(wrap(200, hdr[:5]))
    elif name == 'GetConfigMessage':
        cm, im = config_payloads()
        for t, _ in cm + [(9999, 0)]:
            out.append(struct.pack('<HBx', t, rng.choice([0, 1, 2, 7])))
        for st, _ in im + [(99, 0)]:
            out.append(struct.pack('<HBx', 200, rng.choice([0, 1, 2])) + iface_id(rng) + struct.pack('<B3x', st))
    elif name == 'SupportedIOInterfacesMessage':
        for n in lens(rng, 255, thorough):
            out.append(struct.pack('<B7x', n) + b''.join(iface_id(rng) for _ in range(n)))
    elif name == 'MessageRateResponse':
        for n in lens(rng, 300 if not thorough else 4000, thorough):
            ent = b''.join(struct.pack('<BBHBB2x', rng.choice([0, 1, 2, 3, 255, 9]), rng.randrange(4), rng.choice([0, 1, 10000, 65535]),
                                       rng.choice([0, 1, 5, 14, 255, 99]), rng.choice([0, 1, 9, 255])) for _ in range(n))
            out.append(struct.pack('<BBH', rng.choice([0, 1, 2]), rng.choice([0, 3, 10]), n) + iface_id(rng) + ent)
    elif name == 'ImportDataMessage':
        for n in lens(rng, 500, thorough):
            out.append(struct.pack('<BB2x', rng.choice([0, 1, 2, 3, 255, 9]), rng.choice([0, 1, 2])) +
                       struct.pack('<xBH', rng.randrange(256), rng.randrange(65536)) + struct.pack('<4xI', n) + rbytes(rng, n))
    elif name == 'PlatformStorageDataMessage':
        for n in lens(rng, 500, thorough):
            out.append(struct.pack('<BBBB', rng.choice([0, 1, 2, 3, 255]), rng.choice([0, 7, 8]), rng.choice([0, 1, 2]), rng.choice([0, 1, 2, 3, 254])) +
                       struct.pack('<xBH', rng.randrange(256), rng.randrange(65536)) + struct.pack('<I', n) + rbytes(rng, n))
    elif name == 'InputDataWrapperMessage':
        for n in lens(rng, 300, thorough):
            out.append(rbytes(rng, 5) + b'\0' + struct.pack('<H', rng.choice([0, 1, 2, 65535])) + rbytes(rng, n))
        out.append(b'\xff' * 5 + b'\0' + struct.pack('<H', 1) + b'xy')
    elif name == 'STA5635IQData':
        for n in lens(rng, 300, thorough):
            out.append(bytes(4) + rbytes(rng, n))
    elif name == 'LBandFrameMessage':
        for n in lens(rng, 504, thorough):
            out.append(struct.pack('<qHHB3xf', rng.getrandbits(63), n, rng.randrange(65536), rng.randrange(256), rng.uniform(-5e3, 5e3)) + rbytes(rng, n))
    return out


def fixed_len(name):
    """length of the fixed part (the bytes that are mutated one at a time)."""
    return {'GNSSSatelliteMessage': 20, 'VersionInfoMessage': 16, 'DeviceIDMessage': 16, 'EventNotificationMessage': 24,
            'FaultControlMessage': 20, 'SetConfigMessage': 8, 'ConfigResponseMessage': 12, 'GetConfigMessage': 4,
            'SupportedIOInterfacesMessage': 8, 'MessageRateResponse': 8, 'ImportDataMessage': 16,
            'PlatformStorageDataMessage': 12, 'InputDataWrapperMessage': 8, 'STA5635IQData': 4, 'LBandFrameMessage': 20}.get(name)


def default_encoding(subj):
    """bytes of the default-constructed object through the real encoder, or None if it cannot be packed."""
    try:
        o = subj.new()
        if o is None:
            return None
        return subj.pack(o)
    except Exception:
        return None


def static_size(subj):
    """size of a fixed-size subject, from calcsize of a default object or the adapter's sizeof."""
    try:
        return int(subj.calcsize(subj.new()))
    except Exception:
        return None


TS_FIELDS = {  # byte offsets of Timestamp fields inside the fixed part (so that generated times are meaningful)
}


def base_encodings(subj, rng, thorough):
    """Valid encodings to start from."""
    name = subj.name
    out = var_encodings(name, rng, thorough)
    if out:
        return out
    size = static_size(subj)
    d = default_encoding(subj)
    if size is None and d is not None:
        size = len(d)
    if size is None:
        return []
    bases = [bytes(size)]
    if d is not None and len(d) == size:
        bases.append(d)
    # typed bases: plausible small enums, finite floats, timestamps
    for _ in range(6 if thorough else 3):
        b = bytearray(rng.choice(bases))
        # timestamps: most classes start with one or two
        k = 0
        while k + 8 <= size and k < 16 and rng.random() < 0.8:
            b[k:k + 8] = ts_bytes(rng)
            k += 8
        # a MeasurementDetails header: ts, source bytes, pad, ts
        if size >= 20 and rng.random() < 0.5:
            b[8] = rng.randrange(5)
            b[9] = rng.randrange(6)
            b[12:20] = ts_bytes(rng)
        # sprinkle finite float32 / float64 values on aligned positions in the tail
        for pos in range(16, size - 7, 8):
            r = rng.random()
            if r < 0.3:
                b[pos:pos + 8] = struct.pack('<d', rng.uniform(-1e3, 1e3))
            elif r < 0.5:
                b[pos:pos + 4] = struct.pack('<f', rng.uniform(-1e3, 1e3))
        bases.append(bytes(b))
    return bases


MUT_VALUES = (0x00, 0x01, 0x02, 0x7f, 0x80, 0xfe, 0xff)

# one byte seen as a set of flag bits / a packed bit field: every combination of the four low bits, every single bit,
# combinations of the top bit with the two low bits, the complements of the low-bit combinations
BITS8 = tuple(sorted(set(range(16)) | {0x10, 0x20, 0x40, 0x7f, 0x80, 0x81, 0x82, 0x83, 0xc0, 0xf0, 0xfc, 0xfd, 0xfe, 0xff}))
LOW2 = (0, 1, 2, 3)


def field_values(w, thorough):
    """raw values tried for an integer field of w bytes: all of them for one byte (BITS8 in the quick tier); for wider
    fields every combination of the three low bits, every single bit alone and together with each combination of the
    two low bits, all-ones below every bit, and the unsigned / signed extremes."""
    if w == 1:
        return tuple(range(256)) if thorough else BITS8
    top = 1 << (8 * w)
    vals = set(range(8))
    for k in range(8 * w):
        for low in LOW2:
            vals.add((1 << k) | low)
        vals.add((1 << k) - 1)
    vals |= {top - 1, top - 2, top - 3, top - 4, top >> 1, (top >> 1) - 1, (top >> 1) + 1}
    return tuple(sorted(v for v in vals if 0 <= v < top))


def field_sweeps(bases, fl, ifields, rng, thorough):
    """(cross, sweeps).  ifields = [(byte offset, width, codec kind)] of the integer fields at static offsets (from the
    layout descriptor; None: unknown, every byte is treated as a one-byte field on the first base).
    cross : EVERY base (every shape of the variable part, every sub-payload type) x every plain unsigned field (flags,
            masks, counters) x all combinations of its two low bits + two further values - flag bits interact with the
            shape of the rest of the message (a flag that says "no data follows" with / without data);
    sweeps: the first bases x every integer field x field_values()."""
    cross, sweeps = [], []
    if not bases:
        return cross, sweeps
    if ifields is None:
        ifields_first = [(i, 1, 'uint') for i in range(fl)]
        ifields = []
    else:
        ifields_first = ifields
    seen = set(bases)

    def put(lst, b, off, w, v):
        if off + w > min(fl, len(b)):
            return
        m = bytearray(b)
        m[off:off + w] = v.to_bytes(w, 'little')
        m = bytes(m)
        if m not in seen:
            seen.add(m)
            lst.append(m)
    for b in bases:
        for off, w, kind in ifields:
            if kind != 'uint':
                continue
            vals = field_values(w, False)
            for v in LOW2 + (rng.choice(vals), rng.choice(vals)):
                put(cross, b, off, w, v)
    for bi, b in enumerate(bases[:(4 if thorough else 2)]):
        for off, w, kind in ifields_first:
            for v in field_values(w, thorough and bi == 0):
                put(sweeps, b, off, w, v)
    return cross, sweeps


# ---------------------------------------------------------------------------------------------------------
# structured-looking contents of variable-length / bytes / text members, in combination with raw enumeration values
def framed(mtype, payload, sync=b'.1'):
    """a complete framed message (24-byte header with a valid CRC + payload), written with struct"""
    rest = struct.pack('<BBHIII', 2, 0, mtype, 7, len(payload), 0xFFFFFFFF) + payload
    return sync + b'\0\0' + struct.pack('<I', zlib.crc32(rest) & 0xFFFFFFFF) + rest


def content_pool(b, fl):
    """contents that look like something to a parser or to glue code around it: the framing sync bytes '.1', the
    offset form '/2' the device logs them as, near misses of both, complete framed messages in both forms, NULs at the
    start / inside / at the end, text that is not UTF-8 or is cut inside a multi-byte character, valid multi-byte
    text, the preambles of other protocols, and the class's own encoding (its first two bytes, its fixed part, all of
    it) nested in itself."""
    msg = framed(13, struct.pack('<H2x', 10000))
    pool = [b'.1', b'/2', b'.1\0\0', b'/2\0\0', b'.1abc', b'/2abc', b'.', b'/', b'1.', b'.2', b'/1', b'-0', b'03', b'..11', b'x.1', b'x/2',
            msg, b'/2' + msg[2:], msg[:24], b'/2' + msg[2:24],
            b'\0', b'\0\0\0', b'a\0b', b'ab\0', b'\0ab', b'ab\0\0cd\0',
            b'\xff', b'\xff\xfe', b'\xc3', b'\xe2\x82', b'\x80abc', b'ab\xc3', b'\xc3\xa9', '\u20ac1'.encode('utf8'), b'\xed\xa0\x80', b'\xf8\x88',
            b'\xd3\x00\x13', b'$GPGGA,', b'\r\n', b'\xb5b', b'[', b'%s%n', b'\x7f', b' ', b'\t.1']
    own = [bytes(b[:2]), bytes(b[:fl]), bytes(b)]
    seen, out = set(), []
    for c in pool + [x for x in own if x]:
        if c not in seen:
            seen.add(c)
            out.append(c)
    return out


def enum_raw_values(members, w, rng, thorough):
    """raw values for an enumeration-typed field: defined ones (all of a small enumeration, otherwise the extremes and a
    sample) and unrecognized ones below the smallest, between defined ones (both edges of every gap, capped), directly
    above the largest, and at the top of the integer's range."""
    top = 1 << (8 * w)
    ms = sorted(set(int(m) for m in members if 0 <= int(m) < top))
    vals = []
    if len(ms) <= (16 if thorough else 8):
        vals += ms
    elif ms:
        vals += [ms[0], ms[-1]] + rng.sample(ms[1:-1], min(len(ms) - 2, 6 if thorough else 3))
    unk = []
    if ms:
        if ms[0] > 0:
            unk += [ms[0] - 1, 0]
        gaps = []
        for a, c in zip(ms, ms[1:]):
            if c - a > 1:
                gaps += [a + 1, c - 1]
        if len(gaps) > (12 if thorough else 4):
            gaps = gaps[:2] + rng.sample(gaps[2:], (10 if thorough else 2))
        unk += gaps
        unk += [ms[-1] + 1, ms[-1] + 2]
    unk += [(top >> 1) - 1, top >> 1, top - 2, top - 1]
    ms_set = set(ms)
    for v in unk:
        if 0 <= v < top and v not in ms_set and v not in vals:
            vals.append(v)
    return vals


def var_segments(name, b, fl):
    """(start, length) of the variable-length members of encoding b of a class with a variable part."""
    if fl is None or len(b) < fl:
        return []
    if name == 'VersionInfoMessage':
        ls, pos, out = list(b[8:12]), fl, []
        for n in ls:
            out.append((pos, n))
            pos += n
        return [s for s in out if s[0] + s[1] <= len(b)]
    if name == 'DeviceIDMessage':
        ls, pos, out = list(b[9:12]), fl, []
        for n in ls:
            out.append((pos, n))
            pos += n
        return [s for s in out if s[0] + s[1] <= len(b)]
    if name in ('SetConfigMessage', 'ConfigResponseMessage'):      # plain sub-payload / interface sub-payload after its 8-byte header
        return [(fl, len(b) - fl)] + ([(fl + 8, len(b) - fl - 8)] if len(b) > fl + 8 else [])
    if name in ('GNSSSatelliteMessage', 'SupportedIOInterfacesMessage', 'MessageRateResponse', 'GetConfigMessage'):
        return []                                                   # arrays of records, no free-form member
    return [(fl, len(b) - fl)]


def structured(subj, bases, flen, hints, rng, thorough):
    """Encodings whose bytes / text members hold content_pool() values, alone and combined with enum_raw_values() of
    every enumeration-typed field of the fixed part (one field at a time with every value, and all fields at once).
    hints = {'enums': [(offset, width, kind, members)], 'segments': [(offset, length)]} from the layout descriptor
    (segments: fixed-length bytes / text members at static offsets); variable-length members come from var_segments()."""
    hints = hints or {}
    name = subj.name
    enums = list(hints.get('enums') or [])
    # (segment length, base, start) of every member that can hold content
    slots = {}
    for b in bases:
        segs = var_segments(name, b, flen) if flen is not None else []
        segs = segs + [s for s in (hints.get('segments') or []) if s[0] + s[1] <= len(b) and (flen is None or s[0] + s[1] <= flen)]
        for j, (s, n) in enumerate(segs):
            slots.setdefault(j, []).append((n, b, s))
    spliced, seen = [], set(bases)

    def add(lst, m):
        m = bytes(m)
        if m not in seen:
            seen.add(m)
            lst.append(m)
    for j in sorted(slots):
        cands = sorted(slots[j], key=lambda x: x[0])
        for c in content_pool(cands[-1][1], flen if flen is not None else min(len(cands[-1][1]), 24)):
            fit = [x for x in cands if x[0] >= len(c)]
            if not fit:
                continue
            picks = [fit[0], fit[-1]] if fit[-1][0] != fit[0][0] else [fit[0]]
            if thorough and len(fit) > 2:
                picks.append(rng.choice(fit[1:-1]))
            for n, b, s in picks:
                add(spliced, b[:s] + c + b[s + len(c):])                       # at the start of the member
                if n > len(c):
                    add(spliced, b[:s + n - len(c)] + c + b[s + n:])             # at its end
    if not spliced:          # no bytes / text member: the enumeration fields alone are field_sweeps()' matter
        return []
    crossed = []
    if enums:
        vals = [enum_raw_values(ms, w, rng, thorough) for (_, w, _, ms) in enums]
        for m in spliced:
            for (off, w, _, _), vs in zip(enums, vals):
                if off + w > len(m):
                    continue
                for v in vs:
                    add(crossed, m[:off] + v.to_bytes(w, 'little') + m[off + w:])
            if len(enums) > 1:
                for _ in range(2):
                    x = bytearray(m)
                    for (off, w, _, _), vs in zip(enums, vals):
                        if off + w <= len(x):
                            x[off:off + w] = rng.choice(vs).to_bytes(w, 'little')
                    add(crossed, x)
    cap = 4000 if thorough else 700
    if len(crossed) > cap:
        rng.shuffle(crossed)
        crossed = crossed[:cap]
    return spliced + crossed


def encodings(subj, rng, thorough, budget, ifields=None, hints=None):
    """b0 candidates for a subject: valid encodings, each byte of the fixed part set to boundary values one at a
    time, random multi-byte mutations, wholly random fixed parts; integer fields as bit sets (field_sweeps)."""
    bases = base_encodings(subj, rng, thorough)
    out = list(bases)
    if not bases:
        return out
    flen = fixed_len(subj.name)
    frng = random.Random(rng.random())        # own stream: the byte-wise candidates below do not depend on ifields
    cross, sweeps = field_sweeps(bases, len(bases[0]) if flen is None else flen, ifields, frng, thorough)
    cap = 6000 if thorough else 1500
    if len(cross) > cap:                       # every (base, field) keeps its low-bit combinations as long as possible
        frng.shuffle(cross)
        cross = cross[:cap]
    if len(sweeps) > cap:
        frng.shuffle(sweeps)
        sweeps = sweeps[:cap]
    out = out + cross
    muts = []
    for bi, b in enumerate(bases):
        fl = len(b) if flen is None else min(flen, len(b))
        if bi < (4 if thorough else 2):
            for i in range(fl):
                for v in (MUT_VALUES if thorough else (rng.choice(MUT_VALUES), rng.randrange(256))):
                    if b[i] != v:
                        m = bytearray(b)
                        m[i] = v
                        muts.append(bytes(m))
        for _ in range(6 if thorough else 2):
            m = bytearray(b)
            for _ in range(rng.choice([2, 3, 8])):
                if fl:
                    m[rng.randrange(fl)] = rng.randrange(256)
            muts.append(bytes(m))
    b = bases[0]
    fl = len(b) if flen is None else min(flen, len(b))
    for _ in range(10 if thorough else 3):
        muts.append(rbytes(rng, fl) + b[fl:])
    # sentinel patterns over the whole fixed part
    for v in (0xff, 0x7f, 0x80):
        muts.append(bytes([v]) * fl + b[fl:])
    if len(muts) > budget:
        keep = muts[:len(muts) // 3]          # keep the per-byte sweep of the first base, sample the rest
        rest = muts[len(keep):]
        rng.shuffle(rest)
        muts = keep[:budget * 2 // 3] + rest[:budget - min(len(keep), budget * 2 // 3)]
    # bytes / text members with structured-looking contents x raw enumeration values (own random stream, appended last)
    extra = structured(subj, bases, flen, hints, random.Random(frng.random()), thorough)
    return out + muts + sweeps + extra


# ---------------------------------------------------------------------------------------------------------
# attribution of a violation to the Timestamp sub-object (so that one Timestamp finding is one signature,
# not one per class that contains a Timestamp)
def timestamps(o, depth=0):
    from fusion_engine_client.messages import Timestamp, MeasurementDetails
    res = []
    if isinstance(o, Timestamp):
        return [('', o)]
    d = getattr(o, '__dict__', None)
    if not isinstance(d, dict) or depth > 2:
        return res
    for k, v in d.items():
        if isinstance(v, Timestamp):
            res.append((k, v))
        elif isinstance(v, MeasurementDetails):
            res += [(k, t) for _, t in timestamps(v, depth + 1)]
    return res


def ts_class(sec):
    """distinguishing feature of a Timestamp value: '' = sec + ns*1e-9 with ns < 1e9 and sec < 2^32-1."""
    if sec != sec:
        return ''
    if sec >= 4294967295.0:
        return 'seconds>=2^32-1'
    ip = int(sec)
    ns = int(round((sec - ip) * 1e9))
    if ns >= 1000000000 or ip + ns * 1e-9 != sec:
        return 'ns-field>=1e9'
    return ''


def attribute_ts(name, o1, kind, fields, o2=None):
    """(subject name, detail) to report for a value-drift / cannot-pack that is explained by a Timestamp."""
    tss = timestamps(o1)
    if not tss:
        return None
    if kind == 'value-drift':
        if tss[0][0] != '' and (not fields or not set(fields) <= set(k for k, _ in tss)):
            return None
        t2 = timestamps(o2) if o2 is not None else []
        for i, (k, t) in enumerate(tss):
            if k in fields or k == '':
                if i < len(t2) and canon_f(t2[i][1].seconds) == canon_f(t.seconds):
                    continue
                c = ts_class(t.seconds)
                return 'Timestamp', 'seconds' + (':' + c if c else '')
        return None
    if kind == 'cannot-pack':
        bad = [t for _, t in tss if t.seconds == t.seconds and t.seconds >= 4294967295.5]
        if bad:
            return 'Timestamp', 'seconds>=2^32-1'
    return None


def canon_f(x):
    return 'nan' if x != x else struct.pack('<d', x)


# ---------------------------------------------------------------------------------------------------------
# the oracle
def exc_name(e):
    return '%s: %s' % (type(e).__name__, str(e).replace('\n', ' ')[:120])


# ---- call forms -----------------------------------------------------------------------------------------
def _view(kind, ba):
    return ba if kind == 'bytearray' else memoryview(ba)


#  label, buffer kind, call(o, dst, off), what the call must return
PACK_FORMS = (
    ('pack(buffer, %d, return_buffer=False)', 'bytearray', lambda o, b, off: o.pack(b, off, return_buffer=False), 'size'),
    ('pack(buffer, %d, return_buffer=True)', 'bytearray', lambda o, b, off: o.pack(b, off, return_buffer=True), 'buffer'),
    ('pack(buffer, %d)', 'bytearray', lambda o, b, off: o.pack(b, off), 'either'),
    ('pack(buffer=buffer, offset=%d, return_buffer=False)', 'bytearray',
     lambda o, b, off: o.pack(buffer=b, offset=off, return_buffer=False), 'size'),
    ('pack(return_buffer=True, offset=%d, buffer=buffer)', 'bytearray',
     lambda o, b, off: o.pack(return_buffer=True, offset=off, buffer=b), 'buffer'),
    ('pack(memoryview, %d, return_buffer=False)', 'memoryview', lambda o, b, off: o.pack(b, off, return_buffer=False), 'size'),
    ('pack(memoryview, %d, return_buffer=True)', 'memoryview', lambda o, b, off: o.pack(b, off, return_buffer=True), 'buffer'),
)

#  library-allocated buffer: label, call(o), what the call must return
ALLOC_FORMS = (
    ('pack(return_buffer=True)', lambda o: o.pack(return_buffer=True), 'buffer'),
    ('pack(None, 0, return_buffer=True)', lambda o: o.pack(None, 0, return_buffer=True), 'buffer'),
    ('pack(buffer=None, return_buffer=True)', lambda o: o.pack(buffer=None, return_buffer=True), 'buffer'),
    ('pack(None, 5, return_buffer=True)', lambda o: o.pack(None, 5, return_buffer=True), 'buffer'),   # offset is ignored without a buffer
    ('pack(return_buffer=False)', lambda o: o.pack(return_buffer=False), 'size'),
    ('pack()', lambda o: o.pack(), 'either'),
)


def _check_return(r, want, size, whole):
    """None if the return value `r` of a pack call is what the call form promises, else (what was promised, text)."""
    if want == 'either':
        want = 'size' if isinstance(r, int) and not isinstance(r, bool) else 'buffer'
    if want == 'size':
        if not (isinstance(r, int) and not isinstance(r, bool) and r == size):
            return 'size', 'returned %s, serialisation has %d bytes' % (r if isinstance(r, int) else type(r).__name__, size)
        return None
    try:
        rb = bytes(r)
    except Exception:
        return 'buffer', 'returned %s, not a buffer' % type(r).__name__
    if isinstance(r, int) or rb != whole:
        return 'buffer', 'returned %s that differs from the expected content' % ('a buffer' if not isinstance(r, int) else repr(r))
    return None


def pack_call_forms(subj, o1, b1, offsets, rng, V):
    """every way of asking for the serialisation of o1 must give b1 (first problem only)"""
    for label, call, want in ALLOC_FORMS:
        try:
            r = call(o1)
        except Exception as e:
            V('offset-dependent', 'pack', '%s raised %s, the reference serialisation did not' % (label, exc_name(e)))
            return
        bad = _check_return(r, want, len(b1), b1)
        if bad:
            if bad[0] == 'size':
                V('size-mismatch', 'pack-return', '%s %s' % (label, bad[1]))
            else:
                V('offset-dependent', 'pack', '%s (library-allocated buffer) %s' % (label, bad[1]))
            return
    offs = list(offsets) + [x for x in PACK_EXTRA if x not in offsets] + [len(b1) + 2]
    for off in offs:
        pre = rbytes(rng, off)
        post = rbytes(rng, rng.choice([0, 7, 33]))
        whole = pre + b1 + post
        for label, kind, call, want in PACK_FORMS:
            label = label % off
            ba = bytearray(pre + bytes([0xA5]) * len(b1) + post)
            try:
                r = call(o1, _view(kind, ba), off)
            except Exception as e:
                V('offset-dependent', 'pack', '%s raised %s, pack() did not' % (label, exc_name(e)))
                return
            if bytes(ba) != whole:
                out = bytes(ba[:off]) != pre or bytes(ba[off + len(b1):]) != post
                V('offset-dependent', 'pack', '%s into a caller buffer (%d guard bytes before, %d after) differs from pack() (%s)' % (
                    label, off, len(post), 'bytes outside [off, off+size) changed' if out else 'inside [off, off+size)'))
                return
            bad = _check_return(r, want, len(b1), whole)
            if bad:
                if bad[0] == 'size':
                    V('size-mismatch', 'pack-return', '%s %s' % (label, bad[1]))
                else:
                    V('offset-dependent', 'pack', '%s %s' % (label, bad[1]))
                return


def unpack_forms(subj):
    """(label, kind, call(o, src, off)) - the reference form is unpack(bytes, off)"""
    import inspect
    forms = [
        ('unpack(bytearray, %d)', 'bytearray', lambda o, b, off: o.unpack(b, off)),
        ('unpack(memoryview, %d)', 'memoryview', lambda o, b, off: o.unpack(b, off)),
        ('unpack(buffer=bytes, offset=%d)', 'bytes', lambda o, b, off: o.unpack(buffer=b, offset=off)),
    ]
    try:
        params = inspect.signature(subj.cls.unpack).parameters
    except (TypeError, ValueError):
        params = {}
    ver = getattr(subj.cls, 'MESSAGE_VERSION', None)
    if 'message_version' in params and isinstance(ver, int):
        forms.append(('unpack(bytes, %%d, message_version=%d)' % ver, 'bytes', lambda o, b, off: o.unpack(b, off, message_version=ver)))
    return forms


def unpack_call_forms(subj, buf, off, ref, V):
    """ref = ('ok', n, cval) | ('err', exception name, None) of unpack(bytes, off); the other forms must agree"""
    for label, kind, call in subj._uforms:
        label = label % off
        ba = bytearray(buf)
        src = bytes(buf) if kind == 'bytes' else _view(kind, ba)
        o = subj.new()
        try:
            n = call(o, src, off)
            got = ('ok', int(n), cval(o))
        except Exception as e:
            got = ('err', type(e).__name__, None)
        if got[0] != ref[0] or (got[0] == 'ok' and (got[1] != ref[1] or got[2] != ref[2])):
            df = ','.join(diff_fields(ref[2], got[2])) if got[0] == 'ok' and ref[0] == 'ok' else ''
            V('offset-dependent', 'unpack', '%s gives %s, unpack(bytes, %d) gives %s %s' % (label, got[:2], off, ref[:2], df))
            return False
        if bytes(ba) != bytes(buf):
            V('offset-dependent', 'unpack', '%s modified the buffer it was reading' % label)
            return False
    return True


HDR_FORMS = (
    ('pack(buffer, %d, payload=p, return_buffer=False)', 'bytearray', lambda h, b, off, p: h.pack(b, off, payload=p, return_buffer=False), 'size'),
    ('pack(buffer, %d, payload=p)', 'bytearray', lambda h, b, off, p: h.pack(b, off, payload=p), 'buffer'),
    ('pack(buffer, %d, p, True)', 'bytearray', lambda h, b, off, p: h.pack(b, off, p, True), 'buffer'),
    ('pack(payload=p, return_buffer=False, offset=%d, buffer=buffer)', 'bytearray',
     lambda h, b, off, p: h.pack(payload=p, return_buffer=False, offset=off, buffer=b), 'size'),
    ('pack(memoryview, %d, payload=p, return_buffer=True)', 'memoryview', lambda h, b, off, p: h.pack(b, off, payload=p, return_buffer=True), 'buffer'),
    ('pack(memoryview, %d, payload=memoryview(p), return_buffer=False)', 'memoryview',
     lambda h, b, off, p: h.pack(b, off, payload=memoryview(p), return_buffer=False), 'size'),
)


def header_payload_forms(mk_header, payload, offsets, rng, V, reader=None, what=''):
    """MessageHeader.pack(payload=...): header + payload in one call.  Library-allocated vs caller-supplied buffer at
    offsets with guard bytes, read back with sync / CRC validation (and through `reader`, the payload class's unpack).
    Problems are attributed to MessageHeader (4th element)."""
    from fusion_engine_client.messages import MessageHeader
    HS = 24

    def VH(kind, detail, desc):
        V(kind, detail, desc + what, 'MessageHeader')

    payload = bytes(payload)
    size = HS + len(payload)
    h = mk_header()
    try:
        m = bytes(h.pack(payload=payload))
    except Exception as e:
        VH('cannot-pack', 'payload', 'MessageHeader.pack(payload=<%d bytes>) raised %s' % (len(payload), exc_name(e)))
        return
    if len(m) != size or m[HS:] != payload or m[:2] != b'.1':
        VH('bytes-differ', 'payload', 'MessageHeader.pack(payload=<%d bytes>) gave %d bytes / not sync + header + payload' % (len(payload), len(m)))
        return
    if h.payload_size_bytes != len(payload) or h.get_message_size() != size:
        VH('size-mismatch', 'message-size', 'after pack(payload=<%d bytes>): payload_size_bytes %r, get_message_size() %r, serialisation %d bytes'
           % (len(payload), h.payload_size_bytes, h.get_message_size(), size))
        return
    try:
        r = mk_header().pack(payload=payload, return_buffer=False)
        if r != size:
            VH('size-mismatch', 'pack-return-payload', 'MessageHeader.pack(payload=<%d bytes>, return_buffer=False) returned %r, '
               'serialisation has %d bytes' % (len(payload), r, size))
            return
        h1 = bytes(h.pack())
        if h1 != m[:HS]:
            VH('bytes-differ', 'payload', 'pack() after pack(payload=...) does not reproduce the header bytes of the message')
            return
    except Exception as e:
        VH('cannot-pack', 'payload', 'MessageHeader.pack(...) raised %s' % exc_name(e))
        return
    ch = cval(h)
    offs = list(offsets) + [x for x in PACK_EXTRA if x not in offsets] + [size + 2]
    for off in offs:
        pre = rbytes(rng, off)
        post = rbytes(rng, rng.choice([0, 7, 33]))
        whole = pre + m + post
        for label, kind, call, want in HDR_FORMS:
            label = 'MessageHeader.' + (label % off) + ' with a %d-byte payload' % len(payload)
            ba = bytearray(pre + bytes([0xA5]) * size + post)
            h2 = mk_header()
            try:
                r = call(h2, _view(kind, ba), off, payload)
            except Exception as e:
                VH('offset-dependent', 'pack-payload', '%s raised %s, pack(payload=p) did not' % (label, exc_name(e)))
                return
            if bytes(ba) != whole:
                out = bytes(ba[:off]) != pre or bytes(ba[off + size:]) != post
                VH('offset-dependent', 'pack-payload', '%s (%d guard bytes before, %d after) differs from pack(payload=p) (%s)' % (
                    label, off, len(post), 'bytes outside [off, off+size) changed' if out else 'inside [off, off+size)'))
                return
            bad = _check_return(r, want, size, whole)
            if bad:
                VH('size-mismatch' if bad[0] == 'size' else 'offset-dependent', 'pack-return-payload' if bad[0] == 'size' else 'pack-payload',
                   '%s %s' % (label, bad[1]))
                return
        # header alone into the caller's buffer (the payload is written by the caller)
        ba = bytearray(pre + bytes([0xA5]) * size + post)
        h3 = mk_header()
        try:
            h3.calculate_crc(payload)
            r = h3.pack(ba, off, return_buffer=False)
        except Exception as e:
            VH('offset-dependent', 'pack', 'calculate_crc(p); pack(buffer, %d, return_buffer=False) raised %s' % (off, exc_name(e)))
            return
        if r != HS or bytes(ba) != pre + m[:HS] + bytes([0xA5]) * len(payload) + post:
            VH('offset-dependent', 'pack', 'calculate_crc(p); pack(buffer, %d, return_buffer=False) -> %r: header bytes differ from those of '
               'pack(payload=p) or bytes outside [off, off+24) changed' % (off, r))
            return
        # read the message back where it was written
        for kind in ('bytes', 'bytearray', 'memoryview'):
            ba = bytearray(whole)
            src = bytes(whole) if kind == 'bytes' else _view(kind, ba)
            h4 = MessageHeader()
            try:
                n = h4.unpack(src, off, validate_sync=True, validate_crc=True, warn_on_unrecognized=False)
                n2, sync = MessageHeader().unpack(src, offset=off, validate_sync=True, validate_crc=True, warn_on_unrecognized=False,
                                                  return_sync_bytes=True)
            except Exception as e:
                VH('value-drift', 'reparse', 'message written by pack(payload=p) does not read back (%s, offset %d): %s' % (kind, off, exc_name(e)))
                return
            if n != HS or n2 != HS or sync != b'.1' or cval(h4) != ch:
                VH('value-drift', ','.join(diff_fields(ch, cval(h4))) or 'consumed', 'header read back from %s at offset %d: consumed %r, fields %s differ'
                   % (kind, off, n, diff_fields(ch, cval(h4))))
                return
            if bytes(ba) != whole:
                VH('offset-dependent', 'unpack', 'MessageHeader.unpack(%s, %d, validate_crc=True) modified the buffer' % (kind, off))
                return
        if reader is not None:
            why = reader(whole, off + HS)
            if why:
                V('offset-dependent', 'unpack', 'payload of a complete message (header at offset %d): %s' % (off, why))
                return


def roundtrip(subj, b0, offsets, rng):
    """Returns (status, violations) with violations = list of (kind, field_or_None, description).
    status: 'unparsed' | 'refused' | 'ok' | 'violated'."""
    name = subj.name
    viols = []

    def V(kind, detail, desc, subject=None):
        viols.append((kind, detail, desc) if subject is None else (kind, detail, desc, subject))

    forms = subj.into
    if forms and not hasattr(subj, '_uforms'):
        subj._uforms = unpack_forms(subj)
    first = None
    post = b'' if subj.greedy else rbytes(rng, rng.choice([0, 0, 5, 24]))   # same suffix at every offset
    for off in offsets:
        pre = rbytes(rng, off)
        buf = pre + b0 + post
        try:
            o1, n0 = subj.unpack(buf, off)
            c1 = cval(o1)
            res = ('ok', int(n0), c1)
        except Exception as e:
            o1 = None
            res = ('err', type(e).__name__, None)
        if forms and not unpack_call_forms(subj, buf, off, res, V):
            return 'violated', viols
        if first is None:
            first = (res, o1, off, post)
        elif res[0] != first[0][0] or (res[0] == 'ok' and (res[1] != first[0][1] or res[2] != first[0][2])):
            what = 'consumed' if (res[0] == 'ok' and first[0][0] == 'ok' and res[1] != first[0][1]) else 'value'
            df = ''
            if res[0] == 'ok' and first[0][0] == 'ok':
                df = ','.join(diff_fields(first[0][2], res[2]))
            V('offset-dependent', 'unpack',
              'unpack at offset %d gives %s, at offset %d gives %s (%s %s)' % (
                  first[2], first[0][:2], off, res[:2], what, df))
            return 'violated', viols
    (res, o1, off1, post1) = first
    if res[0] == 'err':
        return 'unparsed', viols
    n0, c1 = res[1], res[2]
    if n0 > len(b0) + len(post1) or n0 < 0:
        V('size-mismatch', 'consumed', 'unpack reports %d bytes consumed from a %d-byte encoding' % (n0, len(b0)))
    # ---- serialise
    try:
        b1 = subj.pack(o1)
    except Exception as e:
        if subj.refusal_ok(o1, e):
            return 'refused', viols
        at = attribute_ts(name, o1, 'cannot-pack', None)
        if at:
            viols.append(('cannot-pack', at[1], 'object parsed from %d bytes cannot be serialised: %s' % (len(b0), exc_name(e)), at[0]))
        else:
            V('cannot-pack', type(e).__name__, 'object parsed from %d bytes cannot be serialised: %s' % (len(b0), exc_name(e)))
        return 'violated', viols
    if len(b1) > n0:
        V('size-mismatch', 'serialisation-longer', 'unpack consumed %d bytes, the serialisation of the parsed object has %d (%s -> %s)' % (
            n0, len(b1), b0[:n0].hex()[:64], b1.hex()[:96]))
    # ---- self-reported size
    try:
        sz = subj.calcsize(o1)
        if sz != len(b1):
            V('size-mismatch', 'calcsize', 'calcsize() = %s, serialisation has %d bytes' % (sz, len(b1)))
    except Exception as e:
        V('size-mismatch', 'calcsize', 'calcsize() raised %s (serialisation has %d bytes)' % (exc_name(e), len(b1)))
    # ---- every pack() call form: library-allocated, caller-supplied at offsets with guard bytes
    if forms:
        pack_call_forms(subj, o1, b1, offsets, rng, V)
        # ---- header + payload in one call
        if name == 'MessageHeader':
            import copy
            for plen in (rng.choice([0, 1, 7]), rng.choice([2, 24, 57, 140, 300])):
                header_payload_forms(lambda: copy.copy(o1), rbytes(rng, plen), offsets, rng, V)
                if viols:
                    break
        elif getattr(subj.cls, 'MESSAGE_TYPE', None) is not None and not viols:
            from fusion_engine_client.messages import MessageHeader
            seq, src = rng.choice([0, 1, 0xFFFFFFFF, rng.getrandbits(32)]), rng.choice([0, 1, 0xFFFFFFFF])

            def mk():
                h = MessageHeader(subj.cls.MESSAGE_TYPE)
                h.message_version = subj.cls.MESSAGE_VERSION
                h.sequence_number = seq
                h.source_identifier = src
                return h

            def reader(buf, off):
                if subj.greedy:            # consumes the rest of the buffer: hand it the message only
                    buf = buf[:off + len(b1)]
                try:
                    o, n = subj.unpack(buf, off)
                except Exception as e:
                    return 'unpack at offset %d raised %s' % (off, exc_name(e))
                if n != len(b1):
                    return 'unpack at offset %d consumed %r of a %d-byte payload' % (off, n, len(b1))
                return None
            header_payload_forms(mk, b1, offsets, rng, V, reader, ' (payload = serialisation of a parsed %s)' % name)
    # ---- parse the serialisation again, at offsets
    o2 = None
    post = b'' if subj.greedy else rbytes(rng, rng.choice([0, 9]))
    for off in offsets:
        pre = rbytes(rng, off)
        try:
            o2, n1 = subj.unpack(pre + b1 + post, off)
        except Exception as e:
            V('value-drift', 'reparse', 'serialisation of a parsed object does not parse (offset %d): %s' % (off, exc_name(e)))
            return 'violated', viols
        if n1 != len(b1):
            V('size-mismatch', 'consumed', 'unpack consumed %s of a %d-byte serialisation (offset %d)' % (n1, len(b1), off))
            break
        c2 = cval(o2)
        if c2 != c1:
            df = diff_fields(c1, c2)
            at = attribute_ts(name, o1, 'value-drift', df, o2)
            if at:
                viols.append(('value-drift', at[1], 'Timestamp in field(s) %s of %s differs after unpack(pack(o)): %r -> %r' % (
                    df, name, [t.seconds for k, t in timestamps(o1) if k in df or k == ''],
                    [t.seconds for k, t in timestamps(o2) if k in df or k == '']), at[0]))
            else:
                V('value-drift', ','.join(df) or None, 'fields %s differ after unpack(pack(o)) (offset %d)' % (df, off))
            break
    # ---- second serialisation
    if o2 is not None:
        try:
            b2 = subj.pack(o2)
            if b2 != b1 and not any(v[0] == 'value-drift' for v in viols):   # one report per broken chain
                i = next((k for k in range(min(len(b1), len(b2))) if b1[k] != b2[k]), min(len(b1), len(b2)))
                V('bytes-differ', None, 'second serialisation differs from the first at byte %d (%d vs %d bytes)' % (i, len(b1), len(b2)))
        except Exception as e:
            V('cannot-pack', 'second', 're-parsed object cannot be serialised: %s' % exc_name(e))
        try:
            sz2 = subj.calcsize(o2)
            if sz2 != len(b1) and not any(v[0] == 'size-mismatch' and v[1] == 'calcsize' for v in viols):
                V('size-mismatch', 'calcsize', 'calcsize() of the re-parsed object = %s, serialisation has %d bytes' % (sz2, len(b1)))
        except Exception:
            pass
    info = {'normalised': b1 != b0[:len(b1)] or n0 != len(b1), 'len': len(b1)}
    return ('violated' if viols else 'ok'), viols, info


def signature(name, kind, detail):
    s = 'C01/%s/%s' % (name, kind)
    if detail:
        s += ':' + detail
    return s


# ---------------------------------------------------------------------------------------------------------
# object re-use
def observe(subj, recv, buf, off):
    """everything the property lets one see of `recv` after recv.unpack(buf, off)"""
    try:
        o, n = subj.unpack_with(recv, buf, off)
    except Exception as e:
        return {'res': ('err', type(e).__name__)}
    ob = {'res': ('ok', int(n)), 'val': cval(o), 'types': tsig(o)}
    try:
        ob['pack'] = ('ok', subj.pack(o))
    except Exception as e:
        ob['pack'] = ('err', type(e).__name__)
    try:
        ob['size'] = ('ok', subj.calcsize(o))
    except Exception as e:
        ob['size'] = ('err', type(e).__name__)
    return ob


def shape_key(subj, buf, off, fresh):
    if fresh['res'][0] == 'err':
        return ('err', fresh['res'][1])
    o, _ = subj.unpack_with(subj.receiver(), buf, off)
    return ('ok', tsig(o, coarse=True), fresh['pack'][0])


def value_key(fresh):
    """second grouping: the values of the enumeration / boolean / absent / small-integer top-level fields (the ones
    branches are taken on)"""
    if fresh['res'][0] == 'err':
        return ('err', fresh['res'][1])
    key = []
    for k, v in sorted(fields_of(fresh['val']).items()):
        if v is None or isinstance(v, bool):
            key.append((k, v))
        elif isinstance(v, tuple) and len(v) == 3 and v[0] == 'enum':
            key.append((k, v[2]))
        elif isinstance(v, int):
            key.append((k, v if v < 4 else 'n'))
    return ('ok', tuple(key))


def reuse_diff(fresh, got):
    """None, or (detail, text): how a re-used receiver differs from a fresh object after parsing the same bytes.
    Nothing is required when the fresh object refuses the bytes."""
    if fresh['res'][0] == 'err':
        return None
    if got['res'][0] == 'err':
        return 'unpack', 'unpack() raises %s on the re-used object, a new object parses the bytes' % got['res'][1]
    if got['res'][1] != fresh['res'][1]:
        return 'consumed', 'unpack() reports %d bytes consumed on the re-used object, %d on a new one' % (got['res'][1], fresh['res'][1])
    if got['val'] != fresh['val']:
        df = diff_fields(fresh['val'], got['val'])
        f1, f2 = fields_of(fresh['val']), fields_of(got['val'])
        return (','.join(df) or 'value'), 'field(s) %s: re-used object %s, new object %s' % (
            df, [str(f2.get(k, '<absent>'))[:80] for k in df][:3], [str(f1.get(k, '<absent>'))[:80] for k in df][:3])
    if got['types'] != fresh['types']:
        return 'type', 'equal numbers in values of different classes: re-used object %s, new object %s' % (
            str(got['types'])[:160], str(fresh['types'])[:160])
    pf, pg = fresh['pack'], got['pack']
    if pf != pg and not (pf[0] == 'err' and pg[0] == 'err'):
        def show(x):
            return '%d bytes %s' % (len(x[1]), x[1].hex()[:64]) if x[0] == 'ok' else 'raises ' + x[1]
        return 'pack', 'the parse consumed %d bytes; pack() of the re-used object: %s; of a new object: %s' % (
            fresh['res'][1], show(pg), show(pf))
    if got['size'] != fresh['size']:
        return 'calcsize', 'calcsize() of the re-used object: %s, of a new object: %s' % (got['size'], fresh['size'])
    return None


def run_history(subj, hist, strict_first=False, packs=False):
    """a new receiver taken through hist = [(buf, off), ...]; the observation after the last step"""
    recv = subj.receiver()
    for i, (buf, off) in enumerate(hist[:-1]):
        if packs:
            observe(subj, recv, buf, off)
            continue
        try:
            if strict_first and i == 0 and subj.unpack_strict(recv, buf, off) is not None:
                continue
            subj.unpack_with(recv, buf, off)
        except Exception:
            pass
    return observe(subj, recv, hist[-1][0], hist[-1][1])


def reuse_replay_input(name, hist, strict_first=False, packs=False):
    return {'kind': 'reuse', 'subject': name, 'history': [[b.hex(), off] for b, off in hist],
            'strict_first': bool(strict_first), 'packs': bool(packs)}


def reuse_replay(subj, r):
    """(fresh, got, diff) for a replay record written by reuse_replay_input"""
    hist = [(bytes.fromhex(h), off) for h, off in r['history']]
    fresh = observe(subj, subj.receiver(), hist[-1][0], hist[-1][1])
    got = run_history(subj, hist, r.get('strict_first', False), r.get('packs', False))
    return fresh, got, reuse_diff(fresh, got)


def truncations(bases, rng, thorough):
    """prefixes of valid encodings: unpack refuses most of them, possibly after it has begun to update the receiver"""
    out = []
    for b in bases[:(8 if thorough else 4)]:
        cuts = list(range(len(b)))
        if len(cuts) > (60 if thorough else 16):
            cuts = sorted(set(rng.sample(cuts, 56 if thorough else 12) + [0, 1, len(b) - 1, len(b) // 2]))
        out += [b[:k] for k in cuts]
    return out


def reuse_phase(subj, encs, extra_a, rng, thorough, budget):
    """Returns (counters, [(kind, detail, desc, replay)])."""
    name = subj.name
    cnt = {'reuse_items': 0, 'reuse_chain_steps': 0, 'reuse_pairs': 0, 'reuse_shape_classes': 0, 'reuse_value_classes': 0, 'reuse_refused_steps': 0}
    out, seen_sig = [], set()

    def report(detail, text, hist, strict_first=False, packs=False):
        if detail in seen_sig:
            return
        seen_sig.add(detail)
        a = hist[-2] if len(hist) > 1 else None
        desc = 'after %d earlier unpack() call(s)%s into the same object (the last one of %s at offset %s), unpack() of %s at offset %d: %s' % (
            len(hist) - 1, ', pack() and calcsize() after each,' if packs else '',
            a[0][a[1]:].hex()[:96] if a else '-', a[1] if a else '-', hist[-1][0][hist[-1][1]:].hex()[:96], hist[-1][1], text)
        out.append(('stale-state', detail, desc, reuse_replay_input(name, hist, strict_first, packs)))

    items, seen = [], set()
    for b0, can_b in [(b, True) for b in encs] + [(b, False) for b in extra_a]:
        if b0 in seen:
            continue
        seen.add(b0)
        off = rng.choice(OFFSETS)
        post = b'' if (subj.greedy or not can_b) else rbytes(rng, rng.choice([0, 0, 6]))
        buf = rbytes(rng, off) + b0 + post
        fresh = observe(subj, subj.receiver(), buf, off)
        again = observe(subj, subj.receiver(), buf, off)
        if reuse_diff(fresh, again):         # not even two new objects agree: not a re-use matter, and not judged here
            continue
        items.append((buf, off, fresh, shape_key(subj, buf, off, fresh), value_key(fresh)))
    cnt['reuse_items'] = len(items)
    if not items:
        return cnt, out

    # ---- chains: one receiver, a long sequence, compared after every step
    for rnd in range(3 if thorough else 2):
        order = list(range(len(items)))
        rng.shuffle(order)
        recv = subj.receiver()
        hist = []
        for ix in order:
            buf, off, fresh = items[ix][:3]
            got = observe(subj, recv, buf, off)
            hist.append((buf, off))
            cnt['reuse_chain_steps'] += 1
            if got['res'][0] == 'err':
                cnt['reuse_refused_steps'] += 1
            d = reuse_diff(fresh, got)
            if d:
                # the shortest recent history that shows it on a new object (without and with the pack() calls)
                shown = False
                for k in (1, 2, 3, 4, 8, 16, 64, len(hist) - 1):
                    sub = hist[-(k + 1):]
                    for packs in (False, True):
                        d2 = reuse_diff(fresh, run_history(subj, sub, packs=packs))
                        if d2:
                            report(d2[0], d2[1], sub, packs=packs)
                            shown = True
                            break
                    if shown or k >= len(hist) - 1:
                        break
                if not shown:
                    report(d[0], d[1], list(hist), packs=True)
                recv = subj.receiver()
                hist = []

    # ---- pairs: ordered pairs of shape classes
    strict = type(subj).unpack_strict is not Subject.unpack_strict
    for which, label in ((3, 'reuse_shape_classes'), (4, 'reuse_value_classes')):
        classes = {}
        for ix, it in enumerate(items):
            classes.setdefault(it[which], []).append(ix)
        keys = sorted(classes, key=repr)
        kb = [k for k in keys if k[0] == 'ok']
        cnt[label] = len(keys)
        cap = budget * (4 if thorough else 2) // (1 if which == 3 else 2)
        pairs = [(a, b) for a in keys for b in kb]
        if len(pairs) > cap:
            rng.shuffle(pairs)
            pairs = pairs[:cap]
        reps = max(2 if strict else 1, min(4, cap // max(1, len(pairs))))
        for a, b in pairs:
            for r in range(reps):
                ia, ib = rng.choice(classes[a]), rng.choice(classes[b])
                hist = [items[ia][:2], items[ib][:2]]
                sf = strict and r % 2 == 1
                got = run_history(subj, hist, strict_first=sf)
                cnt['reuse_pairs'] += 1
                d = reuse_diff(items[ib][2], got)
                if d:
                    report(d[0], d[1], hist, strict_first=sf)
    return cnt, out


def run_subject(args):
    """Pool work item.  Returns a dict with counters, violations [(sig, desc, replay)], samples."""
    name, seed, thorough, budget = args[:4]
    ifields = args[4] if len(args) > 4 else None
    hints = args[5] if len(args) > 5 else None
    rng = random.Random(zlib.crc32(name.encode()) * 7919 + seed)
    subj = subject_by_name(name)
    res = {'name': name, 'cases': 0, 'parsed': 0, 'unparsed': 0, 'refused': 0, 'ok': 0, 'normalised': 0, 'violations': [],
           'distinct': [], 'lens': {}, 'sample': None}
    seen_sig = set()
    try:
        encs = encodings(subj, rng, thorough, budget, ifields, hints)
    except Exception as e:       # generator trouble is an infrastructure error, not a violation
        res['infra'] = 'generator failed for %s: %s' % (name, exc_name(e))
        return res
    for b0 in encs:
        offs = OFFSETS if (thorough or res['cases'] % 4 == 0) else (0, rng.choice(OFFSETS[1:]))
        r = roundtrip(subj, b0, offs, rng)
        res['cases'] += 1
        st, viols = r[0], r[1]
        if st == 'unparsed':
            res['unparsed'] += 1
            continue
        res['parsed'] += 1
        res['distinct'].append(zlib.crc32(b0) ^ (len(b0) << 32))
        if st == 'refused':
            res['refused'] += 1
        if len(r) > 2:
            if r[2]['normalised']:
                res['normalised'] += 1
            lk = str(r[2]['len'])
            res['lens'][lk] = res['lens'].get(lk, 0) + 1
        if st == 'ok':
            res['ok'] += 1
            if res['sample'] is None and len(b0) <= 64:
                res['sample'] = {'subject': name, 'b0': b0.hex()}
        for v in viols:
            kind, detail, desc = v[:3]
            sig = signature(v[3] if len(v) > 3 else name, kind, detail)
            if sig not in seen_sig:
                seen_sig.add(sig)
                res['violations'].append((sig, desc, {'subject': name, 'b0': b0.hex(), 'offsets': list(offs)}))
    # ---- the same encodings into re-used objects
    rrng = random.Random(zlib.crc32(name.encode()) * 104729 + seed)
    try:
        head = encs[:60]
        firsts = head if len(head) <= 8 else head[:3] + rrng.sample(head[3:], 5)
        cnt, found = reuse_phase(subj, encs, truncations(firsts, rrng, thorough), rrng, thorough, budget)
    except Exception as e:
        res['infra'] = 're-use phase failed for %s: %s' % (name, exc_name(e))
        return res
    res['reuse'] = cnt
    for kind, detail, desc, rep in found:
        sig = signature(name, kind, detail)
        if sig not in seen_sig:
            seen_sig.add(sig)
            res['violations'].append((sig, desc, rep))
    return res
