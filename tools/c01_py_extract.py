"""C01 translator: Python message classes -> layout descriptors for lean/FeVerif/Generated/C01Layouts.lean.

Two sources:
  * declarative `construct.Struct` objects are walked structurally (names, FormatField codes, Padding, Array,
    Bytes, PaddedString, GreedyBytes, BytesInteger, Flag, the repository's adapters with their parameters);
  * hand-written `pack`/`unpack` classes: the primitive sequence (widths, signedness, padding) is read from the
    class's own `_STRUCT` / `_FORMAT` string at run time; the attribute names, value codecs and the surrounding
    Timestamp / MeasurementDetails / array structure come from the side table MANUAL below.
Every descriptor is tied to the real class by the correspondence stage of tools/props/c01.py, which walks the
same item tree (`attr` entries) against the attributes of the parsed Python object.

Item tree (python): list of dicts, `k` in field|pad|count|struct|array|bytes|greedy|lenpref|switch.
"""
import hashlib
import os
import re
import struct

import construct

CODES = {'B': (1, 'uint'), 'b': (1, 'sint'), 'H': (2, 'uint'), 'h': (2, 'sint'), 'I': (4, 'uint'), 'L': (4, 'uint'),
         'i': (4, 'sint'), 'l': (4, 'sint'), 'Q': (8, 'uint'), 'q': (8, 'sint'), 'f': (4, 'f32'), 'd': (8, 'f64'),
         '?': (1, 'bool')}


class Ext:
    """table of float-arithmetic codecs; index = ext id in the Lean file"""

    def __init__(self):
        self.specs = [('timestamp',)]
        self.index = {('timestamp',): 0}

    def get(self, spec):
        if spec not in self.index:
            self.index[spec] = len(self.specs)
            self.specs.append(spec)
        return self.index[spec]

    def scaled(self, signed, sentinel, dec_mul, dec_k, enc_mul, enc_k, clamp=None):
        return self.get(('scaled', bool(signed), sentinel, bool(dec_mul), float(dec_k), bool(enc_mul), float(enc_k), clamp))


class Names:
    def __init__(self):
        self.ids = {}

    def id(self, name):
        if name not in self.ids:
            self.ids[name] = len(self.ids) + 1
        return self.ids[name]


def enum_members(enum_cls):
    return sorted(set(int(v) for v in enum_cls))


# ---------------------------------------------------------------------------------------------------------
# construct walker
class Unsupported(Exception):
    pass


def path_name(p):
    """name of `this.<name>`"""
    if type(p).__name__ == 'Path':
        return p._Path__field
    raise Unsupported('not a this.<name> path: %r' % (p,))


def unwrap(c):
    name = None
    while isinstance(c, construct.Renamed):
        name = c.name if name is None else name
        c = c.subcon
    return name, c


def walk_struct(st, ext, ctx):
    """construct.Struct -> item list"""
    from fusion_engine_client.utils import construct_utils as cu
    from fusion_engine_client.messages.timestamp import TimestampAdapter
    subs = [unwrap(s) for s in st.subcons]
    # names referenced as lengths / counts by later members
    refd = set()
    for nm, c in subs:
        for k in lengths_of(c):
            refd.add(k)
    items = []
    for nm, c in subs:
        items += walk_member(nm, c, ext, ctx, refd)
    return items


def lengths_of(c):
    out = []
    t = type(c).__name__
    if t == 'Array' and not isinstance(c.count, int):
        out.append(path_name(c.count))
    if t == 'Bytes' and not isinstance(c.length, int):
        out.append(path_name(c.length))
    if t == 'StringEncoded':
        fs = c.subcon
        if type(fs).__name__ == 'FixedSized' and not isinstance(fs.length, int):
            out.append(path_name(fs.length))
    return out


def walk_member(nm, c, ext, ctx, refd):
    from fusion_engine_client.utils import construct_utils as cu
    from fusion_engine_client.messages.timestamp import TimestampAdapter
    t = type(c).__name__
    if t == 'FormatField':
        code = c.fmtstr[-1]
        if c.fmtstr[0] != '<' and CODES[code][0] > 1:
            raise Unsupported('big-endian field ' + c.fmtstr)
        w, codec = CODES[code]
        if nm in refd:
            if codec != 'uint':
                raise Unsupported('signed count field')
            return [{'k': 'count', 'name': nm, 'w': w}]
        return [{'k': 'field', 'name': nm, 'w': w, 'codec': (codec,), 'attr': nm}]
    if t == 'BytesInteger':
        if not c.swapped or c.signed:
            raise Unsupported('BytesInteger variant')
        return [{'k': 'field', 'name': nm, 'w': c.length, 'codec': ('uint',), 'attr': nm}]
    if t == 'Padded' and type(c.subcon).__name__ == 'Pass':
        return [{'k': 'pad', 'n': c.length}]
    if c is construct.Flag or (t == 'Adapter' and False):
        return [{'k': 'field', 'name': nm, 'w': 1, 'codec': ('bool',), 'attr': nm}]
    if t == 'Flag' or repr(c) == repr(construct.Flag):
        return [{'k': 'field', 'name': nm, 'w': 1, 'codec': ('bool',), 'attr': nm}]
    if isinstance(c, TimestampAdapter):
        return [{'k': 'field', 'name': nm, 'w': 8, 'codec': ('ext', 0), 'attr': nm, 'py': 'timestamp'}]
    if isinstance(c, cu.EnumAdapter):
        inner = c.subcon            # construct.Enum over a FormatField
        ff = inner.subcon
        w, codec = CODES[ff.fmtstr[-1]]
        if codec != 'uint':
            raise Unsupported('signed enum')
        kind = 'strict' if c.raise_on_unrecognized else 'lenient'
        return [{'k': 'field', 'name': nm, 'w': w, 'codec': (kind, c.enum_cls.__name__, tuple(enum_members(c.enum_cls))), 'attr': nm}]
    if isinstance(c, cu.FixedPointAdapter):
        ff = c.subcon
        w, codec = CODES[ff.fmtstr[-1]]
        eid = ext.scaled(codec == 'sint', c.invalid, True, c.scale, False, c.scale)
        return [{'k': 'field', 'name': nm, 'w': w, 'codec': ('ext', eid), 'attr': nm}]
    if isinstance(c, (cu.ClassAdapter, cu.NamedTupleAdapter)):
        return [{'k': 'struct', 'name': nm, 'items': walk_struct(c.subcon, ext, ctx), 'attr': nm}]
    if t == 'Struct':
        return [{'k': 'struct', 'name': nm, 'items': walk_struct(c, ext, ctx), 'attr': nm}]
    if t == 'Array':
        cnt = ('fixed', c.count) if isinstance(c.count, int) else ('ref', path_name(c.count))
        en, ec = unwrap(c.subcon)
        if isinstance(ec, (cu.ClassAdapter, cu.NamedTupleAdapter)):
            elem = walk_struct(ec.subcon, ext, ctx)
        elif type(ec).__name__ == 'Struct':
            elem = walk_struct(ec, ext, ctx)
        else:
            elem = walk_member('', ec, ext, ctx, set())
            for e in elem:
                e['attr'] = None          # the element itself
        return [{'k': 'array', 'name': nm, 'cnt': cnt, 'items': elem, 'attr': nm}]
    if t == 'Bytes':
        cnt = ('fixed', c.length) if isinstance(c.length, int) else ('ref', path_name(c.length))
        return [{'k': 'bytes', 'name': nm, 'cnt': cnt, 'str': False, 'attr': nm}]
    if t == 'StringEncoded':
        fs = c.subcon
        if c.encoding not in ('utf8', 'utf-8', 'ascii') or type(fs).__name__ != 'FixedSized' or \
                type(fs.subcon).__name__ != 'NullStripped':
            raise Unsupported('string variant')
        cnt = ('fixed', fs.length) if isinstance(fs.length, int) else ('ref', path_name(fs.length))
        return [{'k': 'bytes', 'name': nm, 'cnt': cnt, 'str': True, 'attr': nm}]
    if t == 'GreedyBytes' or c is construct.GreedyBytes:
        return [{'k': 'greedy', 'name': nm, 'attr': nm}]
    if t == 'IfThenElse':
        cond = c.condfunc
        if type(cond).__name__ != 'BinExpr' or cond.op.__name__ != 'eq' or type(c.elsesubcon).__name__ != 'Pass':
            raise Unsupported('If variant')
        tag = path_name(cond.lhs)
        body = walk_member(nm, c.thensubcon, ext, ctx, set())
        return [{'k': 'switch', 'name': nm, 'tag': tag, 'cases': [(int(cond.rhs), body)], 'dflt': [], 'attr': None,
                 'dflt_attr_none': nm}]
    raise Unsupported('construct %s (%r)' % (t, c))


# ---------------------------------------------------------------------------------------------------------
# hand-written classes: format string from the class, names / codecs from the side table
def parse_format(fmt):
    """struct format -> list of codes, 'x' expanded"""
    fmt = fmt.replace(' ', '')
    if fmt[0] != '<':
        raise Unsupported('format not little-endian: ' + fmt)
    out = []
    for m in re.finditer(r'(\d*)([a-zA-Z?])', fmt[1:]):
        n = int(m.group(1)) if m.group(1) else 1
        out += [m.group(2)] * n
    return out


def T(attr):
    return ('ts', attr)


def TD(attr):
    return ('ts-discard', attr)


def S(fmt_attr, names):
    return ('fmt', fmt_attr, names)


def D(attr, discard_p1=False, strict=True):
    return ('details', attr, discard_p1, strict)


def A(cnt_name, w_fmt_attr, attr, elem_cls_key):
    return ('counted-array', cnt_name, w_fmt_attr, attr, elem_cls_key)


def manual_table(ext):
    from fusion_engine_client.messages import solution as sol
    P = sol.PoseMessage
    G = sol.GNSSInfoMessage
    SI = sol.SatelliteInfo
    und = ext.scaled(True, int(P.INVALID_UNDULATION), True, 0.01, True, 100.0)
    age = ext.scaled(False, int(G.INVALID_AGE), True, 0.1, True, 10.0)
    base = ext.scaled(False, int(G.INVALID_DISTANCE), True, 10.0, False, 10.0)
    cn0 = ext.scaled(False, int(SI.INVALID_CN0), True, 0.25, False, 0.25, (1, 255))
    pct = ext.scaled(False, None, False, 2.0, True, 2.0)
    e = lambda i: 'ext:%d' % i
    return {
        'Timestamp': [T(None)],
        'MeasurementDetails': [T('measurement_time'),
                               S('_STRUCT', ['measurement_time_source:strict:SystemTimeSource', 'data_source:strict:SensorDataSource']),
                               T('p1_time')],
        'MessageHeader': [S('_FORMAT', ['=sync0:discard:46', '=sync1:discard:49', 'reserved', 'crc', 'protocol_version',
                                        'message_version', 'message_type:lenient:MessageType', 'sequence_number',
                                        'payload_size_bytes', 'source_identifier'])],
        'SatelliteInfo': [S('_STRUCT', ['system:strict:SatelliteType', 'prn', 'usage', 'cn0_dbhz:' + e(cn0), 'azimuth_deg',
                                        'elevation_deg'])],
        'PoseMessage': [T('p1_time'), T('gps_time'),
                        S('_STRUCT', ['solution_type:strict:SolutionType', 'flags', 'undulation_m:' + e(und), 'lla_deg*3',
                                      'position_std_enu_m*3', 'ypr_deg*3', 'ypr_std_deg*3', 'velocity_body_mps*3',
                                      'velocity_std_body_mps*3', 'aggregate_protection_level_m',
                                      'horizontal_protection_level_m', 'vertical_protection_level_m'])],
        'PoseAuxMessage': [T('p1_time'), S('_STRUCT', ['position_std_body_m*3', 'position_cov_enu_m2*9', 'attitude_quaternion*4',
                                                       'velocity_enu_mps*3', 'velocity_std_enu_mps*3'])],
        'GNSSInfoMessage': [T('p1_time'), T('gps_time'),
                            S('_STRUCT', ['leap_second', 'num_svs', 'corrections_age_sec:' + e(age), 'baseline_distance_m:' + e(base),
                                          'reference_station_id', 'gdop', 'pdop', 'hdop', 'vdop', 'gps_time_std_sec'])],
        'GNSSSatelliteMessage': [T('p1_time'), T('gps_time'), A('num_svs', '_STRUCT', 'svs', 'SatelliteInfo')],
        'CalibrationStatus': [T('p1_time'),
                              S('_STRUCT', ['calibration_stage:strict:CalibrationStage', 'ypr_deg*3', 'ypr_std_dev_deg*3',
                                            'travel_distance_m', 'state_verified', 'gyro_bias_percent_complete:' + e(pct),
                                            'accel_bias_percent_complete:' + e(pct), 'mounting_angle_percent_complete:' + e(pct),
                                            'min_travel_distance_m', 'mounting_angle_max_std_dev_deg*3'])],
        'IMUOutput': [T('p1_time'), S('_STRUCT', ['accel_mps2*3', 'accel_std_mps2*3', 'gyro_rps*3', 'gyro_std_rps*3'])],
        'GNSSAttitudeOutput': [D('details'), S('_STRUCT', ['solution_type:strict:SolutionType', 'flags', 'ypr_deg*3', 'ypr_std_deg*3',
                                                           'baseline_distance_m', 'baseline_distance_std_m'])],
        'RawGNSSAttitudeOutput': [D('details'), S('_STRUCT', ['solution_type:strict:SolutionType', 'flags', 'relative_position_enu_m*3',
                                                              'position_std_enu_m*3'])],
        'DeprecatedWheelSpeedMeasurement': [D('details'), S('_STRUCT', ['front_left_speed_mps', 'front_right_speed_mps',
                                                                        'rear_left_speed_mps', 'rear_right_speed_mps',
                                                                        'gear:strict:GearType', 'is_signed'])],
        'DeprecatedVehicleSpeedMeasurement': [D('details'), S('_STRUCT', ['vehicle_speed_mps', 'gear:strict:GearType', 'is_signed'])],
        'WheelTickInput': [D('details', True), S('_STRUCT', ['front_left_wheel_ticks', 'front_right_wheel_ticks',
                                                             'rear_left_wheel_ticks', 'rear_right_wheel_ticks', 'gear:strict:GearType'])],
        'RawWheelTickOutput': [D('details', True), S('_STRUCT', ['front_left_wheel_ticks', 'front_right_wheel_ticks',
                                                                 'rear_left_wheel_ticks', 'rear_right_wheel_ticks', 'gear:strict:GearType'])],
        'VehicleTickInput': [D('details', True), S('_STRUCT', ['tick_count', 'gear:strict:GearType'])],
        'RawVehicleTickOutput': [D('details', True), S('_STRUCT', ['tick_count', 'gear:strict:GearType'])],
        'ROSPoseMessage': [T('p1_time'), S('_FORMAT', ['position_rel_m*3', 'orientation*4'])],
        'ROSGPSFixMessage': [T('p1_time'), S('_FORMAT', [
            'latitude_deg', 'longitude_deg', 'altitude_m', 'track_deg', 'speed_mps', 'climb_mps', 'pitch_deg', 'roll_deg', 'dip_deg',
            'gps_time', 'gdop', 'pdop', 'hdop', 'vdop', 'tdop', 'err_3d_m', 'err_horiz_m', 'err_vert_m', 'err_track_deg',
            'err_speed_mps', 'err_climb_mps', 'err_time_sec', 'err_pitch_deg', 'err_roll_deg', 'err_dip_deg',
            'position_covariance_m2*9', 'position_covariance_type:lenient:CovarianceType', 'reserved*3'])],
        'ROSIMUMessage': [T('p1_time'), S('_FORMAT', ['orientation*4', 'orientation_covariance*9', 'angular_velocity_rps*3',
                                                      'angular_velocity_covariance*9', 'acceleration_mps2*3',
                                                      'acceleration_covariance*9'])],
        'CommandResponseMessage': [S('_STRUCT', ['source_sequence_num', 'response:lenient:Response'])],
        'MessageRequest': [S('_STRUCT', ['message_type:strict:MessageType'])],
        'ResetRequest': [S('_STRUCT', ['reset_mask'])],
    }


DISCARD_P1 = ('IMUInput', 'WheelSpeedInput', 'VehicleSpeedInput')


def find_enum(name):
    import fusion_engine_client.messages as m
    from fusion_engine_client.messages import solution, measurements, ros, configuration, device, fault_control, signal_defs
    for mod in (m, solution, measurements, ros, configuration, device, fault_control, signal_defs):
        if hasattr(mod, name):
            return getattr(mod, name)
    raise KeyError(name)


def fmt_of(cls, attr):
    f = getattr(cls, attr)
    return f.format if isinstance(f, struct.Struct) else f


def manual_items(cls, spec, ext, table, classes):
    items = []
    for seg in spec:
        if seg[0] == 'ts':
            items.append({'k': 'field', 'name': seg[1] or 'seconds', 'w': 8, 'codec': ('ext', 0), 'attr': seg[1], 'py': 'timestamp'})
        elif seg[0] == 'details':
            _, attr, discard, strict = seg
            discard = bool(getattr(cls, '_DISREGARD_P1_TIME', discard))     # read from the class where it says so
            md = classes['MeasurementDetails']
            sub = manual_items(md, table['MeasurementDetails'], ext, table, classes)
            if discard:   # unpack() replaces details.p1_time by an invalid Timestamp
                sub[-1] = {'k': 'field', 'name': 'p1_time', 'w': 8, 'codec': ('discard', (1 << 64) - 1), 'attr': 'p1_time', 'py': 'timestamp'}
            items.append({'k': 'struct', 'name': attr, 'items': sub, 'attr': attr})
        elif seg[0] == 'fmt':
            codes = parse_format(fmt_of(cls, seg[1]))
            names = []
            for n in seg[2]:
                m = re.match(r'^([^:*]+)(\*(\d+))?(:(.*))?$', n)
                base, rep, cod = m.group(1), m.group(3), m.group(5)
                if rep:
                    names += [(base, i, cod) for i in range(int(rep))]
                else:
                    names.append((base, None, cod))
            ni = 0
            pad = 0
            for code in codes:
                if code == 'x':
                    pad += 1
                    continue
                if pad:
                    items.append({'k': 'pad', 'n': pad})
                    pad = 0
                if ni >= len(names):
                    raise Unsupported('%s: format %s has more fields than the side table' % (cls.__name__, seg[1]))
                base, idx, cod = names[ni]
                ni += 1
                w, codec = CODES[code]
                c = (codec,)
                attr = base if idx is None else (base, idx)
                if base.startswith('='):
                    attr = 'skip'
                    base = base[1:]
                if cod:
                    parts = cod.split(':')
                    if parts[0] in ('strict', 'lenient'):
                        c = (parts[0], parts[1], tuple(enum_members(find_enum(parts[1]))))
                    elif parts[0] == 'ext':
                        c = ('ext', int(parts[1]))
                    elif parts[0] == 'discard':
                        c = ('discard', int(parts[1]))
                items.append({'k': 'field', 'name': base if idx is None else '%s_%d' % (base, idx), 'w': w, 'codec': c, 'attr': attr})
            if pad:
                items.append({'k': 'pad', 'n': pad})
            if ni != len(names):
                raise Unsupported('%s: side table has more names than format %s' % (cls.__name__, seg[1]))
        elif seg[0] == 'counted-array':
            _, cnt, fattr, attr, ekey = seg
            codes = parse_format(fmt_of(cls, fattr))
            if codes[0] not in 'BHIL' or any(c != 'x' for c in codes[1:]):
                raise Unsupported('count header format')
            items.append({'k': 'count', 'name': cnt, 'w': CODES[codes[0]][0]})
            if len(codes) > 1:
                items.append({'k': 'pad', 'n': len(codes) - 1})
            elem = manual_items(classes[ekey], table[ekey], ext, table, classes)
            items.append({'k': 'array', 'name': attr, 'cnt': ('ref', cnt), 'items': elem, 'attr': attr})
    return items


# ---------------------------------------------------------------------------------------------------------
def config_cases(adapter_map, ext, ctx):
    cases = []
    for k, ad in sorted(adapter_map.items(), key=lambda x: int(x[0])):
        try:
            body = walk_struct(ad.subcon, ext, ctx)
        except (Unsupported, AttributeError):
            continue      # e.g. the enum-valued interface settings whose adapter wraps a bare Enum, not a Struct
        cases.append((int(k), body))
    return cases


def extract():
    """returns (layouts: {class name: item list}, ext table, notes)"""
    from fusion_engine_client.messages import message_type_to_class, MessageHeader, Timestamp, MeasurementDetails
    from fusion_engine_client.messages import solution, configuration, fault_control, device, control
    ext = Ext()
    notes = []
    classes = {c.__name__: c for c in message_type_to_class.values()}
    classes.update({'MessageHeader': MessageHeader, 'Timestamp': Timestamp, 'MeasurementDetails': MeasurementDetails,
                    'SatelliteInfo': solution.SatelliteInfo})
    table = manual_table(ext)
    layouts = {}
    for name, spec in table.items():
        layouts[name] = manual_items(classes[name], spec, ext, table, classes)
    # declarative classes: a class-level construct.Struct
    for name, cls in sorted(classes.items()):
        if name in layouts:
            continue
        st = None
        for attr in ('Construct', name + 'Construct', name.replace('Message', '') + 'Construct'):
            v = cls.__dict__.get(attr)
            if isinstance(v, construct.Struct):
                st = v
        if st is None:
            cands = [v for v in cls.__dict__.values() if isinstance(v, construct.Struct)]
            if len(cands) == 1:
                st = cands[0]
        if st is None:
            notes.append('%s: no declarative source' % name)
            continue
        try:
            layouts[name] = walk_struct(st, ext, None)
        except Unsupported as e:
            notes.append('%s: %s' % (name, e))
    # polymorphic containers: the declarative outer struct + the registered sub-payload constructs
    cg = configuration._conf_gen
    ccases = config_cases(cg.CONFIG_MAP, ext, None)
    icases = config_cases(cg.INTERFACE_CONFIG_MAP, ext, None)
    sub = walk_struct(configuration._InterfaceConfigSubmessageConstructRaw, ext, None)
    iface_body = sub + [{'k': 'switch', 'name': 'interface_config', 'tag': 'subtype', 'cases': icases, 'dflt': None, 'attr': 'config_object'}]
    for it in iface_body:
        if it['k'] == 'struct' and it['name'] == 'interface':
            it['attr'] = 'interface'
        if it['k'] == 'field' and it['name'] == 'subtype':
            it['attr'] = ('call', 'subtype')
    all_cases = [(t, [dict(b, **{}) for b in body]) for t, body in ccases if t != 200]
    for t, body in all_cases:
        pass
    for cname in ('SetConfigMessage', 'ConfigResponseMessage'):
        if cname not in layouts:
            continue
        outer = layouts[cname]
        new = []
        for it in outer:
            if it['k'] == 'count' and it['name'].endswith('_length_bytes'):
                continue
            if it['k'] == 'bytes' and it['cnt'][0] == 'ref':
                body = [{'k': 'switch', 'name': 'config', 'tag': 'config_type',
                         'cases': [(t, [{'k': 'struct', 'name': 'config_object', 'items': b, 'attr': 'config_object'}]) for t, b in all_cases] +
                         [(200, iface_body)], 'dflt': None, 'attr': None}]
                new.append({'k': 'lenpref', 'name': it['name'], 'w': 4, 'items': body, 'attr': None})
            else:
                new.append(it)
        for it in new:
            if it['k'] == 'field' and it['name'] == 'config_type':
                it['attr'] = ('call', 'config_type')
        layouts[cname] = new
    fcases = config_cases(fault_control._class_gen.TYPE_MAP, ext, None)
    if 'FaultControlMessage' in layouts:
        new = []
        for it in layouts['FaultControlMessage']:
            if it['k'] == 'count':
                continue
            if it['k'] == 'bytes' and it['cnt'][0] == 'ref':
                body = [{'k': 'switch', 'name': 'fault', 'tag': 'fault_type',
                         'cases': [(t, [{'k': 'struct', 'name': 'payload', 'items': b, 'attr': 'payload'}]) for t, b in fcases],
                         'dflt': None, 'attr': None}]
                new.append({'k': 'lenpref', 'name': it['name'], 'w': 4, 'items': body, 'attr': None})
            else:
                new.append(it)
        for it in new:
            if it['k'] == 'field' and it['name'] == 'fault_type':
                it['attr'] = ('call', 'fault_type')
        layouts['FaultControlMessage'] = new
    # the sub-payloads on their own
    for t, body in ccases:
        layouts['ConfigType.' + configuration.ConfigType(t).name] = body
    for t, body in icases:
        layouts['InterfaceConfigType.' + configuration.InterfaceConfigType(t).name] = body
    for t, body in fcases:
        layouts['FaultType.' + fault_control.FaultType(t).name] = body
    # unpack() of these declarative classes replaces details.p1_time by an invalid Timestamp after parsing
    for cname in DISCARD_P1:
        for it in layouts.get(cname, []):
            if it['k'] == 'struct' and it['name'] == 'details':
                last = it['items'][-1]
                if last.get('name') == 'p1_time':
                    last['codec'] = ('discard', (1 << 64) - 1)
    # class-specific attribute access
    if 'InputDataWrapperMessage' in layouts:
        for it in layouts['InputDataWrapperMessage']:
            if it.get('name') == 'system_time_cs':
                it['attr'] = ('call', 'system_time_cs')
    return layouts, ext, notes


# ---------------------------------------------------------------------------------------------------------
# Lean emission
def lean_float(x):
    return '(Float.ofBits 0x%016X)' % struct.unpack('<Q', struct.pack('<d', x))[0]


def lean_int(i):
    return '(%d)' % i if i < 0 else '%d' % i


def lean_codec(c):
    k = c[0]
    if k in ('uint', 'sint', 'bool', 'f32', 'f64', 'raw'):
        return '.' + k
    if k == 'strict':
        return '(.enumStrict [%s])' % ', '.join(str(m) for m in c[2])
    if k == 'lenient':
        return '(.enumLenient [%s])' % ', '.join(str(m) for m in c[2])
    if k == 'discard':
        return '(.discard %d)' % c[1]
    if k == 'ext':
        return '(.ext %d)' % c[1]
    raise ValueError(c)


def lean_cnt(c, names):
    return '(.fixed %d)' % c[1] if c[0] == 'fixed' else '(.ref %d)' % names.id(c[1])


def lean_items(items, names, ind):
    pad = ' ' * ind
    if not items:
        return '.nil'
    it = items[0]
    rest = lean_items(items[1:], names, ind)
    k = it['k']
    if k == 'field':
        head = '.field %d %d %s' % (names.id(it['name']), it['w'], lean_codec(it['codec']))
    elif k == 'pad':
        head = '.pad %d' % it['n']
    elif k == 'count':
        head = '.count %d %d' % (names.id(it['name']), it['w'])
    elif k == 'struct':
        head = '.struct %d (%s)' % (names.id(it['name']), lean_items(it['items'], names, ind + 2))
    elif k == 'array':
        head = '.array %d %s (%s)' % (names.id(it['name']), lean_cnt(it['cnt'], names), lean_items(it['items'], names, ind + 2))
    elif k == 'bytes':
        head = '.bytes %d %s %s' % (names.id(it['name']), lean_cnt(it['cnt'], names), 'true' if it['str'] else 'false')
    elif k == 'greedy':
        if len(items) != 1:
            raise Unsupported('greedy item is not last')
        return '.greedy %d' % names.id(it['name'])
    elif k == 'lenpref':
        head = '.lenPref %d %d (%s)' % (names.id(it['name']), it['w'], lean_items(it['items'], names, ind + 2))
    elif k == 'switch':
        cs = '.fail' if it['dflt'] is None else '(.dflt (%s))' % lean_items(it['dflt'], names, ind + 2)
        for t, body in reversed(it['cases']):
            cs = '(.case %d (%s)\n%s  %s)' % (t, lean_items(body, names, ind + 4), pad, cs)
        head = '.switch %d %d %s' % (names.id(it['name']), names.id(it['tag']), cs)
    else:
        raise ValueError(k)
    return '%s <|\n%s%s' % (head, pad, rest)


def lean_ext(spec):
    if spec[0] == 'timestamp':
        return '.timestamp'
    _, signed, sentinel, dmul, dk, emul, ek, clamp = spec
    return ('.scaled { signed := %s, sentinel := %s, decMul := %s, decK := %s, encMul := %s, encK := %s, clamp := %s }' % (
        'true' if signed else 'false', 'none' if sentinel is None else 'some %s' % lean_int(sentinel),
        'true' if dmul else 'false', lean_float(dk), 'true' if emul else 'false', lean_float(ek),
        'none' if clamp is None else 'some (%s, %s)' % (lean_int(clamp[0]), lean_int(clamp[1]))))


def lean_name(n):
    return 'L_' + re.sub(r'[^A-Za-z0-9]', '_', n)


def emit(layouts, ext):
    names = Names()
    out = ['/- GENERATED by tools/c01_py_extract.py from the working tree of the repository; regenerated on every run. -/',
           'import FeVerif.Model.LayoutExt', '', 'namespace FeVerif', 'namespace Lay', 'namespace Gen', '']
    out.append('def extTable : List ExtSpec := [')
    out.append(',\n'.join('  ' + lean_ext(s) for s in ext.specs))
    out.append(']')
    out.append('')
    order = sorted(layouts)
    for n in order:
        out.append('def %s : Layout :=\n  %s' % (lean_name(n), lean_items(layouts[n], names, 2)))
        out.append('')
    out.append('def allLayouts : List (String × Layout) := [')
    out.append(',\n'.join('  ("%s", %s)' % (n, lean_name(n)) for n in order))
    out.append(']')
    out.append('')
    out.append('/-- field / count / tag names by id (documentation; the driver prints positional value trees) -/')
    out.append('def nameTable : List (Nat × String) := [')
    out.append(',\n'.join('  (%d, "%s")' % (i, n) for n, i in sorted(names.ids.items(), key=lambda x: x[1])))
    out.append(']')
    out += ['', 'end Gen', 'end Lay', 'end FeVerif', '']
    return '\n'.join(out)


def write_if_changed(path, text):
    if os.path.exists(path) and open(path).read() == text:
        return False
    os.makedirs(os.path.dirname(path), exist_ok=True)
    tmp = path + '.tmp%d' % os.getpid()
    with open(tmp, 'w') as f:
        f.write(text)
    os.replace(tmp, path)
    return True


def validate_against_source(layouts):
    """The translator is trusted only as a reader: cross-check the sizes of every fixed-size descriptor against
    what the class itself reports (struct.calcsize / construct sizeof via calcsize())."""
    from fusion_engine_client.messages import message_type_to_class
    probs = []
    classes = {c.__name__: c for c in message_type_to_class.values()}
    for n, items in layouts.items():
        s = static_size(items)
        if s is None or n not in classes:
            continue
        try:
            cs = classes[n]().calcsize()
        except Exception:
            continue
        if cs != s:
            probs.append('%s: descriptor has %d bytes, calcsize() says %d' % (n, s, cs))
    return probs


def static_size(items):
    tot = 0
    for it in items:
        k = it['k']
        if k in ('field', 'count'):
            tot += it['w']
        elif k == 'pad':
            tot += it['n']
        elif k == 'struct':
            s = static_size(it['items'])
            if s is None:
                return None
            tot += s
        elif k == 'array':
            s = static_size(it['items'])
            if s is None or it['cnt'][0] != 'fixed':
                return None
            tot += s * it['cnt'][1]
        elif k == 'bytes':
            if it['cnt'][0] != 'fixed':
                return None
            tot += it['cnt'][1]
        else:
            return None
    return tot


if __name__ == '__main__':
    import sys
    import logging
    logging.disable(logging.CRITICAL)
    L, E, N = extract()
    txt = emit(L, E)
    if len(sys.argv) > 1:
        print(write_if_changed(sys.argv[1], txt))
    else:
        print(txt)
    for n in N:
        print('note:', n, file=sys.stderr)
    for p in validate_against_source(L):
        print('MISMATCH:', p, file=sys.stderr)
    print(len(L), 'layouts', file=sys.stderr)
