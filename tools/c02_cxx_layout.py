"""C02 translator: C++ packed-struct layouts, as laid out by the compiler.

Reads `src/point_one/fusion_engine/messages/*.h` of the tree under FE_REPO for every
`struct P1_ALIGNAS(4) X [: public MessagePayload] { ... }` block, finds the non-static data members (name,
declared type, array extents, bit-field width), then EMITS a C++ probe program that includes the real headers
and prints, from the compiler: sizeof / alignof of every struct, offsetof / sizeof / kind / array extent of every
member, the index of the struct a class-typed member refers to, and MESSAGE_TYPE where the struct has one.
The parser contributes names only; every number and every kind comes from the compiler (type traits on
`decltype(S::m)`).  The probe checks at run time that the members found tile [0, sizeof) without gap or
overlap; a gap means the parser missed a member or the compiler inserted padding.

Outputs:
  <lean>/FeVerif/Generated/C02CxxLayout.lean   (rewritten only when its content changes)
  <build>/c02_cxx_layout.json                  (same table for the Python side)

Can be run stand-alone:  python tools/c02_cxx_layout.py [--compilers g++,clang++]
Exit code 0 ok, 2 a struct could not be read / the probe did not build.
"""
import hashlib
import json
import os
import re
import subprocess
import sys

HEADER_DIR = 'src/point_one/fusion_engine/messages'
LEAN_REL = os.path.join('FeVerif', 'Generated', 'C02CxxLayout.lean')
LEAN_CHECKS_REL = os.path.join('FeVerif', 'Generated', 'C02CxxChecks.lean')
KINDS = ['u', 'i', 'f', 'bool', 'enum', 'struct', 'array', 'bytes']


class LayoutError(Exception):
    """The headers could not be read / the probe could not be built. `.header` names the file when known."""

    def __init__(self, msg, header=None):
        Exception.__init__(self, msg)
        self.header = header


# ---------------------------------------------------------------------------------------------------------
# reading the headers
# ---------------------------------------------------------------------------------------------------------
def documented_payload_formats(repo, header, enum_name):
    """{enumerator value: (enumerator name, text after "Payload format:" in its doc comment or None)} for one
    `enum class` of a header: the C++ side's statement of what follows the fixed part for each type tag."""
    try:
        raw = open(os.path.join(repo, HEADER_DIR, header)).read()
    except OSError:
        return {}
    m = re.search(r'enum\s+class\s+%s\b[^{;]*\{' % re.escape(enum_name), raw)
    if not m:
        return {}
    end = raw.find('};', m.end())
    out, fmt = {}, None
    for line in raw[m.end():end if end >= 0 else len(raw)].splitlines():
        mm = re.search(r'Payload format:\s*(.*)$', line)
        if mm:
            fmt = mm.group(1).strip()
            continue
        mm = re.match(r'\s*([A-Za-z_][A-Za-z0-9_]*)\s*=\s*(0x[0-9a-fA-F]+|\d+)\s*,?\s*(//.*)?$', line)
        if mm:
            out[int(mm.group(2), 0)] = (mm.group(1), fmt)
            fmt = None
    return out


_SCALAR_FORMATS = {'bool': ('bool', 1), 'float': ('f', 4), 'double': ('f', 8), 'char': ('char', 1)}


def resolve_payload_format(fmt, table):
    """(kind, size in bytes, type name) of a documented payload format, with every struct / enum size taken from the
    compiler's table; None when the text names nothing whose size is known. kind: u i f bool char enum struct none."""
    if not fmt:
        return None
    if re.match(r'none\b', fmt):
        return ('none', 0, 'none')
    m = re.match(r'`(u?)int(8|16|32|64)_t`', fmt)
    if m:
        return ('u' if m.group(1) else 'i', int(m.group(2)) // 8, m.group(0).strip('`'))
    m = re.match(r'`(bool|float|double)`', fmt)
    if m:
        k, w = _SCALAR_FORMATS[m.group(1)]
        return (k, w, m.group(1))
    m = re.match(r'`char\[(\d+)\]`', fmt)
    if m:
        return ('char', int(m.group(1)), 'char[%s]' % m.group(1))
    m = re.match(r'@ref\s+(\w+)', fmt) or re.match(r'`(\w+)`', fmt)
    if m:
        name = m.group(1)
        if name in table:
            return ('struct', table[name]['sizeof'], name)
        for s in table.values():
            for mem in s['members']:
                if mem.get('tname') == name and mem.get('elem_kind') == 'enum':
                    return ('enum', mem['elem_size'], name)
    return None


def strip_comments(s):
    out = []
    i, n = 0, len(s)
    while i < n:
        c = s[i]
        if s.startswith('//', i):
            while i < n and s[i] != '\n':
                i += 1
        elif s.startswith('/*', i):
            j = s.find('*/', i + 2)
            if j < 0:
                raise LayoutError('unterminated comment')
            out.append('\n' * s.count('\n', i, j))
            i = j + 2
        elif c == '"' or c == "'":
            j = i + 1
            while j < n and s[j] != c:
                j += 2 if s[j] == '\\' else 1
            out.append(c + c)          # literals never matter for the layout
            i = j + 1
        else:
            out.append(c)
            i += 1
    return ''.join(out)


def preprocess(s, header):
    """Resolve the few conditionals that occur in the headers for a GCC/Clang build. Only `_MSC_VER` (undefined)
    may be tested inside a struct; other directives (#include, #pragma, include guards) are dropped."""
    out = []
    stack = []      # (taking, known)
    for line in s.split('\n'):
        m = re.match(r'\s*#\s*(\w+)\s*(.*)$', line)
        if not m:
            out.append(line if all(t for t, _ in stack) else '')
            continue
        d, rest = m.group(1), m.group(2).strip()
        if d in ('if', 'ifdef', 'ifndef'):
            if d == 'if' and re.fullmatch(r'defined\s*\(\s*_MSC_VER\s*\)', rest):
                stack.append((False, True))
            elif d == 'if' and re.fullmatch(r'!\s*defined\s*\(\s*_MSC_VER\s*\)', rest):
                stack.append((True, True))
            elif d == 'ifdef' and rest == '_MSC_VER':
                stack.append((False, True))
            elif d == 'ifndef' and rest == '_MSC_VER':
                stack.append((True, True))
            else:
                stack.append((True, False))     # unknown condition: keep the text, remember that we guessed
        elif d in ('else', 'elif'):
            if not stack:
                raise LayoutError('#%s without #if' % d, header)
            t, k = stack.pop()
            stack.append((not t if k else True, k))
        elif d == 'endif':
            if not stack:
                raise LayoutError('#endif without #if', header)
            stack.pop()
        out.append('')
    return '\n'.join(out), None


def match_brace(s, i):
    """s[i] == '{' -> index just past the matching '}'."""
    d = 0
    n = len(s)
    while i < n:
        if s[i] == '{':
            d += 1
        elif s[i] == '}':
            d -= 1
            if d == 0:
                return i + 1
        i += 1
    raise LayoutError('unbalanced braces')


def unknown_conditionals_in(raw, start_line, end_line):
    """True if the raw header has a conditional other than on _MSC_VER between the given lines."""
    for ln, line in enumerate(raw.split('\n'), 1):
        if start_line <= ln <= end_line:
            m = re.match(r'\s*#\s*(if|ifdef|ifndef|elif)\b(.*)$', line)
            if m and '_MSC_VER' not in m.group(2):
                return True
    return False


_MEMBER = re.compile(r'^(?:(?:const|volatile|mutable)\s+)*'
                     r'(?P<type>(?:unsigned\s+|signed\s+)?[A-Za-z_][\w:]*(?:\s*<[^;{}=]*>)?)\s+'
                     r'(?P<name>[A-Za-z_]\w*)\s*'
                     r'(?P<arr>(?:\[[^\]]*\]\s*)*)'
                     r'(?::\s*(?P<bits>\d+)\s*)?'
                     r'(?P<init>=.*|\{.*\})?$', re.S)


def function_like(text):
    """A declaration with a parameter list before any initialiser (function, constructor, operator)."""
    t = re.sub(r'\boperator\s*(\(\s*\)|[^\s(\w]+)', 'operator_X', text)
    paren_pos = t.find('(')
    eq_pos = t.find('=')
    return paren_pos >= 0 and (eq_pos < 0 or paren_pos < eq_pos)


def split_statements(body, header, sname):
    """Split a struct body into top-level statements; function bodies / nested type bodies are skipped."""
    stmts = []
    i, n = 0, len(body)
    cur = []
    while i < n:
        c = body[i]
        if c == ';':
            stmts.append(''.join(cur).strip())
            cur = []
            i += 1
        elif c == '{':
            j = match_brace(body, i)
            text = ''.join(cur)
            head = text.strip()
            is_type = re.match(r'^(enum|struct|class|union)\b', head) is not None
            is_func = function_like(text)
            if is_type:
                cur.append(' {} ')           # nested type definition: ends at the following ';'
                i = j
            elif is_func:
                prev = text.rstrip()
                word = re.search(r'(\w+)$', prev)
                body_brace = prev.endswith(')') or prev.endswith('}') or \
                    (word is not None and word.group(1) in ('const', 'noexcept', 'override', 'final'))
                i = j
                if body_brace:
                    cur = []                  # a function definition: no data member
                    if body[i:i + 1] == ';':
                        i += 1
                else:
                    cur.append('{}')          # member initialiser of a constructor
            else:
                cur.append('{}')              # brace initialiser of a data member
                i = j
        elif c == ':' and ''.join(cur).strip() in ('public', 'private', 'protected'):
            cur = []
            i += 1
        else:
            cur.append(c)
            i += 1
    if ''.join(cur).strip():
        raise LayoutError('%s: trailing text in struct body: %r' % (sname, ''.join(cur).strip()[:60]), header)
    return [s for s in stmts if s]


def parse_struct_body(body, header, sname):
    members = []
    has_type = False
    for st in split_statements(body, header, sname):
        st1 = ' '.join(st.split())
        if re.match(r'^(static|using|typedef|friend|template|enum|struct|class|union)\b', st1):
            if re.match(r'^static\b.*\bMESSAGE_TYPE\b', st1):
                has_type = True
            if re.match(r'^(struct|class|union)\b.*\{\}\s*\w', st1):
                raise LayoutError('%s: member of an anonymous/inline type is not supported: %r' % (sname, st1[:60]),
                                  header)
            continue
        if function_like(st1):
            continue                          # function declaration / defaulted constructor
        m = _MEMBER.match(st1)
        if not m:
            raise LayoutError('%s: cannot read member declaration %r' % (sname, st1[:80]), header)
        arr = re.findall(r'\[([^\]]*)\]', m.group('arr') or '')
        members.append({'name': m.group('name'), 'tname': ' '.join(m.group('type').split()),
                        'extents': arr, 'bits': int(m.group('bits')) if m.group('bits') else 0})
    return members, has_type


def parse_header(path):
    header = os.path.basename(path)
    raw = open(path).read()
    try:
        text, _ = preprocess(strip_comments(raw), header)
    except LayoutError as e:
        raise LayoutError(str(e), header)
    structs = []
    # walk the text keeping track of namespaces
    i, n = 0, len(text)
    stack = []           # entries: namespace name or None for another block
    rx_ns = re.compile(r'namespace\s+(\w+)\s*\{')
    rx_st = re.compile(r'struct\s+P1_ALIGNAS\s*\(\s*(\d+)\s*\)\s+(\w+)\s*(?::\s*public\s+([\w:]+)\s*)?\{')
    rx_any_alignas = re.compile(r'P1_ALIGNAS')
    while i < n:
        c = text[i]
        if c == '{':
            stack.append(None)
            i += 1
        elif c == '}':
            if not stack:
                raise LayoutError('unbalanced braces at top level', header)
            stack.pop()
            i += 1
        else:
            m = rx_ns.match(text, i)
            if m and (i == 0 or not (text[i - 1].isalnum() or text[i - 1] == '_')):
                stack.append(m.group(1))
                i = m.end()
                continue
            m = rx_st.match(text, i)
            if m and (i == 0 or not (text[i - 1].isalnum() or text[i - 1] == '_')):
                if any(s is None for s in stack):
                    raise LayoutError('struct %s is declared inside another block' % m.group(2), header)
                end = match_brace(text, m.end() - 1)
                body = text[m.end():end - 1]
                line0 = text.count('\n', 0, m.start()) + 1
                line1 = text.count('\n', 0, end) + 1
                if unknown_conditionals_in(raw, line0, line1):
                    raise LayoutError('struct %s contains a preprocessor conditional this reader does not know'
                                      % m.group(2), header)
                members, has_type = parse_struct_body(body, header, m.group(2))
                ns = [s for s in stack if s]
                structs.append({'name': m.group(2), 'ns': ns, 'qual': '::'.join(ns + [m.group(2)]),
                                'header': header, 'line': line0, 'alignas': int(m.group(1)),
                                'base': m.group(3), 'has_message_type': has_type,
                                'has_message_version': bool(re.search(r'\bstatic\b[^;{}]*\bMESSAGE_VERSION\b', body)),
                                'members': members})
                i = end
                continue
            i += 1
    # every P1_ALIGNAS occurrence must have been recognised as a struct (otherwise the reader missed one)
    found = len(rx_any_alignas.findall(text))
    if found != len(structs):
        raise LayoutError('%d occurrences of P1_ALIGNAS but %d structs read' % (found, len(structs)), header)
    return structs, hashlib.sha256(' '.join(text.split()).encode()).hexdigest()[:16]


def read_headers(repo):
    d = os.path.join(repo, HEADER_DIR)
    if not os.path.isdir(d):
        raise LayoutError('no header directory %s' % d)
    structs, hashes = [], {}
    for f in sorted(os.listdir(d)):
        if f.endswith('.h'):
            ss, h = parse_header(os.path.join(d, f))
            hashes[f] = h
            structs += ss
    # unique key: the name, prefixed by the innermost namespace when the bare name is ambiguous
    count = {}
    for s in structs:
        count[s['name']] = count.get(s['name'], 0) + 1
    common = ['point_one', 'fusion_engine', 'messages']
    for s in structs:
        extra = s['ns'][len(common):] if s['ns'][:len(common)] == common else s['ns']
        s['key'] = '::'.join(extra + [s['name']]) if (count[s['name']] > 1 and extra) else s['name']
    keys = [s['key'] for s in structs]
    if len(set(keys)) != len(keys):
        raise LayoutError('duplicate struct keys: %s' % sorted(k for k in keys if keys.count(k) > 1))
    return structs, hashes


# ---------------------------------------------------------------------------------------------------------
# the probe program
# ---------------------------------------------------------------------------------------------------------
PROBE_PRELUDE = r'''
// GENERATED by tools/c02_cxx_layout.py -- prints the compiler's layout of the packed structs.
#include <cstddef>
#include <cstdint>
#include <cstdio>
#include <cstring>
#include <new>
#include <type_traits>
%(includes)s

#if defined(__GNUC__)
#  pragma GCC diagnostic ignored "-Winvalid-offsetof"
#  pragma GCC diagnostic ignored "-Wclass-memaccess"
#endif

template <class T> struct elem_of { typedef typename std::remove_all_extents<T>::type type; };
template <class T, bool E = std::is_enum<T>::value> struct under { typedef T type; };
template <class T> struct under<T, true> { typedef typename std::underlying_type<T>::type type; };

// kind of an element type: 0 u, 1 i, 2 f, 3 bool, 4 enum(unsigned underlying), 5 struct, 9 enum(signed underlying), -1 other
template <class T> constexpr int kind_of() {
  return std::is_same<T, bool>::value ? 3
       : std::is_enum<T>::value ? (std::is_signed<typename under<T>::type>::value ? 9 : 4)
       : std::is_floating_point<T>::value ? 2
       : std::is_integral<T>::value ? (std::is_signed<T>::value ? 1 : 0)
       : std::is_class<T>::value ? 5 : -1;
}
template <class T> constexpr long total_extent() {
  return std::is_array<T>::value ? (long)(sizeof(T) / sizeof(typename elem_of<T>::type)) : 0L;
}
template <class T> constexpr int struct_index() {
  return %(struct_index_chain)s;
}
#define MEMBER(S, m) do { typedef decltype(S::m) MT; typedef elem_of<MT>::type ET; \
    printf("member %%s offset=%%ld size=%%ld kind=%%d elem=%%ld extent=%%ld rank=%%d sub=%%d bits=0\n", #m, \
           (long)offsetof(S, m), (long)sizeof(S::m), kind_of<ET>(), (long)sizeof(ET), total_extent<MT>(), \
           (int)std::rank<MT>::value, std::is_class<ET>::value ? struct_index<ET>() : -1); } while (0)
// A bit-field has no offsetof/sizeof: zero the object, set every bit of the field, look at the bytes.
#define BITFIELD(S, m, declared_bits) do { typedef decltype(S::m) MT; \
    static_assert(std::is_integral<MT>::value && !std::is_same<MT, bool>::value, "bit-field of non-integer type"); \
    alignas(16) unsigned char raw[sizeof(S)]; S* o = new (raw) S(); memset((void*)raw, 0, sizeof(S)); \
    o->m = (MT)~(MT)0; long first = -1, last = -1, nbits = 0; \
    for (long b = 0; b < (long)sizeof(S); ++b) { if (raw[b]) { if (first < 0) first = b; last = b; \
        for (int k = 0; k < 8; ++k) nbits += (raw[b] >> k) & 1; } } \
    int whole = (first >= 0 && nbits == 8 * (last - first + 1) && nbits == declared_bits) ? 1 : 0; \
    printf("member %%s offset=%%ld size=%%ld kind=%%d elem=%%ld extent=0 rank=0 sub=-1 bits=%%ld whole=%%d\n", #m, \
           first, last - first + 1, kind_of<MT>(), last - first + 1, nbits, whole); } while (0)
'''


def emit_probe(structs, path):
    includes = '\n'.join('#include "point_one/fusion_engine/messages/%s"' % h
                         for h in sorted(set(s['header'] for s in structs)))
    chain = ' : '.join('std::is_same<T, ::%s>::value ? %d' % (s['qual'], k) for k, s in enumerate(structs))
    chain = (chain + ' : -1') if chain else '-1'
    out = [PROBE_PRELUDE % {'includes': includes, 'struct_index_chain': chain}]
    out.append('int main() {')
    for k, s in enumerate(structs):
        q = '::' + s['qual']
        out.append('  {')
        out.append('    typedef %s S;' % q)
        out.append('    static_assert(std::is_standard_layout<S>::value, "%s is not standard layout");' % s['key'])
        mt = '(long)S::MESSAGE_TYPE' if s['has_message_type'] else '-1L'
        mv = '(long)S::MESSAGE_VERSION' if s.get('has_message_version') else '-1L'
        out.append('    printf("struct %d sizeof=%%ld alignof=%%ld message_type=%%ld empty_base=%%d message_version=%%ld\\n", '
                   '(long)sizeof(S), (long)alignof(S), %s, %d, %s);' % (k, mt, 1 if s['base'] else 0, mv))
        if s['base']:
            for j in range(1, len(s['ns']) + 1):
                out.append('    using namespace ::%s;' % '::'.join(s['ns'][:j]))
            out.append('    static_assert(std::is_empty<%s>::value, "base class of %s has data members");'
                       % (s['base'], s['key']))
            out.append('    static_assert(std::is_base_of<%s, S>::value, "base class of %s");' % (s['base'], s['key']))
        for m in s['members']:
            if m['bits']:
                out.append('    BITFIELD(S, %s, %d);' % (m['name'], m['bits']))
            else:
                out.append('    MEMBER(S, %s);' % m['name'])
        out.append('  }')
    out.append('  return 0;\n}')
    with open(path, 'w') as f:
        f.write('\n'.join(out) + '\n')


def run_probe(repo, build, structs, compiler):
    os.makedirs(build, exist_ok=True)
    tag = re.sub(r'\W', '_', compiler)
    src = os.path.join(build, 'c02_probe.cc')
    exe = os.path.join(build, 'c02_probe_' + tag)
    emit_probe(structs, src)
    cmd = [compiler, '-std=c++14', '-O0', '-w', '-I', os.path.join(repo, 'src'), src, '-o', exe]
    p = subprocess.run(cmd, stdout=subprocess.PIPE, stderr=subprocess.STDOUT, text=True, timeout=600)
    if p.returncode != 0:
        raise LayoutError('probe does not compile with %s:\n%s' % (compiler, p.stdout[-3000:]))
    p = subprocess.run([exe], stdout=subprocess.PIPE, stderr=subprocess.STDOUT, text=True, timeout=60)
    if p.returncode != 0:
        raise LayoutError('probe built with %s failed: %s' % (compiler, p.stdout[-1000:]))
    return parse_probe_output(structs, p.stdout)


def parse_probe_output(structs, text):
    res = []
    cur = None
    for line in text.split('\n'):
        if not line.strip():
            continue
        w = line.split()
        kv = dict(x.split('=') for x in w[2:])
        if w[0] == 'struct':
            s = structs[int(w[1])]
            mt = int(kv['message_type'])
            mv = int(kv.get('message_version', -1))
            cur = {'key': s['key'], 'name': s['name'], 'qual': s['qual'], 'header': s['header'],
                   'sizeof': int(kv['sizeof']), 'alignof': int(kv['alignof']),
                   'message_type': None if mt < 0 else mt, 'message_version': None if mv < 0 else mv,
                   'payload': bool(s['base']), 'members': []}
            res.append(cur)
        elif w[0] == 'member':
            decl = [m for m in structs[len(res) - 1]['members'] if m['name'] == w[1]][0]
            k = int(kv['kind'])
            if k < 0:
                raise LayoutError('%s.%s has a type the probe cannot classify' % (cur['key'], w[1]), cur['header'])
            ekind = {0: 'u', 1: 'i', 2: 'f', 3: 'bool', 4: 'enum', 9: 'enum', 5: 'struct'}[k]
            extent = int(kv['extent'])
            bits = int(kv['bits'])
            if bits and kv.get('whole') != '1':
                raise LayoutError('%s.%s: bit-field does not occupy whole bytes (%s bits)' % (cur['key'], w[1], bits),
                                  cur['header'])
            sub = int(kv['sub'])
            if ekind == 'struct' and sub < 0:
                raise LayoutError('%s.%s is of a class type that is not one of the packed structs (%s)'
                                  % (cur['key'], w[1], decl['tname']), cur['header'])
            if extent == 0:
                kind = ekind
            elif ekind == 'u' and int(kv['elem']) == 1:
                kind = 'bytes'
            else:
                kind = 'array'
            cur['members'].append({'name': w[1], 'offset': int(kv['offset']), 'size': int(kv['size']),
                                   'kind': kind, 'elem_kind': ekind, 'elem_size': int(kv['elem']),
                                   'array_len': extent, 'rank': int(kv['rank']),
                                   'enum_signed': k == 9, 'tname': decl['tname'],
                                   'sub': structs[sub]['key'] if sub >= 0 else None, 'bits': bits})
    if len(res) != len(structs):
        raise LayoutError('probe printed %d structs, expected %d' % (len(res), len(structs)))
    return res


def tiling_problems(layout):
    """Members sorted by offset must cover [0, sizeof) exactly. Returns a list of (struct key, text)."""
    bad = []
    for s in layout:
        pos = 0
        for m in sorted(s['members'], key=lambda m: (m['offset'], m['size'])):
            if m['offset'] != pos:
                bad.append((s['key'], '%s: %s at %d, expected the next member at %d' %
                            (s['key'], 'gap before' if m['offset'] > pos else 'overlap at', m['offset'], pos)))
            pos = max(pos, m['offset'] + m['size'])
        if pos != s['sizeof']:
            bad.append((s['key'], '%s: members end at %d but sizeof is %d' % (s['key'], pos, s['sizeof'])))
    return bad


# ---------------------------------------------------------------------------------------------------------
# output
# ---------------------------------------------------------------------------------------------------------
def name_code(name):
    return int.from_bytes(name.encode('utf-8'), 'big')


def lean_text(layout, hashes):
    L = ['/-',
         'GENERATED by tools/c02_cxx_layout.py from src/point_one/fusion_engine/messages/*.h -- do not edit.',
         'Every number is printed by a probe program compiled with the real headers (g++ -std=c++14).',
         'Names are Nat codes (big-endian value of the UTF-8 bytes); the readable name is in the comment.',
         'Header digests (comments and white space removed):']
    for h in sorted(hashes):
        L.append('  %s %s' % (h, hashes[h]))
    L += ['-/', 'import FeVerif.Model.FixedLayout', '', 'namespace FeVerif.C02Gen', 'open FeVerif.FixedLayout', '']
    names = []
    for k, s in enumerate(layout):
        ident = struct_ident(k, s)
        names.append(ident)
        L.append('/-- `%s` (%s:%s) -/' % (s['qual'], s['header'], 'payload' if s['payload'] else 'sub-structure'))
        L.append('def %s : CxxStruct :=' % ident)
        L.append('  { name := %d, sizeof := %d, alignof := %d, msgType := %s,' %
                 (name_code(s['key']), s['sizeof'], s['alignof'],
                  'none' if s['message_type'] is None else 'some %d' % s['message_type']))
        L.append('    members := [')
        ms = []
        for m in s['members']:
            ms.append('      ⟨%d, %d, %d, .%s, .%s, %d, %d, %d⟩  -- %s%s : %s' %
                      (name_code(m['name']), m['offset'], m['size'], kname(m['kind']), kname(m['elem_kind']),
                       m['elem_size'], m['array_len'], name_code(m['sub']) if m['sub'] else 0,
                       m['name'], '[%d]' % m['array_len'] if m['array_len'] else '', m['tname']))
        # the trailing comment must stay on the line of its entry, so the separator goes before the comment
        for j, line in enumerate(ms):
            code, _, comment = line.partition('  -- ')
            L.append(code + (',' if j + 1 < len(ms) else '') + '  -- ' + comment)
        L.append('    ] }')
        L.append('')
    L.append('def cxxStructs : List CxxStruct :=')
    L.append('  [' + ',\n   '.join(names) + ']')
    L.append('')
    L.append('/-- Readable names for the driver and for reports (not used by any theorem). -/')
    L.append('def cxxStructNames : List (Nat × String) :=')
    L.append('  [' + ',\n   '.join('(%d, "%s")' % (name_code(s['key']), s['key']) for s in layout) + ']')
    L.append('')
    L.append('end FeVerif.C02Gen')
    return '\n'.join(L) + '\n'


def struct_ident(k, s):
    return 's%02d_%s' % (k, re.sub(r'\W', '_', s['key']))


def lean_checks_text(layout):
    """One `decide` per struct and per fact (so that a failure names the struct), then the assembled ∀."""
    L = ['/-',
         'GENERATED by tools/c02_cxx_layout.py -- do not edit.  Per-struct facts about Generated/C02CxxLayout.lean,',
         'each decided by kernel evaluation of a Bool-valued checker over that one table entry:',
         '  packedB  : members tile [0, sizeof) in table order, sizeof % 4 = 0, alignof = 4',
         '  shapesB  : extents x element sizes multiply out; struct-typed members have the size of the struct they name',
         '  flatB    : the flattened (leaf) member list exists and tiles [0, sizeof) as well',
         '  floatsAlignedB : every float/double leaf starts at a multiple of 4 (README, Message Packing)',
         '-/', 'import FeVerif.Generated.C02CxxLayout', '', 'namespace FeVerif.C02Gen', 'open FeVerif.FixedLayout', '',
         'theorem allNil {p : CxxStruct → Prop} : ∀ s ∈ ([] : List CxxStruct), p s := fun _ h => nomatch h',
         'theorem allCons {p : CxxStruct → Prop} {a : CxxStruct} {l : List CxxStruct} (h : p a) (t : ∀ s ∈ l, p s) :',
         '    ∀ s ∈ a :: l, p s := fun s hs => by',
         '  rcases List.mem_cons.1 hs with rfl | hs',
         '  · exact h',
         '  · exact t s hs', '']
    idents = [struct_ident(k, s) for k, s in enumerate(layout)]
    for ident in idents:
        L.append('theorem %s_packed : packedB %s = true := by decide' % (ident, ident))
        L.append('theorem %s_shapes : shapesB cxxStructs %s = true := by decide' % (ident, ident))
        L.append('theorem %s_flat : flatB cxxStructs %s = true := by decide' % (ident, ident))
        L.append('theorem %s_falign : floatsAlignedB cxxStructs %s = true := by decide' % (ident, ident))
    L.append('')
    for suffix, stmt in (('packed', 'packedB s = true'), ('shapes', 'shapesB cxxStructs s = true'),
                         ('flat', 'flatB cxxStructs s = true'), ('falign', 'floatsAlignedB cxxStructs s = true')):
        L.append('theorem all_%s : ∀ s ∈ cxxStructs, %s :=' % (suffix, stmt))
        L.append('  ' + ' <| '.join('allCons %s_%s' % (i, suffix) for i in idents) + (' <| ' if idents else '') + 'allNil')
        L.append('')
    L.append('theorem keys_distinct : keysDistinctB cxxStructs = true := by decide')
    L.append('')
    L.append('end FeVerif.C02Gen')
    return '\n'.join(L) + '\n'


def kname(k):
    return {'u': 'u', 'i': 'i', 'f': 'f', 'bool': 'bool', 'enum': 'enum', 'struct': 'struct', 'array': 'array',
            'bytes': 'bytes'}[k]


def write_if_changed(path, text):
    os.makedirs(os.path.dirname(path), exist_ok=True)
    if os.path.exists(path) and open(path).read() == text:
        return False
    tmp = path + '.tmp%d' % os.getpid()
    with open(tmp, 'w') as f:
        f.write(text)
    os.replace(tmp, path)
    return True


def snapshot_hashes(lean_dir):
    """Header digests recorded in the committed snapshot of the generated file."""
    path = os.path.join(lean_dir, LEAN_REL)
    res = {}
    if os.path.exists(path):
        for line in open(path):
            m = re.match(r'^  (\w+\.h) ([0-9a-f]{16})$', line.rstrip('\n'))
            if m:
                res[m.group(1)] = m.group(2)
            if line.startswith('-/'):
                break
    return res


def generate(repo, build, lean_dir, compilers=('g++',), write=True):
    """Returns {'structs': layout, 'hashes': .., 'tiling': [(key, text)], 'lean_changed': bool, 'compilers': [...]}.
    Raises LayoutError when the headers cannot be read or the probe does not build."""
    structs, hashes = read_headers(repo)
    if not structs:
        raise LayoutError('no P1_ALIGNAS structs found under %s' % os.path.join(repo, HEADER_DIR))
    layout = None
    diffs = []
    for c in compilers:
        lay = run_probe(repo, build, structs, c)
        if layout is None:
            layout = lay
        elif json.dumps(lay, sort_keys=True) != json.dumps(layout, sort_keys=True):
            for a, b in zip(layout, lay):
                if a != b:
                    diffs.append('%s: %s and %s disagree on the layout' % (a['key'], compilers[0], c))
    res = {'structs': layout, 'hashes': hashes, 'tiling': tiling_problems(layout), 'compiler_differences': diffs,
           'compilers': list(compilers), 'lean_changed': False}
    if write:
        res['lean_changed'] = write_if_changed(os.path.join(lean_dir, LEAN_REL), lean_text(layout, hashes))
        res['lean_changed'] |= write_if_changed(os.path.join(lean_dir, LEAN_CHECKS_REL), lean_checks_text(layout))
        with open(os.path.join(build, 'c02_cxx_layout.json'), 'w') as f:
            json.dump({'structs': layout, 'hashes': hashes}, f, indent=1)
    return res


def main():
    import argparse
    here = os.path.dirname(os.path.dirname(os.path.abspath(__file__)))
    ap = argparse.ArgumentParser()
    ap.add_argument('--compilers', default='g++')
    ap.add_argument('--no-write', action='store_true')
    a = ap.parse_args()
    repo = os.environ.get('FE_REPO', '/repo')
    lean = os.environ.get('FE_LEAN', os.path.join(here, 'lean'))
    build = os.environ.get('FE_BUILD', os.path.join(here, 'build'))
    try:
        r = generate(repo, build, lean, tuple(a.compilers.split(',')), write=not a.no_write)
    except LayoutError as e:
        print('c02_cxx_layout: %s%s' % ('%s: ' % e.header if e.header else '', e))
        sys.exit(2)
    for s in r['structs']:
        print('%-36s sizeof=%-4d alignof=%d type=%-6s members=%d' %
              (s['key'], s['sizeof'], s['alignof'], s['message_type'], len(s['members'])))
    for _, t in r['tiling']:
        print('NOT TILED: ' + t)
    for t in r['compiler_differences']:
        print('COMPILERS DIFFER: ' + t)
    print('%d structs; generated file %s' % (len(r['structs']), 'rewritten' if r['lean_changed'] else 'unchanged'))
    sys.exit(2 if (r['tiling'] or r['compiler_differences']) else 0)


if __name__ == '__main__':
    main()
