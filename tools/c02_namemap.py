"""C02 name map: C++ packed struct -> Python counterpart, C++ member -> Python attribute, value codecs.

Hand-written (this is the part of the tie that is *not* derived from either source tree):
  * `subject_for(struct)`   the Python class / construct that (de)serialises one C++ struct: by MESSAGE_TYPE through
                            `MessagePayload.message_type_to_class` for payloads, by the explicit table `SUBSTRUCTS`
                            for sub-structures (Timestamp, MeasurementDetails, SatelliteInfo, InterfaceID, ...);
  * `MEMBERS[struct][member]`  overrides of the default rule "attribute name = member name, codec from the C++ kind":
                            renamed attributes, scaled fixed-point fields, sentinel -> NaN, lengths of variable tails,
                            members the Python class derives from other state, members it deliberately ignores.
Everything a codec claims is checked against the real classes by tools/props/c02.py; a wrong entry here shows up as a
violation, never as a silent pass (an entry cannot make a probe vacuous: every codec must supply patterns that differ
from the base value, and the engine counts and reports members without an effective probe).
"""
import math
import struct

import numpy as np


# ---------------------------------------------------------------------------------------------------------------
# value codecs
# ---------------------------------------------------------------------------------------------------------------
def le(v, w):
    return int(v % (1 << (8 * w))).to_bytes(w, 'little')


class Codec:
    """How one leaf member (or one element of an array member) is probed.
    read : 'value'    unpack must put expect(raw) into the mapped attribute, and change nothing else
           'ignored'  unpack must not change any attribute (reserved bytes, constants, deliberately discarded input)
           'consumed' the member is a length: unpack must consume sizeof + value bytes
    write: 'value'    setting the attribute to expect(raw) must produce exactly raw in the member's bytes
           'zero'     pack always writes zero bytes there
           'const'    pack always writes `self.const`
           'derived'  the bytes are computed from other state of the object; only the read direction is probed
    """
    read = 'value'
    write = 'value'
    note = None
    exact = True            # write direction reproduces the pattern bit-exactly

    def patterns(self, w, rng, current, thorough):
        raise NotImplementedError

    def base(self, w, k, current):
        """Bytes for this member in the base encoding; None = keep what the Python class packed by default."""
        return None

    def expect(self, buf, off, w):
        raise NotImplementedError

    def same(self, got, exp):
        return got == exp

    def to_attr(self, exp, current):
        return exp

    def describe(self):
        return type(self).__name__

    def cxx_kinds(self):
        """C++ element kinds (as classified by the compiler) this codec is a faithful reading of."""
        return ('u', 'i', 'f', 'bool', 'enum')


class Int(Codec):
    def __init__(self, signed, note=None, avoid=()):
        self.signed = signed
        self.note = note
        self.avoid = set(avoid)

    def patterns(self, w, rng, current, thorough):
        ps = [le(1, w), bytes(range(1, w + 1)), le((1 << (8 * w - 1)) + 3, w), le((1 << (8 * w)) - 2, w)]
        for _ in range(4 if thorough else 1):
            ps.append(bytes(rng.randrange(256) for _ in range(w)))
        return [p for p in ps if int.from_bytes(p, 'little') not in self.avoid]

    def base(self, w, k, current):
        v = 3 + (k * 7) % 90
        while v in self.avoid:
            v += 1
        return le(v, w)

    def expect(self, buf, off, w):
        return int.from_bytes(buf[off:off + w], 'little', signed=self.signed)

    def same(self, got, exp):
        return isinstance(got, (int, np.integer)) and not isinstance(got, float) and int(got) == exp

    def to_attr(self, exp, current):
        if isinstance(current, np.integer):
            return type(current)(exp)
        return int(exp)

    def describe(self):
        return 'i' if self.signed else 'u'

    def cxx_kinds(self):
        return ('i',) if self.signed else ('u',)


class Float(Codec):
    def patterns(self, w, rng, current, thorough):
        fmt = '<f' if w == 4 else '<d'
        vals = [1.5, -2.25, 1024.125, float(rng.randrange(-10 ** 6, 10 ** 6)) / 64.0]
        if thorough:
            vals += [float(rng.randrange(-10 ** 6, 10 ** 6)) / 1024.0 for _ in range(3)]
        return [struct.pack(fmt, v) for v in vals]

    def base(self, w, k, current):
        return struct.pack('<f' if w == 4 else '<d', 0.5 * (k + 2))

    def expect(self, buf, off, w):
        return struct.unpack('<f' if w == 4 else '<d', bytes(buf[off:off + w]))[0]

    def same(self, got, exp):
        if not isinstance(got, (float, np.floating)):
            return False
        return (got != got and exp != exp) or float(got) == exp

    def to_attr(self, exp, current):
        return float(exp)

    def describe(self):
        return 'f'

    def cxx_kinds(self):
        return ('f',)


class Bool(Codec):
    """C++ bool / 0-1 flag. Python decodes any non-zero byte as True and writes 1: only 0 and 1 are probed."""

    def __init__(self, note=None):
        self.note = note

    def patterns(self, w, rng, current, thorough):
        return [b'\x01', b'\x00']

    def base(self, w, k, current):
        return b'\x00' if k % 2 else b'\x01'

    def expect(self, buf, off, w):
        return buf[off] != 0

    def same(self, got, exp):
        return isinstance(got, (bool, np.bool_, int, np.integer)) and bool(got) == exp and int(got) in (0, 1)

    def to_attr(self, exp, current):
        return bool(exp)

    def describe(self):
        return 'bool'

    def cxx_kinds(self):
        return ('bool',)


class Enum(Codec):
    """An enum member. Patterns are the values of the Python enum class found on the attribute (so that strict
    conversions do not reject them) plus, where the class converts leniently, arbitrary full-width values."""

    def __init__(self, avoid=(), note=None):
        self.avoid = set(avoid)
        self.note = note

    @staticmethod
    def members(current):
        ms = getattr(type(current), '__members__', None)
        if not ms:
            return []
        return sorted(set(int(v) for n, v in ms.items() if not n.startswith('_U')))

    def patterns(self, w, rng, current, thorough):
        vals = [v for v in self.members(current) if 0 <= v < (1 << (8 * w)) and v not in self.avoid]
        chosen = []
        if vals:
            chosen = [vals[-1], vals[0], vals[len(vals) // 2]]
            rest = [v for v in vals if v not in chosen]
            rng.shuffle(rest)
            chosen += rest[:6 if thorough else 2]
        ps = [le(v, w) for v in dict.fromkeys(chosen)]
        # full-width values that are (probably) not members: accepted only by lenient conversions
        ps += [('maybe-strict', le((1 << (8 * w)) - 3, w)), ('maybe-strict', bytes(range(0x61, 0x61 + w)))]
        return ps

    def expect(self, buf, off, w):
        return int.from_bytes(buf[off:off + w], 'little')

    def same(self, got, exp):
        return isinstance(got, (int, np.integer)) and int(got) == exp

    def to_attr(self, exp, current):
        cls = type(current)
        if hasattr(cls, '__members__'):
            try:
                return cls(exp, raise_on_unrecognized=False)
            except TypeError:
                return cls(exp)
        return int(exp)

    def describe(self):
        return 'enum'

    def cxx_kinds(self):
        return ('enum',)


class Scaled(Codec):
    """Fixed-point / scaled integer exposed as a float (or int) attribute; `nan_raw` is the raw value meaning NaN."""
    exact = True

    def __init__(self, scale, signed, nan_raw=None, lo=None, hi=None, fn=None, integer=False, note=None,
                 write_max=None):
        self.scale, self.signed, self.nan_raw, self.lo, self.hi, self.fn = scale, signed, nan_raw, lo, hi, fn
        self.integer = integer
        self.write_max = write_max          # write direction only for |raw| <= write_max (float arithmetic in pack)
        self.note = note

    def _range(self, w):
        lo = self.lo if self.lo is not None else (-(1 << (8 * w - 1)) if self.signed else 0)
        hi = self.hi if self.hi is not None else ((1 << (8 * w - 1)) - 1 if self.signed else (1 << (8 * w)) - 1)
        return lo, hi

    def patterns(self, w, rng, current, thorough):
        lo, hi = self._range(w)
        cands = [1, int.from_bytes(bytes(range(1, w + 1)), 'little', signed=self.signed), lo + 1, hi - 1,
                 -3 if self.signed else (1 << (8 * w - 1)) + 3]
        cands += [rng.randrange(lo, hi + 1) for _ in range(4 if thorough else 1)]
        vals = [v for v in cands if lo <= v <= hi and v != self.nan_raw]
        ps = [le(v, w) for v in dict.fromkeys(vals)]
        if self.nan_raw is not None:
            ps.append(le(self.nan_raw, w))
        return ps

    def base(self, w, k, current):
        lo, hi = self._range(w)
        v = max(lo, min(hi, 5 + (k * 3) % 60))
        if v == self.nan_raw:
            v += 1
        return le(v, w)

    def expect(self, buf, off, w):
        raw = int.from_bytes(buf[off:off + w], 'little', signed=self.signed)
        if self.nan_raw is not None and raw == self.nan_raw:
            return math.nan
        return self.fn(raw) if self.fn else raw * self.scale

    def same(self, got, exp):
        if self.integer:
            return isinstance(got, (int, np.integer)) and int(got) == exp
        if not isinstance(got, (float, np.floating, int, np.integer)):
            return False
        if exp != exp:
            return got != got
        return abs(float(got) - exp) <= 1e-9 * max(1.0, abs(exp))

    def describe(self):
        return 'scaled(%g%s)' % (self.scale, ', nan=%s' % self.nan_raw if self.nan_raw is not None else '')

    def cxx_kinds(self):
        return ('i',) if self.signed else ('u',)


class TsPart(Codec):
    """One half of a C++ Timestamp {uint32 seconds; uint32 fraction_ns}: Python exposes the single float
    `seconds + fraction_ns * 1e-9` (NaN when either half is 0xFFFFFFFF). Patterns keep the other half at an exactly
    representable value so that no float rounding enters (rounding is C01's subject)."""

    def __init__(self, which):
        self.which = which

    def patterns(self, w, rng, current, thorough):
        if self.which == 'sec':
            vals = [1, 0x04030201, 0x80000003, 0xFFFFFFFE, rng.randrange(1, 1 << 31)]
        else:
            vals = [0, 250000000, 750000000, 125000000, 875000000, 500000000 - 62500000 * rng.randrange(1, 8)]
        return [le(v, 4) for v in dict.fromkeys(vals)]

    def base(self, w, k, current):
        return le(1000 + k, 4) if self.which == 'sec' else le(500000000, 4)

    def expect(self, buf, off, w):
        o = off if self.which == 'sec' else off - 4
        sec, ns = struct.unpack_from('<II', bytes(buf), o)
        if sec == 0xFFFFFFFF or ns == 0xFFFFFFFF:
            return math.nan
        return sec + ns * 1e-9

    def same(self, got, exp):
        return isinstance(got, (float, np.floating)) and ((got != got and exp != exp) or float(got) == exp)

    def describe(self):
        return 'timestamp.' + self.which

    def cxx_kinds(self):
        return ('u',)


class Reserved(Codec):
    """Padding: unpack ignores the bytes, pack writes zeros."""
    read = 'ignored'
    write = 'zero'

    def patterns(self, w, rng, current, thorough):
        ps = [b'\xff' * w, b'\x00' * (w - 1) + b'\x80', b'\x01' + b'\x00' * (w - 1)]
        ps.append(bytes(rng.randrange(1, 256) for _ in range(w)))
        return list(dict.fromkeys(ps))

    def describe(self):
        return 'reserved'

    def cxx_kinds(self):
        return ('u',)


class Const(Codec):
    """Written as a constant by pack, not stored by unpack (MessageHeader sync bytes)."""
    read = 'ignored'
    write = 'const'

    def __init__(self, const):
        self.const = bytes(const)

    def patterns(self, w, rng, current, thorough):
        return [bytes((b ^ 0xFF) for b in self.const), bytes(rng.randrange(256) for _ in range(w))]

    def describe(self):
        return 'const'

    def cxx_kinds(self):
        return ('u',)


class ReadOnlyInt(Int):
    """Stored by unpack, but pack always writes zero (MessageHeader.reserved)."""
    write = 'zero'


class Discarded(TsPart):
    """Read at the right place by the nested class but deliberately discarded afterwards by the message class
    ("Disregard any user-specified P1 timestamps in input data"); still written by pack."""
    read = 'ignored'

    def __init__(self, which, note):
        TsPart.__init__(self, which)
        self.note = note


class RawBytes(Codec):
    """Fixed-size byte array exposed as a bytes object."""

    def patterns(self, w, rng, current, thorough):
        return [bytes(range(1, w + 1)), b'\xff' * w, bytes(rng.randrange(256) for _ in range(w))]

    def base(self, w, k, current):
        return bytes((0x10 + k + j) % 256 for j in range(w))

    def expect(self, buf, off, w):
        return bytes(buf[off:off + w])

    def same(self, got, exp):
        return isinstance(got, (bytes, bytearray)) and bytes(got) == exp

    def describe(self):
        return 'bytes'

    def cxx_kinds(self):
        return ('u',)


class Length(Codec):
    """Length / count of a variable tail. `unit` bytes of tail per count; the attribute is a sequence whose len() is
    the value. `elem(k)` builds the python value of length k, `tail(k)` the bytes that must follow the fixed part.
    `pre`/`post`: bytes of other tails before / after this one (taken from the base encoding by the engine)."""

    def __init__(self, make, tail, unit=1, order=0, max_count=None, note=None):
        self.make, self.tail, self.unit, self.order, self.max_count, self.note = make, tail, unit, order, max_count, note

    def patterns(self, w, rng, current, thorough):
        vals = [1, 3, 2 + rng.randrange(3, 9)]
        if w >= 2:
            vals.append(0x0102)
        if w >= 4 and self.unit == 1:
            vals.append(0x010002)
        if self.max_count:
            vals = [v for v in vals if v <= self.max_count]
        ps = [le(v, w) for v in dict.fromkeys(vals)]
        # every byte of the field must count: announce far more than is present -> must be rejected
        for j in range(w):
            v = 1 << (8 * j)
            if v > 8:
                ps.append(('must-reject', le(v, w)))
        return ps

    def expect(self, buf, off, w):
        return int.from_bytes(buf[off:off + w], 'little')

    def same(self, got, exp):
        try:
            return len(got) == exp
        except TypeError:
            return False

    def to_attr(self, exp, current):
        return self.make(exp)

    def describe(self):
        return 'length(x%d)' % self.unit

    def cxx_kinds(self):
        return ('u',)


class Consumed(Length):
    """A length whose tail the class interprets itself (typed sub-payload): observable only through the number of
    bytes unpack consumes; derived from the sub-payload on pack."""
    read = 'consumed'
    write = 'derived'

    def __init__(self, note=None):
        Length.__init__(self, None, None, note=note)

    def patterns(self, w, rng, current, thorough):
        # ('grow', n): announce n bytes more than the base tail has and append n zero bytes
        ps = [('grow', v) for v in (1, 5, 0x0102)[: (3 if w >= 2 else 2)]]
        for j in range(w):
            v = 1 << (8 * j)
            if v > 8:
                ps.append(('must-reject', le(v, w)))
        return ps

    def describe(self):
        return 'length(consumed)'


class Tag(Codec):
    """Type tag the Python class derives from the type of a sub-object (config_type <- type(config_object))."""

    def __init__(self, values, observe, make, note=None):
        self.values, self.observe, self.make, self.note = values, observe, make, note

    def patterns(self, w, rng, current, thorough):
        return [le(int(v), w) for v in self.values]

    def expect(self, buf, off, w):
        return int.from_bytes(buf[off:off + w], 'little')

    def same(self, got, exp):
        return int(got) == exp

    def to_attr(self, exp, current):
        return self.make(exp)

    def describe(self):
        return 'tag'

    def cxx_kinds(self):
        return ('enum',)


class M:
    """One member override. attr: Python attribute path relative to the object ('' = several / custom);
    shape: for array members the shape of the numpy attribute (row-major) when it is not 1-D."""

    def __init__(self, attr=None, codec=None, shape=None, subtree=None, getter=None, setter=None, note=None,
                 accept_kind=None):
        self.attr, self.codec, self.shape, self.subtree, self.getter, self.setter, self.note = \
            attr, codec, shape, subtree, getter, setter, note
        self.accept_kind = accept_kind      # C++ kind knowingly read through a codec of another kind (documented in `note`)


# ---------------------------------------------------------------------------------------------------------------
# subjects: how to make / unpack / pack the Python counterpart of one struct
# ---------------------------------------------------------------------------------------------------------------
class Subject:
    """pack_into(o, buffer, offset, form): the caller-supplied-buffer call forms of pack() (None when the counterpart has
    none, e.g. construct adapters): form 0 pack(buffer, offset, return_buffer=False), 1 pack(buffer=, offset=,
    return_buffer=True), 2 pack(buffer=, offset=, return_buffer=False); returns what pack() returned.
    unpack_at(buffer, offset, form): unpack() of a message that starts at `offset` of a larger buffer (positional /
    keyword arguments)."""

    def __init__(self, pyname, make, unpack, pack, calcsize=None, make_base=None, accept_tail=True, pack_into=None,
                 unpack_at=None, unpack_version=None, cls=None):
        self.pyname, self.make, self.unpack, self.pack, self.calcsize = pyname, make, unpack, pack, calcsize
        self.make_base = make_base or make
        self.accept_tail = accept_tail
        self.pack_into = pack_into
        self.unpack_at = unpack_at          # unpack_at(buffer, offset, form) -> (object, bytes consumed)
        # unpack_version(buffer, offset, version, form) -> (object, bytes consumed): unpack() told the message version the
        # header carries (what the file readers do); form 0 positional, 1 keywords, 2 keywords in the file readers' order
        self.unpack_version = unpack_version
        self.cls = cls                      # the Python class itself (message payloads: needed to frame / recognise it)


def class_subject(cls, make_base=None, pack_kwargs=None):
    def unpack(buf):
        o = cls()
        n = o.unpack(bytes(buf))
        return o, n

    def pack(o):
        return bytes(o.pack(**(pack_kwargs or {})))

    def calcsize(o):
        return o.calcsize()

    def pack_into(o, buffer, offset, form):
        if form == 0:
            return o.pack(buffer, offset, return_buffer=False)
        return o.pack(buffer=buffer, offset=offset, return_buffer=(form == 1))

    def unpack_at(buffer, offset, form):
        o = cls()
        n = o.unpack(buffer, offset) if form == 0 else o.unpack(buffer=buffer, offset=offset)
        return o, n

    def unpack_version(buffer, offset, version, form):
        o = cls()
        if form == 0:
            n = o.unpack(buffer, offset, version)
        elif form == 1:
            n = o.unpack(buffer, offset, message_version=version)
        else:
            n = o.unpack(buffer=buffer, offset=offset, message_version=version)
        return o, n
    versioned = unpack_version if 'message_version' in getattr(getattr(cls.unpack, '__code__', None), 'co_varnames', ()) else None
    return Subject(cls.__name__, cls, unpack, pack, calcsize, make_base, pack_into=pack_into, unpack_at=unpack_at,
                   unpack_version=versioned, cls=cls)


def adapter_subject(name, adapter, make=None):
    """A construct adapter producing NamedTuples (config payloads, InterfaceID, DataVersion, ...)."""
    def unpack(buf):
        return adapter.parse(bytes(buf)), adapter.sizeof()

    def pack(o):
        return bytes(adapter.build(o))
    return Subject(name, make or adapter.tuple_cls, unpack, pack, lambda o: adapter.sizeof())


def _messages():
    import fusion_engine_client.messages as m
    from fusion_engine_client.messages import configuration as cfg, fault_control as fc, solution as sol
    from fusion_engine_client.messages import measurement_details as md, timestamp as ts, defs
    return m, cfg, fc, sol, md, ts, defs


def substructs():
    """Explicit table: C++ sub-structure -> Python counterpart (thunks: a missing Python name affects one entry only)."""
    m, cfg, fc, sol, md, ts, defs = _messages()
    ct = cfg.ConfigType

    def cm(name):
        return cfg._conf_gen.CONFIG_MAP[getattr(ct, name)]
    return {
        'Timestamp': lambda: class_subject(ts.Timestamp, pack_kwargs={'return_buffer': True}),
        'MessageHeader': lambda: class_subject(defs.MessageHeader),
        'MeasurementDetails': lambda: class_subject(md.MeasurementDetails),
        'SatelliteInfo': lambda: class_subject(sol.SatelliteInfo),
        'DataVersion': lambda: adapter_subject('DataVersion', cfg._DataVersionConstruct, lambda: cfg.DataVersion(1, 2)),
        'InterfaceID': lambda: adapter_subject('InterfaceID', cfg._InterfaceIDConstruct),
        'InterfaceConfigSubmessage': lambda: adapter_subject('InterfaceConfigSubmessage', cfg._InterfaceConfigSubmessageConstruct),
        'MessageRateResponseEntry': lambda: adapter_subject('RateResponseEntry', cfg._RateResponseEntryConstruct),
        'Point3f': lambda: adapter_subject('DeviceLeverArmConfig (Point3F)', cm('DEVICE_LEVER_ARM')),
        'CoarseOrientation': lambda: adapter_subject('DeviceCourseOrientationConfig', cm('DEVICE_COARSE_ORIENTATION')),
        'VehicleDetails': lambda: adapter_subject('VehicleDetailsConfig', cm('VEHICLE_DETAILS')),
        'WheelConfig': lambda: adapter_subject('WheelConfig', cm('WHEEL_CONFIG')),
        'HardwareTickConfig': lambda: adapter_subject('HardwareTickConfig', cm('HARDWARE_TICK_CONFIG')),
        'IonosphereConfig': lambda: adapter_subject('IonosphereConfig', cm('IONOSPHERE_CONFIG')),
        'TroposphereConfig': lambda: adapter_subject('TroposphereConfig', cm('TROPOSPHERE_CONFIG')),
        'LBandConfig': lambda: adapter_subject('LBandConfig', cm('LBAND_PARAMETERS')),
    }


def payload_bases():
    """Payload classes whose default-constructed object cannot be packed (or whose default is degenerate)."""
    m, cfg, fc, sol, md, ts, defs = _messages()

    def set_config():
        return cfg.SetConfigMessage(cfg.DeviceLeverArmConfig(1.0, 2.0, 3.0))

    def config_response():
        o = cfg.ConfigResponseMessage()
        o.config_object = cfg.DeviceLeverArmConfig(1.0, 2.0, 3.0)
        return o

    def fault_control():
        return fc.FaultControlMessage(fc.FaultControlMessage.EnableGNSS(True))

    from fusion_engine_client.messages import sta5635

    def sta_cmd():
        o = sta5635.STA5635Command()
        o.data = b'\x00\x00'
        return o

    def sta_resp():
        o = sta5635.STA5635CommandResponse()
        o.data = b'\x00\x00\x00\x00'
        return o
    return {'SetConfigMessage': set_config, 'ConfigResponseMessage': config_response,
            'FaultControlMessage': fault_control, 'STA5635Command': sta_cmd, 'STA5635CommandResponse': sta_resp}


def value_families():
    """Families of value classes that travel as the variable part of a carrier message, selected by a type tag in the
    carrier's fixed part: every (tag -> construct, NamedTuple class) entry of the library's own registries.

    Each family: name; header/enum (where the C++ side documents the payload format of every tag); carriers (C++ struct
    key, tag member, length member, Python attribute holding the value, make(value, interface) -> message object);
    entries (tag value, adapter, sub-header struct key or None, sub-header member values, sub-tag documentation)."""
    m, cfg, fc, sol, md, ts, defs = _messages()
    g = cfg._conf_gen
    iface = cfg.InterfaceID(cfg.TransportType.SERIAL, 1)

    def set_config(v, interface):
        return cfg.SetConfigMessage(v, interface=interface)

    def config_response(v, interface):
        o = cfg.ConfigResponseMessage()
        o.config_object = v
        o.interface = interface
        return o

    def fault_control(v, interface):
        return fc.FaultControlMessage(v)

    config_entries = [{'tag': int(t), 'adapter': a, 'doc': ('configuration.h', 'ConfigType', int(t))}
                      for t, a in g.CONFIG_MAP.items()]
    config_entries += [{'tag': int(cfg.ConfigType.INTERFACE_CONFIG), 'adapter': a, 'interface': iface,
                        'sub': 'InterfaceConfigSubmessage',
                        'sub_values': {'interface.type': int(iface.type), 'interface.index': int(iface.index), 'subtype': int(t)},
                        'doc': ('configuration.h', 'InterfaceConfigType', int(t))}
                       for t, a in g.INTERFACE_CONFIG_MAP.items()]
    fault_entries = [{'tag': int(t), 'adapter': a, 'doc': ('fault_control.h', 'FaultType', int(t))}
                     for t, a in fc._class_gen.TYPE_MAP.items()]
    return [
        {'name': 'configuration values', 'entries': config_entries,
         'carriers': [
             {'struct': 'SetConfigMessage', 'tag': 'config_type', 'length': 'config_length_bytes', 'attr': 'config_object',
              'make': set_config, 'cls': cfg.SetConfigMessage},
             {'struct': 'ConfigResponseMessage', 'tag': 'config_type', 'length': 'config_length_bytes', 'attr': 'config_object',
              'make': config_response, 'cls': cfg.ConfigResponseMessage}]},
        {'name': 'fault control payloads', 'entries': fault_entries,
         'carriers': [
             {'struct': 'FaultControlMessage', 'tag': 'fault_type', 'length': 'payload_length_bytes', 'attr': 'payload',
              'make': fault_control, 'cls': fc.FaultControlMessage}]},
    ]


def subject_for(s, _cache={}):
    """Python counterpart of the C++ struct `s` (an entry of the layout JSON), or None."""
    m, cfg, fc, sol, md, ts, defs = _messages()
    if 'sub' not in _cache:
        _cache['sub'] = substructs()
        _cache['bases'] = payload_bases()
    if s['message_type'] is not None:
        try:
            mt = defs.MessageType(s['message_type'])
        except ValueError:
            return None
        cls = defs.MessagePayload.message_type_to_class.get(mt)
        if cls is None:
            return None
        return class_subject(cls, _cache['bases'].get(s['key']))
    thunk = _cache['sub'].get(s['key'])
    return thunk() if thunk else None


# ---------------------------------------------------------------------------------------------------------------
# member overrides
# ---------------------------------------------------------------------------------------------------------------
_INPUT_NOTE = 'unpack() of the *Input classes resets details.p1_time ("Disregard any user-specified P1 timestamps in input data")'


def _fixed_point(bits, w):
    return Scaled(2.0 ** -bits, True, nan_raw=(1 << (8 * w - 1)) - 1)


def members():
    m, cfg, fc, sol, md, ts, defs = _messages()
    ct = cfg.ConfigType
    cm = cfg._conf_gen.CONFIG_MAP
    ft = fc.FaultType
    p3 = [ct.GNSS_LEVER_ARM, ct.OUTPUT_LEVER_ARM, ct.GNSS_AUX_LEVER_ARM]

    def cfg_make(v):
        return cm[ct(v)].tuple_cls(1.0, 2.0, 3.0)

    def fault_make(v):
        return fc._class_gen.TYPE_MAP[ft(v)].tuple_cls(True)

    discard = {'details.p1_time.seconds': M(attr='details.p1_time.seconds', codec=Discarded('sec', _INPUT_NOTE)),
               'details.p1_time.fraction_ns': M(attr='details.p1_time.seconds', codec=Discarded('ns', _INPUT_NOTE))}
    wheel_speed_in = dict(discard)
    for n in ('front_left', 'front_right', 'rear_left', 'rear_right'):
        wheel_speed_in[n + '_speed'] = M(attr=n + '_speed_mps', codec=_fixed_point(10, 4))
    wheel_speed_raw = {k: v for k, v in wheel_speed_in.items() if not k.startswith('details.')}
    imu_in = dict(discard)
    imu_in.update({'temperature': M(attr='temperature_degc', codec=_fixed_point(7, 2)),
                   'accel': M(attr='accel_mps2', codec=_fixed_point(16, 4)),
                   'gyro': M(attr='gyro_rps', codec=_fixed_point(20, 4))})
    imu_raw = {k: v for k, v in imu_in.items() if not k.startswith('details.')}
    vspeed_in = dict(discard)
    vspeed_in['vehicle_speed'] = M(attr='vehicle_speed_mps', codec=_fixed_point(10, 4))
    vspeed_raw = {k: v for k, v in vspeed_in.items() if not k.startswith('details.')}

    def bytes_len(attr, order=0, **kw):
        return M(attr=attr, codec=Length(lambda k: b'\x41' * k, lambda k: b'\x41' * k, 1, order, **kw))

    def str_len(attr, order):
        return M(attr=attr, codec=Length(lambda k: 'A' * k, lambda k: b'\x41' * k, 1, order, max_count=255))

    return {
        'Timestamp': {'seconds': M(attr='seconds', codec=TsPart('sec')),
                      'fraction_ns': M(attr='seconds', codec=TsPart('ns'))},
        'MessageHeader': {
            'sync': M(codec=Const(b'\x2e\x31'), note='not stored by unpack() unless validate_sync is requested'),
            'reserved': M(attr='reserved', codec=ReadOnlyInt(False), note='C++ uint8_t[2], Python one uint16: stored by unpack, pack always writes 0'),
        },
        'DataVersion': {'reserved': M(codec=Reserved()), 'major_version': M(attr='major'), 'minor_version': M(attr='minor')},
        'SatelliteInfo': {'cn0': M(attr='cn0_dbhz', codec=Scaled(0.25, False, nan_raw=0, lo=1, hi=255))},
        # ---- configuration.h
        'SetConfigMessage': {
            'config_type': M(attr='config_object', codec=Tag(p3, lambda o: o.config_object.GetType(), cfg_make),
                             subtree=['config_object'], note='derived from type(config_object); probed over the four Point3f config types (same payload size)'),
            'flags': M(codec=Int(False, avoid=[v for v in range(256) if v & 0x02]), note='FLAG_REVERT_TO_DEFAULT (0x02) changes the payload rules: patterns keep that bit clear'),
            'config_length_bytes': M(codec=Consumed('config payload is parsed by the config class; extra bytes are ignored')),
        },
        'GetConfigMessage': {'config_type': M(codec=Enum(avoid=[int(ct.INTERFACE_CONFIG)]),
                                              note='INTERFACE_CONFIG announces an interface header after the fixed part')},
        'ConfigResponseMessage': {
            'config_type': M(attr='config_object', codec=Tag(p3, lambda o: o.config_object.GetType(), cfg_make),
                             subtree=['config_object', '_config_type'], note='derived from type(config_object)'),
            'config_length_bytes': M(codec=Consumed()),
        },
        'ImportDataMessage': {'data_length_bytes': bytes_len('data')},
        'PlatformStorageDataMessage': {'data_length_bytes': bytes_len('data')},
        'SupportedIOInterfacesMessage': {'num_interfaces': M(attr='interfaces', codec=Length(
            lambda k: [cfg.InterfaceID(cfg.TransportType.SERIAL, j) for j in range(k)],
            lambda k: b''.join(bytes([int(cfg.TransportType.SERIAL), j % 256, 0, 0]) for j in range(k)), 4, max_count=255))},
        'MessageRateResponse': {'num_rates': M(attr='rates', codec=Length(
            lambda k: [cfg.RateResponseEntry() for _ in range(k)], lambda k: bytes(8 * k), 8))},
        'MessageRateResponseEntry': {},
        # ---- control.h
        'CommandResponseMessage': {'source_seq_number': M(attr='source_sequence_num')},
        # ---- device.h
        'VersionInfoMessage': {'fw_version_length': str_len('fw_version_str', 0),
                               'engine_version_length': str_len('engine_version_str', 1),
                               'os_version_length': str_len('os_version_str', 2),
                               'rx_version_length': str_len('rx_version_str', 3)},
        'DeviceIDMessage': {'hw_id_length': bytes_len('hw_id_data', 0, max_count=255),
                            'user_id_length': bytes_len('user_id_data', 1, max_count=255),
                            'receiver_id_length': bytes_len('receiver_id_data', 2, max_count=255)},
        'EventNotificationMessage': {'type': M(attr='event_type'),
                                     'event_description_len_bytes': bytes_len('event_description')},
        'SystemStatusMessage': {'gnss_temperature': M(attr='gnss_temperature_degc', codec=_fixed_point(7, 2)),
                                'pe_cpu_temperature': M(attr='pe_cpu_temperature_degc', codec=_fixed_point(7, 2))},
        'FaultControlMessage': {
            'fault_type': M(attr='payload', codec=Tag([ft.REGION_BLACKOUT, ft.QUECTEL_TEST], lambda o: o.payload.GetType(), fault_make),
                            subtree=['payload'], note='derived from type(payload); probed over the one-byte boolean fault types'),
            'payload_length_bytes': M(codec=Consumed()),
        },
        'LBandFrameMessage': {'user_data_size_bytes': bytes_len('data_payload')},
        # ---- measurements.h
        'IMUInput': imu_in, 'RawIMUOutput': imu_raw,
        'WheelSpeedInput': wheel_speed_in, 'RawWheelSpeedOutput': wheel_speed_raw,
        'VehicleSpeedInput': vspeed_in, 'RawVehicleSpeedOutput': vspeed_raw,
        'WheelTickInput': dict(discard), 'VehicleTickInput': dict(discard),
        'InputDataWrapperMessage': {'system_time_cs': M(attr='system_time_ns', codec=Scaled(
            10_000_000, False, fn=lambda raw: raw * 10_000_000, integer=True, write_max=900_000_000,
            note='pack() computes int(system_time_ns / 1e7) in floating point: write direction probed below 2^53 ns only'))},
        # ---- ros.h
        'GPSFixMessage': {'reserved': M(attr='reserved', codec=Int(False), note='exposed as a numpy uint8 array and written back')},
        # ---- solution.h
        'PoseMessage': {'undulation_cm': M(attr='undulation_m', codec=Scaled(1e-2, True, nan_raw=-32768))},
        'PoseAuxMessage': {'position_cov_enu_m2': M(shape=(3, 3))},
        'GNSSInfoMessage': {'corrections_age': M(attr='corrections_age_sec', codec=Scaled(0.1, False, nan_raw=0xFFFF)),
                            'baseline_distance': M(attr='baseline_distance_m', codec=Scaled(10.0, False, nan_raw=0xFFFF))},
        'GNSSSatelliteMessage': {'num_satellites': M(attr='svs', codec=Length(
            lambda k: [sol.SatelliteInfo() for _ in range(k)], lambda k: bytes(12 * k), 12))},
        'CalibrationStatusMessage': {
            'state_verified': M(codec=Bool('C++ uint8_t documented as a 0/1 flag; Python exposes a bool'), accept_kind='u'),
            'gyro_bias_percent_complete': M(codec=Scaled(0.5, False)),
            'accel_bias_percent_complete': M(codec=Scaled(0.5, False)),
            'mounting_angle_percent_complete': M(codec=Scaled(0.5, False)),
        },
        # ---- sta5635.h
        'STA5635Command': {'data': M(codec=RawBytes())},
        'STA5635CommandResponse': {'data': M(codec=RawBytes())},
    }


def default_codec(leaf, parent_struct):
    """Codec from the C++ kind of an element when the map has no entry."""
    k = leaf['elem_kind']
    name = leaf['name']
    if parent_struct == 'Timestamp' and name in ('seconds', 'fraction_ns'):
        return TsPart('sec' if name == 'seconds' else 'ns')
    if name.startswith('reserved') and k == 'u':
        return Reserved()
    if k == 'u':
        return Int(False)
    if k == 'i':
        return Int(True)
    if k == 'f':
        return Float()
    if k == 'bool':
        return Bool()
    if k == 'enum':
        return Enum()
    return None
