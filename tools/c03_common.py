"""Shared helpers of the C03 translators (tools/c03_cxx_extract.py, tools/c03_py_extract.py).

Name encoding used by every generated C03 table: a name is the natural number whose big-endian base-256
digits are the UTF-8 bytes of the name.  It is injective on names whose first byte is not NUL (identifiers
never start with NUL); `decode(code(s)) == s` is re-checked for every emitted name.
"""
import hashlib
import os


class TranslateError(Exception):
    """The translator could not read a block of the source (file, line, what)."""

    def __init__(self, where, what):
        Exception.__init__(self, '%s: %s' % (where, what))
        self.where = where
        self.what = what


def code(name):
    b = name.encode('utf-8')
    if not b or b[0] == 0:
        raise TranslateError(repr(name), 'name cannot be Nat-encoded injectively')
    n = int.from_bytes(b, 'big')
    if decode(n) != name:
        raise TranslateError(repr(name), 'name code does not round-trip')
    return n


def decode(n):
    return n.to_bytes((n.bit_length() + 7) // 8, 'big').decode('utf-8')


def lean_nat(name):
    return '0x%x' % code(name)


def lean_int(v):
    return str(v) if v >= 0 else '(%d)' % v


def write_if_changed(path, text):
    """Rewrite only when the content changes (keeps `lake build` incremental). Returns True if written."""
    os.makedirs(os.path.dirname(path), exist_ok=True)
    try:
        with open(path) as f:
            if f.read() == text:
                return False
    except FileNotFoundError:
        pass
    tmp = path + '.tmp%d' % os.getpid()
    with open(tmp, 'w') as f:
        f.write(text)
    os.replace(tmp, path)
    return True


def sha256_files(paths):
    res = {}
    for p in paths:
        with open(p, 'rb') as f:
            res[os.path.basename(p)] = hashlib.sha256(f.read()).hexdigest()
    return res


def lean_ident(name):
    """Lean identifier fragment for an enum / struct name (`A::B` -> `A_B`)."""
    return ''.join(ch if (ch.isalnum() and ch.isascii()) or ch == '_' else '_' for ch in name.replace('::', '_'))
