"""C03 translator, C++ side.

Reads `$FE_REPO/src/point_one/fusion_engine/messages/*.h` for NAMES ONLY:
  * every `enum class E : T { ... }` block (namespace- or struct-nested), with its enumerator names;
  * every struct that declares `MESSAGE_TYPE` / `MESSAGE_VERSION`.
It never computes a value.  It emits a C++ probe program that includes the real headers and prints
`(long long)E::NAME` for every enumerator, `IsCommand(t)` / `IsResponse(t)` for every `MessageType` enumerator and
`S::MESSAGE_TYPE`, `(int)S::MESSAGE_VERSION` for every payload struct; the probe is compiled (-std=<CMAKE_CXX_STANDARD of the repository's CMakeLists.txt>, and again under every later standard by the
check; -I$FE_REPO/src) into $FE_BUILD and run, and its output is the table.
  * every DECLARATION of a function named `IsCommand` / `IsResponse` (free function, overload, member function), with
    its parameter list as written.  For each declared call form the probe builds an argument of the declared parameter
    type for every `MessageType` enumerator (the enumerator itself; a default-constructed struct whose `MessageType`
    field is set to it; an integer cast of it) and prints the result of calling exactly that overload (`callForms`).
    An occurrence of either name outside a function body that is not a readable declaration is a TranslateError, as
    is a parameter type for which no argument can be built; a declaration in a header outside messages/ likewise.

Validation of the translator itself (every run):
  * the number of `enum class` blocks read == number of source lines matching `^\\s*enum\\s+class\\b` (grep count);
    likewise for `MESSAGE_TYPE =` / `MESSAGE_VERSION =` declarations;
  * every enumerator name found compiles in the probe (by construction: a misread name is a compile error);
  * no enumerator was missed: a second translation unit contains, per enum, a `switch` over one found enumerator per
    distinct value without `default`, with -Wswitch made an error for that translation unit's own switches (a named value
    without a case is an error);
  * every name code round-trips (c03_common.code).
A block the parser cannot read raises TranslateError (the caller decides: infrastructure error if the headers are
unchanged since the last good translation, otherwise stage E).
"""
import glob
import json
import os
import re
import subprocess
import sys

sys.path.insert(0, os.path.dirname(os.path.abspath(__file__)))
from c03_common import TranslateError, code, lean_nat, lean_int, lean_ident, write_if_changed, sha256_files  # noqa: E402

NS_PREFIX = 'point_one::fusion_engine::messages::'
# Hand-written (trusted): wire enumerations that the C++ headers spell as a group of `static const` integer members of a
# struct instead of an `enum class`.  (struct, member-name prefix) -> emitted like an enum named `<struct>::<prefix>*`.
CONST_GROUPS = [('ros::GPSFixMessage', 'COVARIANCE_TYPE_')]
HEADER_DIR = 'src/point_one/fusion_engine/messages'


def header_paths(repo):
    return sorted(glob.glob(os.path.join(repo, HEADER_DIR, '*.h')))


# ---- lexical clean-up ---------------------------------------------------------------------------------
def strip_source(src):
    """Comments, string and character literals and preprocessor lines -> blanks (newlines kept)."""
    out = []
    i, n = 0, len(src)
    bol = True     # only blanks seen since the beginning of the line
    while i < n:
        c = src[i]
        if src.startswith('//', i):
            while i < n and src[i] != '\n':
                i += 1
            continue
        if src.startswith('/*', i):
            j = src.find('*/', i + 2)
            j = n if j < 0 else j + 2
            out.append(''.join(ch if ch == '\n' else ' ' for ch in src[i:j]))
            i = j
            continue
        if c == '#' and bol:
            while i < n and src[i] != '\n':
                if src[i] == '\\' and i + 1 < n and src[i + 1] == '\n':
                    out.append('\n')
                    i += 2
                    continue
                i += 1
            continue
        if c == '"' or c == "'":
            q = c
            j = i + 1
            while j < n and src[j] != q:
                if src[j] == '\\':
                    j += 1
                j += 1
            out.append(q + ' ' * (j - i - 1) + q)
            i = j + 1
            bol = False
            continue
        out.append(c)
        if c == '\n':
            bol = True
        elif not c.isspace():
            bol = False
        i += 1
    return ''.join(out)


RE_NAMESPACE = re.compile(r'^(?:inline\s+)?namespace\s+(\w+)$')
RE_ENUM = re.compile(r'^enum\s+(?:class|struct)\s+(\w+)\s*(?::\s*([\w:\s]+?))?$')
RE_STRUCT = re.compile(r'^(?:template\s*<[^{};]*>\s*)?(?:struct|class|union)\s+(?:P1_ALIGNAS\s*\(\s*\w+\s*\)\s+|alignas\s*\(\s*\w+\s*\)\s+)?'
                       r'(\w+)\s*(?:final\s*)?(?::\s*[^{};()]*)?$')
RE_MSG_TYPE = re.compile(r'\bMESSAGE_TYPE\s*=')
RE_MSG_VERSION = re.compile(r'\bMESSAGE_VERSION\s*=')
RE_STATIC_CONST = re.compile(r'^static\s+const(?:expr)?\s+(?:[A-Za-z_][\w:]*)(?:\s+(?:int|long|char|short))?\s+(\w+)\s*=', re.S)
RE_ENUMERATOR = re.compile(r'^([A-Za-z_]\w*)\s*(?:=\s*(\S.*))?$', re.S)
# the two classification functions named by the property (every declaration of either name is a call form)
CLASSIFIERS = ('IsCommand', 'IsResponse')
RE_CLASSIFIER_USE = re.compile(r'(?<![\w])(%s)\s*\(' % '|'.join(CLASSIFIERS))
RE_CLASSIFIER_DECL = re.compile(r'^(?P<pre>[^()=]*?[\w>&*\]]\s*[\s&*])(?:(?P<qual>[A-Za-z_]\w*)\s*::\s*)?(?P<name>%s)\s*\((?P<params>.*)\)'
                                r'(?P<post>(?:\s|const|noexcept|override|final)*)(?:=\s*(?:0|default|delete))?$' % '|'.join(CLASSIFIERS), re.S)
RE_MT_FIELD = re.compile(r'^(?:const\s+|volatile\s+|mutable\s+)*MessageType\s+([A-Za-z_]\w*)\s*(?:=.*|\{.*\})?$', re.S)
INT_TYPES = {'int', 'unsigned', 'unsigned int', 'long', 'unsigned long', 'long long', 'unsigned long long', 'short',
             'unsigned short', 'size_t', 'int8_t', 'uint8_t', 'int16_t', 'uint16_t', 'int32_t', 'uint32_t', 'int64_t', 'uint64_t'}


def parse_header(path):
    """-> (enums, payload structs, constant groups, classifier declarations, {struct: [MessageType fields]}):
    enums = [{'name': qualified, 'underlying', 'members': [names], 'file', 'line'}],
    structs = [{'name': qualified, 'file', 'line'}],
    classifier declarations = [{'function', 'scope' (struct or None), 'static', 'params': [{'type', 'name', 'default'}],
    'file', 'line'}] for every declaration of IsCommand / IsResponse."""
    fname = os.path.basename(path)
    raw = open(path).read()
    src = strip_source(raw)
    enums, structs = [], []
    funcs = []                 # declarations of the classification functions
    decl_spans = []            # (start, end) of the statement heads recognised as such declarations
    body_spans = []            # (start, end) of function bodies and other non-declarative blocks
    stack = []                 # entries: ('ns'|'struct'|'other', name, struct-record or None, position of the {)
    head_start = 0
    i, n = 0, len(src)

    def line_of(pos):
        return src.count('\n', 0, pos) + 1

    def qualify(name):
        parts = [s[1] for s in stack if s[0] in ('ns', 'struct')] + [name]
        q = '::'.join(parts)
        if not q.startswith(NS_PREFIX):
            raise TranslateError('%s:%d' % (fname, line_of(i)), 'declaration %s outside namespace %s' % (q, NS_PREFIX))
        return q[len(NS_PREFIX):]

    def classifier_decl(start, end):
        """A statement head (up to `;` or `{`) at namespace / struct scope that declares IsCommand / IsResponse."""
        text = src[start:end]
        if not RE_CLASSIFIER_USE.search(text) or any(s[0] == 'other' for s in stack):
            return
        flat = ' '.join(text.split())
        m = RE_CLASSIFIER_DECL.match(flat)
        where = '%s:%d' % (fname, line_of(start + len(text) - len(text.lstrip())))
        if not m or re.search(r'\b(template|operator|typedef|using)\b', m.group('pre')):
            raise TranslateError(where, 'unreadable declaration of a classification function: %r' % flat[:160])
        scope = None
        if stack and stack[-1][0] == 'struct':
            scope = stack[-1][2]['name']
        if m.group('qual'):
            if scope is not None:
                raise TranslateError(where, 'qualified declaration inside a struct: %r' % flat[:160])
            scope = qualify(m.group('qual'))
        params = []
        depth, cur = 0, ''
        for ch in m.group('params') + ',':
            if ch in '<([{':
                depth += 1
            elif ch in '>)]}':
                depth -= 1
            if ch == ',' and depth == 0:
                if cur.strip() and cur.strip() != 'void':
                    params.append(parse_param(cur.strip(), where))
                cur = ''
            else:
                cur += ch
        funcs.append({'function': m.group('name'), 'scope': scope, 'static': bool(re.search(r'\bstatic\b', m.group('pre'))),
                      'friend': bool(re.search(r'\bfriend\b', m.group('pre'))),
                      'params': params, 'file': fname, 'line': line_of(start + text.find(m.group('name')))})
        decl_spans.append((start, end))

    def parse_param(text, where):
        default = None
        if '=' in text:
            text, default = [x.strip() for x in text.split('=', 1)]
        mm = re.match(r'^(.*?[\s&*])([A-Za-z_]\w*)$', text, re.S)
        name = None
        if mm and re.sub(r'\b(const|volatile|struct|class|enum|unsigned|signed|long|short)\b|[\s&*]', '', mm.group(1)):
            text, name = mm.group(1).strip(), mm.group(2)
        elif mm and re.sub(r'\b(const|volatile|struct|class|enum)\b|[\s&*]', '', mm.group(1)) and mm.group(2) not in (
                'int', 'long', 'short', 'char', 'unsigned', 'signed'):
            text, name = mm.group(1).strip(), mm.group(2)
        if '(' in text or '[' in text or '...' in text:
            raise TranslateError(where, 'unreadable parameter %r of a classification function' % text)
        return {'type': ' '.join(text.replace('&', ' & ').replace('*', ' * ').split()).replace(' &', '&').replace(' *', '*'),
                'name': name, 'default': default}

    def statement(text, pos):
        classifier_decl(pos - len(text), pos)
        if stack and stack[-1][0] == 'struct':
            rec = stack[-1][2]
            mf = RE_MT_FIELD.match(' '.join(text.split()))
            if mf:
                rec['mt_fields'].append(mf.group(1))
            if RE_MSG_TYPE.search(text):
                rec['has_type'] += 1
            if RE_MSG_VERSION.search(text):
                rec['has_version'] += 1
            mc = RE_STATIC_CONST.match(' '.join(text.split()))
            if mc:
                rec['consts'].append(mc.group(1))

    while i < n:
        c = src[i]
        if c == ';':
            statement(src[head_start:i], i)
            head_start = i + 1
        elif c == '{':
            head = ' '.join(src[head_start:i].split())
            m_ns, m_en, m_st = RE_NAMESPACE.match(head), RE_ENUM.match(head), RE_STRUCT.match(head)
            if re.search(r'\benum\b', head) and not m_en:
                raise TranslateError('%s:%d' % (fname, line_of(i)), 'unreadable enum head: %r' % head[:120])
            if m_en:
                if any(s[0] == 'other' for s in stack):
                    raise TranslateError('%s:%d' % (fname, line_of(i)), 'enum class %s inside a function body' % m_en.group(1))
                j = src.find('}', i)
                if j < 0 or '{' in src[i + 1:j]:
                    raise TranslateError('%s:%d' % (fname, line_of(i)), 'unreadable body of enum class %s' % m_en.group(1))
                members = []
                for item in src[i + 1:j].split(','):
                    item = item.strip()
                    if not item:
                        continue
                    mm = RE_ENUMERATOR.match(item)
                    if not mm:
                        raise TranslateError('%s:%d' % (fname, line_of(i)),
                                             'unreadable enumerator %r in enum class %s' % (item[:80], m_en.group(1)))
                    members.append(mm.group(1))
                if len(set(members)) != len(members):
                    raise TranslateError('%s:%d' % (fname, line_of(i)), 'duplicate enumerator names in %s' % m_en.group(1))
                enums.append({'name': qualify(m_en.group(1)), 'underlying': ' '.join((m_en.group(2) or 'int').split()),
                              'members': members, 'file': fname, 'line': line_of(i)})
                i = j            # the closing brace of the enum
                # consume up to the `;`
                k = i + 1
                while k < n and src[k].isspace():
                    k += 1
                if k >= n or src[k] != ';':
                    raise TranslateError('%s:%d' % (fname, line_of(i)), 'enum class %s: declarators after the body' % m_en.group(1))
                i = k
                head_start = i + 1
            elif m_ns:
                stack.append(('ns', m_ns.group(1), None, i))
                head_start = i + 1
            elif m_st and '=' not in head and '(' not in head.replace('P1_ALIGNAS(', '').replace('alignas(', ''):
                rec = {'name': None, 'file': fname, 'line': line_of(i), 'has_type': 0, 'has_version': 0, 'consts': [],
                       'mt_fields': []}
                if any(s[0] == 'other' for s in stack):
                    stack.append(('other', None, None, i))
                else:
                    rec['name'] = qualify(m_st.group(1))
                    stack.append(('struct', m_st.group(1), rec, i))
                    structs.append(rec)
                head_start = i + 1
            else:
                classifier_decl(head_start, i)        # a function definition: its head may declare a call form
                stack.append(('other', None, None, i))
                head_start = i + 1
        elif c == '}':
            if not stack:
                raise TranslateError('%s:%d' % (fname, line_of(i)), 'unbalanced }')
            top = stack.pop()
            head_start = i + 1
            if top[0] == 'other' and not any(s[0] == 'other' for s in stack):
                body_spans.append((top[3], i))
        i += 1
    if stack:
        raise TranslateError(fname, 'unbalanced { at end of file (%s)' % [s[1] for s in stack])

    # --- every occurrence of IsCommand( / IsResponse( is a call inside a body or a declaration that was read ---
    for mu in RE_CLASSIFIER_USE.finditer(src):
        pos = mu.start()
        if not any(a <= pos <= b for a, b in body_spans) and not any(a <= pos <= b for a, b in decl_spans):
            raise TranslateError('%s:%d' % (fname, line_of(pos)), 'occurrence of %s( outside a function body that was not '
                                 'read as a declaration' % mu.group(1))
    # --- validation against plain line counts (grep) ---
    n_enum_grep = len(re.findall(r'^\s*enum\s+(?:class|struct)\b', raw, re.M))
    if n_enum_grep != len(enums):
        raise TranslateError(fname, 'read %d enum class blocks, grep counts %d' % (len(enums), n_enum_grep))
    n_type_grep = len(re.findall(r'^\s*static\s+const(?:expr)?\s+MessageType\s+MESSAGE_TYPE\b', raw, re.M))
    n_ver_grep = len(re.findall(r'^\s*static\s+const(?:expr)?\s+\w+\s+MESSAGE_VERSION\b', raw, re.M))
    n_type = sum(s['has_type'] for s in structs)
    n_ver = sum(s['has_version'] for s in structs)
    if n_type != n_type_grep or n_ver != n_ver_grep:
        raise TranslateError(fname, 'read %d MESSAGE_TYPE / %d MESSAGE_VERSION declarations, grep counts %d / %d'
                             % (n_type, n_ver, n_type_grep, n_ver_grep))
    payload = []
    for s in structs:
        if s['has_type'] or s['has_version']:
            if s['has_type'] != 1 or s['has_version'] != 1:
                raise TranslateError('%s:%d' % (fname, s['line']),
                                     'struct %s declares MESSAGE_TYPE %d times and MESSAGE_VERSION %d times'
                                     % (s['name'], s['has_type'], s['has_version']))
            payload.append({'name': s['name'], 'file': s['file'], 'line': s['line']})
    groups = []
    for sname, prefix in CONST_GROUPS:
        for s in structs:
            if s['name'] == sname:
                names = [c for c in s['consts'] if c.startswith(prefix)]
                n_grep = len(re.findall(r'^\s*static\s+const(?:expr)?\s+\w+\s+%s\w*\s*=' % re.escape(prefix), raw, re.M))
                if not names or n_grep != len(names):
                    raise TranslateError('%s:%d' % (fname, s['line']), 'constant group %s::%s*: read %d members, grep counts %d'
                                         % (sname, prefix, len(names), n_grep))
                groups.append({'name': '%s::%s*' % (sname, prefix), 'scope': sname, 'underlying': 'static const members',
                               'members': names, 'file': fname, 'line': s['line']})
    mt_fields = dict((s['name'], s['mt_fields']) for s in structs if s['name'])
    return enums, payload, groups, funcs, mt_fields


def parse_all(repo):
    paths = header_paths(repo)
    if not paths:
        raise TranslateError(os.path.join(repo, HEADER_DIR), 'no headers found')
    enums, structs, groups, funcs, mt_fields = [], [], [], [], {}
    for p in paths:
        e, s, g, f, mf = parse_header(p)
        enums += e
        structs += s
        groups += g
        funcs += f
        mt_fields.update(mf)
    if len(groups) != len(CONST_GROUPS):
        raise TranslateError(HEADER_DIR, 'constant groups found: %s, expected %s' % ([g['name'] for g in groups], CONST_GROUPS))
    for what, lst in (('enum class', enums), ('payload struct', structs)):
        names = [x['name'] for x in lst]
        if len(set(names)) != len(names):
            raise TranslateError(HEADER_DIR, 'two %s blocks with the same qualified name' % what)
    if not any(e['name'] == 'MessageType' for e in enums):
        raise TranslateError(HEADER_DIR + '/defs.h', 'enum class MessageType not found')
    # the classification functions are declared in the message headers only (a declaration elsewhere would be a call
    # form the probe does not see)
    for other in sorted(glob.glob(os.path.join(repo, 'src', '**', '*.h'), recursive=True)):
        if os.path.realpath(other) in [os.path.realpath(p) for p in paths]:
            continue
        txt = strip_source(open(other, errors='replace').read())
        for mu in re.finditer(r'\bbool\s+(?:\w+\s*::\s*)*(%s)\s*\(' % '|'.join(CLASSIFIERS), txt):
            raise TranslateError('%s:%d' % (os.path.relpath(other, repo), txt.count('\n', 0, mu.start()) + 1),
                                 'declaration of %s outside %s' % (mu.group(1), HEADER_DIR))
    forms = call_forms(funcs, mt_fields)
    return paths, enums, structs, groups, forms


def form_text(f):
    return '%s%s(%s)%s' % (f['scope'] + '::' if f['scope'] else '', f['function'],
                           ', '.join(p['type'] for p in f['params']), ' [static]' if f['static'] else '')


def call_forms(funcs, mt_fields):
    """One call form per distinct declaration (a prototype and its definition are the same form).  Each gets the C++
    text that builds the argument for a MessageType enumerator `%s` and the expression that calls this overload."""
    forms, seen = [], set()
    for f in funcs:
        key = (f['scope'], f['function'], tuple(p['type'] for p in f['params']), f['static'])
        if key in seen:
            continue
        seen.add(key)
        where = '%s:%d' % (f['file'], f['line'])
        setup, args = [], []
        need = [p for p in f['params'] if p['default'] is None]
        if len(need) > 1 or (not need and len(f['params']) > 0):
            need = f['params'][:1] if not need else need
        if len(need) > 1:
            raise TranslateError(where, 'classification function with %d required parameters: %s' % (len(need), form_text(f)))

        def build(var, typ):
            base = ' '.join(re.sub(r'\b(const|volatile|struct|class|enum)\b|[&*]', ' ', typ).split())
            short = base.split('::')[-1]
            ptr = typ.count('*')
            if ptr > 1 or typ.endswith('&&'):
                raise TranslateError(where, 'parameter type %r of %s: no argument can be built' % (typ, form_text(f)))
            # an argument of exactly the declared type, so that overload resolution picks this declaration and no other:
            # a const reference / pointer-to-const parameter gets a const lvalue
            constref = bool(re.search(r'\bconst\b', typ)) and ('&' in typ or ptr)
            obj = var + '0' if constref else var
            if short == 'MessageType':
                setup.append('MessageType %s = MessageType::%%s;' % obj)
                cands = ['MessageType']
            elif base in INT_TYPES or base.replace('std::', '') in INT_TYPES:
                setup.append('%s %s = static_cast<%s>(MessageType::%%s);' % (base, obj, base))
                cands = [base]
            else:
                cands = [n for n in mt_fields if n == base or n.endswith('::' + base)]
                if len(cands) != 1 or len(mt_fields[cands[0]]) != 1:
                    raise TranslateError(where, 'parameter type %r of %s: not MessageType, not an integer type and not a struct '
                                         'with exactly one MessageType field' % (typ, form_text(f)))
                setup.append('%s %s = %s(); %s.%s = MessageType::%%s;' % (cands[0], obj, cands[0], obj, mt_fields[cands[0]][0]))
            if constref:
                setup.append('const %s& %s = %s;' % (cands[0], var, obj))
            return ('&' if ptr else '') + var

        if need:
            args.append(build('a', need[0]['type']))
        member = f['scope'] is not None and not f['static'] and not f['friend']
        if member:
            if need:       # the object the member is called on carries no information: default-constructed
                call = '%s().%s(%s)' % (f['scope'], f['function'], ', '.join(args))
            else:
                obj = build('o', f['scope'])
                call = '%s.%s()' % (obj.lstrip('&'), f['function'])
        elif f['scope'] is not None and f['static']:
            call = '%s::%s(%s)' % (f['scope'], f['function'], ', '.join(args))
        else:
            if not need:
                raise TranslateError(where, 'classification function without a parameter: %s' % form_text(f))
            call = '%s(%s)' % (f['function'], ', '.join(args))
        forms.append({'function': f['function'], 'scope': f['scope'], 'param': need[0]['type'] if need else '(this)',
                      'text': form_text(f), 'file': f['file'], 'line': f['line'], 'setup': ' '.join(setup), 'call': call})
    for fn in CLASSIFIERS:
        if not any(f['function'] == fn for f in forms):
            raise TranslateError(HEADER_DIR, 'no declaration of %s found' % fn)
    return forms


# ---- the probe ----------------------------------------------------------------------------------------
def probe_source(paths, enums, structs, groups=(), forms=()):
    L = ['// generated by tools/c03_cxx_extract.py - do not edit', '#include <cstdio>']
    for p in paths:
        L.append('#include <point_one/fusion_engine/messages/%s>' % os.path.basename(p))
    L += ['using namespace point_one::fusion_engine::messages;', 'int main() {']
    for e in enums:
        for m in e['members']:
            L.append('  std::printf("E %s %s %%lld\\n", (long long)%s::%s);' % (e['name'], m, e['name'], m))
        if e['name'] == 'MessageType':
            for m in e['members']:
                L.append('  std::printf("T %s %%d %%d\\n", (int)IsCommand(MessageType::%s), (int)IsResponse(MessageType::%s));'
                         % (m, m, m))
                for k, f in enumerate(forms):
                    # exactly the declared overload: the argument has the declared parameter type
                    L.append('  { %s std::printf("F %d %s %%d\\n", (int)%s); }' % (f['setup'] % m, k, m, f['call']))
    for g in groups:
        for m in g['members']:
            L.append('  std::printf("E %s %s %%lld\\n", (long long)%s::%s);' % (g['name'], m, g['scope'], m))
    for s in structs:
        L.append('  std::printf("S %s %%lld %%d\\n", (long long)%s::MESSAGE_TYPE, (int)%s::MESSAGE_VERSION);'
                 % (s['name'], s['name'], s['name']))
    L += ['  std::printf("END\\n");', '  return 0;', '}', '']
    return '\n'.join(L)


def switch_source(paths, enums, values):
    """Completeness of the enumerator lists: one case per distinct value, no default, -Werror=switch."""
    L = ['// generated by tools/c03_cxx_extract.py - do not edit',
         '// -Wswitch is an error only for the switches below, not for the switches inside the headers themselves',
         '#pragma GCC diagnostic push', '#pragma GCC diagnostic ignored "-Wswitch"']
    for p in paths:
        L.append('#include <point_one/fusion_engine/messages/%s>' % os.path.basename(p))
    L += ['#pragma GCC diagnostic pop', '#pragma GCC diagnostic error "-Wswitch"',
          'using namespace point_one::fusion_engine::messages;']
    for k, e in enumerate(enums):
        L.append('int complete_%d(%s v) {' % (k, e['name']))
        L.append('  switch (v) {')
        seen = set()
        for m in e['members']:
            val = values[(e['name'], m)]
            if val in seen:
                continue
            seen.add(val)
            L.append('    case %s::%s: return 1;' % (e['name'], m))
        L += ['  }', '  return 0;', '}']
    L.append('')
    return '\n'.join(L)


def compiler():
    for c in (os.environ.get('FE_CXX'), 'g++', 'clang++'):
        if c and subprocess.run(['which', c], stdout=subprocess.DEVNULL, stderr=subprocess.DEVNULL).returncode == 0:
            return c
    raise RuntimeError('no C++ compiler (g++ / clang++) found')


KNOWN_STANDARDS = (11, 14, 17, 20)


def project_standards(repo):
    """-> (the language standard the project builds with, every standard to be covered): `set(CMAKE_CXX_STANDARD N)` of the
    repository's own CMakeLists.txt (the smallest if there are several) and the later standards in KNOWN_STANDARDS - the
    headers select code by `__cplusplus` (common/portability.h), so the tables are a function of the standard."""
    found = []
    for path in [os.path.join(repo, 'CMakeLists.txt')] + sorted(glob.glob(os.path.join(repo, 'src', '**', 'CMakeLists.txt'), recursive=True)):
        try:
            txt = re.sub(r'#[^\n]*', '', open(path, errors='replace').read())
        except OSError:
            continue
        found += [int(x) for x in re.findall(r'\bset\s*\(\s*CMAKE_CXX_STANDARD\s+(\d+)', txt)]
        found += [int(x) for x in re.findall(r'\bCXX_STANDARD\s+(\d+)', txt)]
        found += [int(x) for x in re.findall(r'\bcxx_std_(\d+)\b', txt)]
    found = [x for x in found if x in KNOWN_STANDARDS]
    if not found:
        raise TranslateError('CMakeLists.txt', 'no CMAKE_CXX_STANDARD found: the language standard of the project is not known')
    first = min(found)
    return first, [x for x in KNOWN_STANDARDS if x >= first]


def run_probe(repo, build, paths, enums, structs, groups=(), cxx=None, forms=(), std=None):
    os.makedirs(build, exist_ok=True)
    cxx = cxx or compiler()
    std = std or 'c++%d' % project_standards(repo)[0]
    src = os.path.join(build, 'c03_probe.cc')
    exe = os.path.join(build, 'c03_probe')
    with open(src, 'w') as f:
        f.write(probe_source(paths, enums, structs, groups, forms))
    inc = os.path.join(repo, 'src')
    p = subprocess.run([cxx, '-std=' + std, '-O0', '-w', '-I' + inc, src, '-o', exe],
                       stdout=subprocess.PIPE, stderr=subprocess.STDOUT, text=True)
    if p.returncode != 0:
        raise TranslateError('c03_probe.cc', 'probe does not compile (%s -std=%s): %s' % (cxx, std, p.stdout[-1500:]))
    p = subprocess.run([exe], stdout=subprocess.PIPE, stderr=subprocess.STDOUT, text=True, timeout=60)
    lines = p.stdout.split('\n')
    if p.returncode != 0 or 'END' not in lines:
        raise TranslateError('c03_probe', 'probe failed: rc=%d %s' % (p.returncode, p.stdout[-500:]))
    values, classif, regs, fres = {}, {}, {}, {}
    for ln in lines:
        t = ln.split(' ')
        if t[0] == 'E':
            values[(t[1], t[2])] = int(t[3])
        elif t[0] == 'T':
            classif[t[1]] = (t[2] == '1', t[3] == '1')
        elif t[0] == 'S':
            regs[t[1]] = (int(t[2]), int(t[3]))
        elif t[0] == 'F':
            fres[(int(t[1]), t[2])] = (t[3] == '1')
    # every name found was printed
    for e in list(enums) + list(groups):
        for m in e['members']:
            if (e['name'], m) not in values:
                raise TranslateError('c03_probe', 'no value printed for %s::%s' % (e['name'], m))
    for s in structs:
        if s['name'] not in regs:
            raise TranslateError('c03_probe', 'no MESSAGE_TYPE printed for %s' % s['name'])
    for k, f in enumerate(forms):
        for e in enums:
            if e['name'] == 'MessageType':
                for m in e['members']:
                    if (k, m) not in fres:
                        raise TranslateError('c03_probe', 'no result printed for %s on %s' % (f['text'], m))
    # completeness of the enumerator lists
    sw = os.path.join(build, 'c03_switch.cc')
    with open(sw, 'w') as f:
        f.write(switch_source(paths, enums, values))
    p = subprocess.run([cxx, '-std=' + std, '-fsyntax-only', '-I' + inc, sw],
                       stdout=subprocess.PIPE, stderr=subprocess.STDOUT, text=True)
    if p.returncode != 0:
        raise TranslateError('c03_switch.cc', 'the parser missed an enumerator (or misread one): %s' % p.stdout[-1500:])
    return values, classif, regs, fres


def extract(repo, build, cxx=None, std=None):
    """-> table dict (JSON-able).  `std`: language standard of the probe (default: the project's own, CMAKE_CXX_STANDARD)."""
    paths, enums, structs, groups, forms = parse_all(repo)
    cxx = cxx or compiler()
    std = std or 'c++%d' % project_standards(repo)[0]
    values, classif, regs, fres = run_probe(repo, build, paths, enums, structs, groups, cxx, forms, std)
    mt_members = [m for e in enums if e['name'] == 'MessageType' for m in e['members']]
    table = {
        'enums': [{'name': e['name'], 'underlying': e['underlying'], 'file': e['file'], 'line': e['line'],
                   'members': [[m, values[(e['name'], m)]] for m in e['members']]} for e in enums],
        'const_groups': [{'name': g['name'], 'underlying': g['underlying'], 'file': g['file'], 'line': g['line'],
                          'members': [[m, values[(g['name'], m)]] for m in g['members']]} for g in groups],
        'classification': [[m, values[('MessageType', m)], classif[m][0], classif[m][1]]
                           for e in enums if e['name'] == 'MessageType' for m in e['members']],
        'call_forms': [{'function': f['function'], 'param': f['param'], 'scope': f['scope'], 'text': f['text'], 'file': f['file'],
                        'line': f['line'], 'call': (f['setup'] % 'NAME') + ' ' + f['call'],
                        'results': [[m, values[('MessageType', m)], fres[(k, m)]] for m in mt_members]}
                       for k, f in enumerate(forms)],
        'structs': [{'name': s['name'], 'file': s['file'], 'line': s['line'], 'type': regs[s['name']][0],
                     'version': regs[s['name']][1]} for s in structs],
        'n_enum_blocks': len(enums),
        'n_enumerators': sum(len(e['members']) for e in enums),
        'sources': sha256_files(paths),
        'config': {'compiler': cxx, 'std': std},
    }
    for e in table['enums'] + table['const_groups']:
        code(e['name'])
        for m, _ in e['members']:
            code(m)
    for s in table['structs']:
        code(s['name'])
    for f in table['call_forms']:
        code(f['function'])
        code(f['text'])
    return table


# ---- Lean emission ------------------------------------------------------------------------------------
def to_lean(t):
    L = ['/-',
         'GENERATED by tools/c03_cxx_extract.py from src/point_one/fusion_engine/messages/*.h - do not edit.',
         'Names are Nat codes (big-endian value of the UTF-8 bytes); every value was printed by a C++ probe',
         'compiled against the real headers: (long long)E::NAME, IsCommand/IsResponse(MessageType::NAME),',
         'S::MESSAGE_TYPE, (int)S::MESSAGE_VERSION, and every declared overload of IsCommand / IsResponse called with',
         'an argument of its declared parameter type.',
         'Language standard of the probe: -std=%s (CMAKE_CXX_STANDARD of the repository); the tables printed under the later' % t.get('config', {}).get('std'),
         'standards are compared with these, entry by entry, by tools/props/c03.py.',
         '-/',
         'namespace FeVerif.C03.Cxx', '']
    for e in t['enums'] + t['const_groups']:
        L.append('/-- `%s %s : %s` (%s) -/' % ('enum class' if e in t['enums'] else 'constants', e['name'], e['underlying'], e['file']))
        L.append('def enum_%s : List (Nat × Int) := [' % lean_ident(e['name']))
        items = ['  (%s, %s)' % (lean_nat(m), lean_int(v)) for m, v in e['members']]
        for k, ((m, v), it) in enumerate(zip(e['members'], items)):
            L.append(it + (',' if k + 1 < len(items) else '') + ' -- ' + m)
        L.append(']')
        L.append('')
    L.append('/-- every `enum class` of the message headers: (qualified name, enumerators) -/')
    L.append('def enums : List (Nat × List (Nat × Int)) := [')
    for k, e in enumerate(t['enums']):
        L.append('  (%s, enum_%s)%s -- %s' % (lean_nat(e['name']), lean_ident(e['name']),
                                             ',' if k + 1 < len(t['enums']) else '', e['name']))
    L.append(']')
    L.append('')
    L.append('/-- wire enumerations spelled as groups of `static const` members (hand-listed in the translator) -/')
    L.append('def constGroups : List (Nat × List (Nat × Int)) := [')
    for k, e in enumerate(t['const_groups']):
        L.append('  (%s, enum_%s)%s -- %s' % (lean_nat(e['name']), lean_ident(e['name']),
                                             ',' if k + 1 < len(t['const_groups']) else '', e['name']))
    L.append(']')
    L.append('')
    L.append('/-- for every `MessageType` enumerator: (value, IsCommand, IsResponse) -/')
    L.append('def classification : List (Int × Bool × Bool) := [')
    for k, (m, v, c, r) in enumerate(t['classification']):
        L.append('  (%s, %s, %s)%s -- %s' % (lean_int(v), str(c).lower(), str(r).lower(),
                                             ',' if k + 1 < len(t['classification']) else '', m))
    L.append(']')
    L.append('')
    for k, f in enumerate(t['call_forms']):
        L.append('/-- `%s` (%s:%d), called as `%s` for every MessageType enumerator NAME: (value, result) -/'
                 % (f['text'], f['file'], f['line'], f['call']))
        L.append('def callForm_%d : List (Int × Bool) := [' % k)
        for j, (m, v, r) in enumerate(f['results']):
            L.append('  (%s, %s)%s -- %s' % (lean_int(v), str(r).lower(), ',' if j + 1 < len(f['results']) else '', m))
        L.append(']')
        L.append('')
    L.append('/-- every declared call form of the classification functions (each overload / member declared in the headers):')
    L.append('(function name, declaration as written, results) -/')
    L.append('def callForms : List (Nat × Nat × List (Int × Bool)) := [')
    for k, f in enumerate(t['call_forms']):
        L.append('  (%s, %s, callForm_%d)%s -- %s' % (lean_nat(f['function']), lean_nat(f['text']), k,
                                                     ',' if k + 1 < len(t['call_forms']) else '', f['text']))
    L.append(']')
    L.append('')
    L.append('/-- every struct declaring MESSAGE_TYPE / MESSAGE_VERSION: (qualified name, type, version) -/')
    L.append('def structs : List (Nat × Int × Int) := [')
    for k, s in enumerate(t['structs']):
        L.append('  (%s, %s, %s)%s -- %s' % (lean_nat(s['name']), lean_int(s['type']), lean_int(s['version']),
                                             ',' if k + 1 < len(t['structs']) else '', s['name']))
    L.append(']')
    L += ['', 'end FeVerif.C03.Cxx', '']
    return '\n'.join(L)


def main():
    repo = os.environ.get('FE_REPO', '/repo')
    here = os.path.dirname(os.path.dirname(os.path.abspath(__file__)))
    lean = os.environ.get('FE_LEAN', os.path.join(here, 'lean'))
    build = os.environ.get('FE_BUILD', os.path.join(here, 'build'))
    t = extract(repo, build)
    out = os.path.join(lean, 'FeVerif', 'Generated', 'C03Cxx.lean')
    changed = write_if_changed(out, to_lean(t))
    with open(os.path.join(build, 'c03_cxx.json'), 'w') as f:
        json.dump(t, f, indent=1)
    print('%s: %d enum class blocks, %d enumerators, %d payload structs (%s)'
          % (out, t['n_enum_blocks'], t['n_enumerators'], len(t['structs']), 'rewritten' if changed else 'unchanged'))


if __name__ == '__main__':
    try:
        main()
    except TranslateError as e:
        print('TRANSLATE-ERROR: %s' % e)
        sys.exit(2)
