"""C03 translator, C++ side.

Reads `$FE_REPO/src/point_one/fusion_engine/messages/*.h` for NAMES ONLY:
  * every `enum class E : T { ... }` block (namespace- or struct-nested), with its enumerator names;
  * every struct that declares `MESSAGE_TYPE` / `MESSAGE_VERSION`.
It never computes a value.  It emits a C++ probe program that includes the real headers and prints
`(long long)E::NAME` for every enumerator, `IsCommand(t)` / `IsResponse(t)` for every `MessageType` enumerator and
`S::MESSAGE_TYPE`, `(int)S::MESSAGE_VERSION` for every payload struct; the probe is compiled (-std=c++14
-I$FE_REPO/src) into $FE_BUILD and run, and its output is the table.

Validation of the translator itself (every run):
  * the number of `enum class` blocks read == number of source lines matching `^\\s*enum\\s+class\\b` (grep count);
    likewise for `MESSAGE_TYPE =` / `MESSAGE_VERSION =` declarations;
  * every enumerator name found compiles in the probe (by construction: a misread name is a compile error);
  * no enumerator was missed: a second translation unit contains, per enum, a `switch` over one found enumerator per
    distinct value without `default`, with -Wswitch made an error for that translation unit's own switches (a named value
    without a case is an error);
  * every name code round-trips (c03_common.code).
A block the parser cannot read raises TranslateError (the caller decides: infrastructure error if the headers are
unchanged since the last good translation, otherwise stage E).
"""
import glob
import json
import os
import re
import subprocess
import sys

sys.path.insert(0, os.path.dirname(os.path.abspath(__file__)))
from c03_common import TranslateError, code, lean_nat, lean_int, lean_ident, write_if_changed, sha256_files  # noqa: E402

NS_PREFIX = 'point_one::fusion_engine::messages::'
# Hand-written (trusted): wire enumerations that the C++ headers spell as a group of `static const` integer members of a
# struct instead of an `enum class`.  (struct, member-name prefix) -> emitted like an enum named `<struct>::<prefix>*`.
CONST_GROUPS = [('ros::GPSFixMessage', 'COVARIANCE_TYPE_')]
HEADER_DIR = 'src/point_one/fusion_engine/messages'


def header_paths(repo):
    return sorted(glob.glob(os.path.join(repo, HEADER_DIR, '*.h')))


# ---- lexical clean-up ---------------------------------------------------------------------------------
def strip_source(src):
    """Comments, string and character literals and preprocessor lines -> blanks (newlines kept)."""
    out = []
    i, n = 0, len(src)
    bol = True     # only blanks seen since the beginning of the line
    while i < n:
        c = src[i]
        if src.startswith('//', i):
            while i < n and src[i] != '\n':
                i += 1
            continue
        if src.startswith('/*', i):
            j = src.find('*/', i + 2)
            j = n if j < 0 else j + 2
            out.append(''.join(ch if ch == '\n' else ' ' for ch in src[i:j]))
            i = j
            continue
        if c == '#' and bol:
            while i < n and src[i] != '\n':
                if src[i] == '\\' and i + 1 < n and src[i + 1] == '\n':
                    out.append('\n')
                    i += 2
                    continue
                i += 1
            continue
        if c == '"' or c == "'":
            q = c
            j = i + 1
            while j < n and src[j] != q:
                if src[j] == '\\':
                    j += 1
                j += 1
            out.append(q + ' ' * (j - i - 1) + q)
            i = j + 1
            bol = False
            continue
        out.append(c)
        if c == '\n':
            bol = True
        elif not c.isspace():
            bol = False
        i += 1
    return ''.join(out)


RE_NAMESPACE = re.compile(r'^(?:inline\s+)?namespace\s+(\w+)$')
RE_ENUM = re.compile(r'^enum\s+(?:class|struct)\s+(\w+)\s*(?::\s*([\w:\s]+?))?$')
RE_STRUCT = re.compile(r'^(?:template\s*<[^{};]*>\s*)?(?:struct|class|union)\s+(?:P1_ALIGNAS\s*\(\s*\w+\s*\)\s+|alignas\s*\(\s*\w+\s*\)\s+)?'
                       r'(\w+)\s*(?:final\s*)?(?::\s*[^{};()]*)?$')
RE_MSG_TYPE = re.compile(r'\bMESSAGE_TYPE\s*=')
RE_MSG_VERSION = re.compile(r'\bMESSAGE_VERSION\s*=')
RE_STATIC_CONST = re.compile(r'^static\s+const(?:expr)?\s+(?:[A-Za-z_][\w:]*)(?:\s+(?:int|long|char|short))?\s+(\w+)\s*=', re.S)
RE_ENUMERATOR = re.compile(r'^([A-Za-z_]\w*)\s*(?:=\s*(\S.*))?$', re.S)


def parse_header(path):
    """-> (enums, structs): enums = [{'name': qualified, 'underlying', 'members': [names], 'file', 'line'}],
    structs = [{'name': qualified, 'file', 'line', 'has_type', 'has_version'}]."""
    fname = os.path.basename(path)
    raw = open(path).read()
    src = strip_source(raw)
    enums, structs = [], []
    stack = []                 # entries: ('ns'|'struct'|'other', name, struct-record or None)
    head_start = 0
    i, n = 0, len(src)

    def line_of(pos):
        return src.count('\n', 0, pos) + 1

    def qualify(name):
        parts = [s[1] for s in stack if s[0] in ('ns', 'struct')] + [name]
        q = '::'.join(parts)
        if not q.startswith(NS_PREFIX):
            raise TranslateError('%s:%d' % (fname, line_of(i)), 'declaration %s outside namespace %s' % (q, NS_PREFIX))
        return q[len(NS_PREFIX):]

    def statement(text, pos):
        if stack and stack[-1][0] == 'struct':
            rec = stack[-1][2]
            if RE_MSG_TYPE.search(text):
                rec['has_type'] += 1
            if RE_MSG_VERSION.search(text):
                rec['has_version'] += 1
            mc = RE_STATIC_CONST.match(' '.join(text.split()))
            if mc:
                rec['consts'].append(mc.group(1))

    while i < n:
        c = src[i]
        if c == ';':
            statement(src[head_start:i], i)
            head_start = i + 1
        elif c == '{':
            head = ' '.join(src[head_start:i].split())
            m_ns, m_en, m_st = RE_NAMESPACE.match(head), RE_ENUM.match(head), RE_STRUCT.match(head)
            if re.search(r'\benum\b', head) and not m_en:
                raise TranslateError('%s:%d' % (fname, line_of(i)), 'unreadable enum head: %r' % head[:120])
            if m_en:
                if any(s[0] == 'other' for s in stack):
                    raise TranslateError('%s:%d' % (fname, line_of(i)), 'enum class %s inside a function body' % m_en.group(1))
                j = src.find('}', i)
                if j < 0 or '{' in src[i + 1:j]:
                    raise TranslateError('%s:%d' % (fname, line_of(i)), 'unreadable body of enum class %s' % m_en.group(1))
                members = []
                for item in src[i + 1:j].split(','):
                    item = item.strip()
                    if not item:
                        continue
                    mm = RE_ENUMERATOR.match(item)
                    if not mm:
                        raise TranslateError('%s:%d' % (fname, line_of(i)),
                                             'unreadable enumerator %r in enum class %s' % (item[:80], m_en.group(1)))
                    members.append(mm.group(1))
                if len(set(members)) != len(members):
                    raise TranslateError('%s:%d' % (fname, line_of(i)), 'duplicate enumerator names in %s' % m_en.group(1))
                enums.append({'name': qualify(m_en.group(1)), 'underlying': ' '.join((m_en.group(2) or 'int').split()),
                              'members': members, 'file': fname, 'line': line_of(i)})
                i = j            # the closing brace of the enum
                # consume up to the `;`
                k = i + 1
                while k < n and src[k].isspace():
                    k += 1
                if k >= n or src[k] != ';':
                    raise TranslateError('%s:%d' % (fname, line_of(i)), 'enum class %s: declarators after the body' % m_en.group(1))
                i = k
                head_start = i + 1
            elif m_ns:
                stack.append(('ns', m_ns.group(1), None))
                head_start = i + 1
            elif m_st and '=' not in head and '(' not in head.replace('P1_ALIGNAS(', '').replace('alignas(', ''):
                rec = {'name': None, 'file': fname, 'line': line_of(i), 'has_type': 0, 'has_version': 0, 'consts': []}
                if any(s[0] == 'other' for s in stack):
                    stack.append(('other', None, None))
                else:
                    rec['name'] = qualify(m_st.group(1))
                    stack.append(('struct', m_st.group(1), rec))
                    structs.append(rec)
                head_start = i + 1
            else:
                stack.append(('other', None, None))
                head_start = i + 1
        elif c == '}':
            if not stack:
                raise TranslateError('%s:%d' % (fname, line_of(i)), 'unbalanced }')
            kind = stack.pop()[0]
            head_start = i + 1
            if kind == 'other':
                pass
        i += 1
    if stack:
        raise TranslateError(fname, 'unbalanced { at end of file (%s)' % [s[1] for s in stack])

    # --- validation against plain line counts (grep) ---
    n_enum_grep = len(re.findall(r'^\s*enum\s+(?:class|struct)\b', raw, re.M))
    if n_enum_grep != len(enums):
        raise TranslateError(fname, 'read %d enum class blocks, grep counts %d' % (len(enums), n_enum_grep))
    n_type_grep = len(re.findall(r'^\s*static\s+const(?:expr)?\s+MessageType\s+MESSAGE_TYPE\b', raw, re.M))
    n_ver_grep = len(re.findall(r'^\s*static\s+const(?:expr)?\s+\w+\s+MESSAGE_VERSION\b', raw, re.M))
    n_type = sum(s['has_type'] for s in structs)
    n_ver = sum(s['has_version'] for s in structs)
    if n_type != n_type_grep or n_ver != n_ver_grep:
        raise TranslateError(fname, 'read %d MESSAGE_TYPE / %d MESSAGE_VERSION declarations, grep counts %d / %d'
                             % (n_type, n_ver, n_type_grep, n_ver_grep))
    payload = []
    for s in structs:
        if s['has_type'] or s['has_version']:
            if s['has_type'] != 1 or s['has_version'] != 1:
                raise TranslateError('%s:%d' % (fname, s['line']),
                                     'struct %s declares MESSAGE_TYPE %d times and MESSAGE_VERSION %d times'
                                     % (s['name'], s['has_type'], s['has_version']))
            payload.append({'name': s['name'], 'file': s['file'], 'line': s['line']})
    groups = []
    for sname, prefix in CONST_GROUPS:
        for s in structs:
            if s['name'] == sname:
                names = [c for c in s['consts'] if c.startswith(prefix)]
                n_grep = len(re.findall(r'^\s*static\s+const(?:expr)?\s+\w+\s+%s\w*\s*=' % re.escape(prefix), raw, re.M))
                if not names or n_grep != len(names):
                    raise TranslateError('%s:%d' % (fname, s['line']), 'constant group %s::%s*: read %d members, grep counts %d'
                                         % (sname, prefix, len(names), n_grep))
                groups.append({'name': '%s::%s*' % (sname, prefix), 'scope': sname, 'underlying': 'static const members',
                               'members': names, 'file': fname, 'line': s['line']})
    return enums, payload, groups


def parse_all(repo):
    paths = header_paths(repo)
    if not paths:
        raise TranslateError(os.path.join(repo, HEADER_DIR), 'no headers found')
    enums, structs, groups = [], [], []
    for p in paths:
        e, s, g = parse_header(p)
        enums += e
        structs += s
        groups += g
    if len(groups) != len(CONST_GROUPS):
        raise TranslateError(HEADER_DIR, 'constant groups found: %s, expected %s' % ([g['name'] for g in groups], CONST_GROUPS))
    for what, lst in (('enum class', enums), ('payload struct', structs)):
        names = [x['name'] for x in lst]
        if len(set(names)) != len(names):
            raise TranslateError(HEADER_DIR, 'two %s blocks with the same qualified name' % what)
    if not any(e['name'] == 'MessageType' for e in enums):
        raise TranslateError(HEADER_DIR + '/defs.h', 'enum class MessageType not found')
    return paths, enums, structs, groups


# ---- the probe ----------------------------------------------------------------------------------------
def probe_source(paths, enums, structs, groups=()):
    L = ['// generated by tools/c03_cxx_extract.py - do not edit', '#include <cstdio>']
    for p in paths:
        L.append('#include <point_one/fusion_engine/messages/%s>' % os.path.basename(p))
    L += ['using namespace point_one::fusion_engine::messages;', 'int main() {']
    for e in enums:
        for m in e['members']:
            L.append('  std::printf("E %s %s %%lld\\n", (long long)%s::%s);' % (e['name'], m, e['name'], m))
        if e['name'] == 'MessageType':
            for m in e['members']:
                L.append('  std::printf("T %s %%d %%d\\n", (int)IsCommand(MessageType::%s), (int)IsResponse(MessageType::%s));'
                         % (m, m, m))
    for g in groups:
        for m in g['members']:
            L.append('  std::printf("E %s %s %%lld\\n", (long long)%s::%s);' % (g['name'], m, g['scope'], m))
    for s in structs:
        L.append('  std::printf("S %s %%lld %%d\\n", (long long)%s::MESSAGE_TYPE, (int)%s::MESSAGE_VERSION);'
                 % (s['name'], s['name'], s['name']))
    L += ['  std::printf("END\\n");', '  return 0;', '}', '']
    return '\n'.join(L)


def switch_source(paths, enums, values):
    """Completeness of the enumerator lists: one case per distinct value, no default, -Werror=switch."""
    L = ['// generated by tools/c03_cxx_extract.py - do not edit',
         '// -Wswitch is an error only for the switches below, not for the switches inside the headers themselves',
         '#pragma GCC diagnostic push', '#pragma GCC diagnostic ignored "-Wswitch"']
    for p in paths:
        L.append('#include <point_one/fusion_engine/messages/%s>' % os.path.basename(p))
    L += ['#pragma GCC diagnostic pop', '#pragma GCC diagnostic error "-Wswitch"',
          'using namespace point_one::fusion_engine::messages;']
    for k, e in enumerate(enums):
        L.append('int complete_%d(%s v) {' % (k, e['name']))
        L.append('  switch (v) {')
        seen = set()
        for m in e['members']:
            val = values[(e['name'], m)]
            if val in seen:
                continue
            seen.add(val)
            L.append('    case %s::%s: return 1;' % (e['name'], m))
        L += ['  }', '  return 0;', '}']
    L.append('')
    return '\n'.join(L)


def compiler():
    for c in (os.environ.get('FE_CXX'), 'g++', 'clang++'):
        if c and subprocess.run(['which', c], stdout=subprocess.DEVNULL, stderr=subprocess.DEVNULL).returncode == 0:
            return c
    raise RuntimeError('no C++ compiler (g++ / clang++) found')


def run_probe(repo, build, paths, enums, structs, groups=(), cxx=None):
    os.makedirs(build, exist_ok=True)
    cxx = cxx or compiler()
    src = os.path.join(build, 'c03_probe.cc')
    exe = os.path.join(build, 'c03_probe')
    with open(src, 'w') as f:
        f.write(probe_source(paths, enums, structs, groups))
    inc = os.path.join(repo, 'src')
    p = subprocess.run([cxx, '-std=c++14', '-O0', '-w', '-I' + inc, src, '-o', exe],
                       stdout=subprocess.PIPE, stderr=subprocess.STDOUT, text=True)
    if p.returncode != 0:
        raise TranslateError('c03_probe.cc', 'probe does not compile (%s): %s' % (cxx, p.stdout[-1500:]))
    p = subprocess.run([exe], stdout=subprocess.PIPE, stderr=subprocess.STDOUT, text=True, timeout=60)
    lines = p.stdout.split('\n')
    if p.returncode != 0 or 'END' not in lines:
        raise TranslateError('c03_probe', 'probe failed: rc=%d %s' % (p.returncode, p.stdout[-500:]))
    values, classif, regs = {}, {}, {}
    for ln in lines:
        t = ln.split(' ')
        if t[0] == 'E':
            values[(t[1], t[2])] = int(t[3])
        elif t[0] == 'T':
            classif[t[1]] = (t[2] == '1', t[3] == '1')
        elif t[0] == 'S':
            regs[t[1]] = (int(t[2]), int(t[3]))
    # every name found was printed
    for e in list(enums) + list(groups):
        for m in e['members']:
            if (e['name'], m) not in values:
                raise TranslateError('c03_probe', 'no value printed for %s::%s' % (e['name'], m))
    for s in structs:
        if s['name'] not in regs:
            raise TranslateError('c03_probe', 'no MESSAGE_TYPE printed for %s' % s['name'])
    # completeness of the enumerator lists
    sw = os.path.join(build, 'c03_switch.cc')
    with open(sw, 'w') as f:
        f.write(switch_source(paths, enums, values))
    p = subprocess.run([cxx, '-std=c++14', '-fsyntax-only', '-I' + inc, sw],
                       stdout=subprocess.PIPE, stderr=subprocess.STDOUT, text=True)
    if p.returncode != 0:
        raise TranslateError('c03_switch.cc', 'the parser missed an enumerator (or misread one): %s' % p.stdout[-1500:])
    return values, classif, regs


def extract(repo, build, cxx=None):
    """-> table dict (JSON-able)."""
    paths, enums, structs, groups = parse_all(repo)
    values, classif, regs = run_probe(repo, build, paths, enums, structs, groups, cxx)
    table = {
        'enums': [{'name': e['name'], 'underlying': e['underlying'], 'file': e['file'], 'line': e['line'],
                   'members': [[m, values[(e['name'], m)]] for m in e['members']]} for e in enums],
        'const_groups': [{'name': g['name'], 'underlying': g['underlying'], 'file': g['file'], 'line': g['line'],
                          'members': [[m, values[(g['name'], m)]] for m in g['members']]} for g in groups],
        'classification': [[m, values[('MessageType', m)], classif[m][0], classif[m][1]]
                           for e in enums if e['name'] == 'MessageType' for m in e['members']],
        'structs': [{'name': s['name'], 'file': s['file'], 'line': s['line'], 'type': regs[s['name']][0],
                     'version': regs[s['name']][1]} for s in structs],
        'n_enum_blocks': len(enums),
        'n_enumerators': sum(len(e['members']) for e in enums),
        'sources': sha256_files(paths),
    }
    for e in table['enums'] + table['const_groups']:
        code(e['name'])
        for m, _ in e['members']:
            code(m)
    for s in table['structs']:
        code(s['name'])
    return table


# ---- Lean emission ------------------------------------------------------------------------------------
def to_lean(t):
    L = ['/-',
         'GENERATED by tools/c03_cxx_extract.py from src/point_one/fusion_engine/messages/*.h - do not edit.',
         'Names are Nat codes (big-endian value of the UTF-8 bytes); every value was printed by a C++ probe',
         'compiled against the real headers: (long long)E::NAME, IsCommand/IsResponse(MessageType::NAME),',
         'S::MESSAGE_TYPE, (int)S::MESSAGE_VERSION.',
         '-/',
         'namespace FeVerif.C03.Cxx', '']
    for e in t['enums'] + t['const_groups']:
        L.append('/-- `%s %s : %s` (%s) -/' % ('enum class' if e in t['enums'] else 'constants', e['name'], e['underlying'], e['file']))
        L.append('def enum_%s : List (Nat × Int) := [' % lean_ident(e['name']))
        items = ['  (%s, %s)' % (lean_nat(m), lean_int(v)) for m, v in e['members']]
        for k, ((m, v), it) in enumerate(zip(e['members'], items)):
            L.append(it + (',' if k + 1 < len(items) else '') + ' -- ' + m)
        L.append(']')
        L.append('')
    L.append('/-- every `enum class` of the message headers: (qualified name, enumerators) -/')
    L.append('def enums : List (Nat × List (Nat × Int)) := [')
    for k, e in enumerate(t['enums']):
        L.append('  (%s, enum_%s)%s -- %s' % (lean_nat(e['name']), lean_ident(e['name']),
                                             ',' if k + 1 < len(t['enums']) else '', e['name']))
    L.append(']')
    L.append('')
    L.append('/-- wire enumerations spelled as groups of `static const` members (hand-listed in the translator) -/')
    L.append('def constGroups : List (Nat × List (Nat × Int)) := [')
    for k, e in enumerate(t['const_groups']):
        L.append('  (%s, enum_%s)%s -- %s' % (lean_nat(e['name']), lean_ident(e['name']),
                                             ',' if k + 1 < len(t['const_groups']) else '', e['name']))
    L.append(']')
    L.append('')
    L.append('/-- for every `MessageType` enumerator: (value, IsCommand, IsResponse) -/')
    L.append('def classification : List (Int × Bool × Bool) := [')
    for k, (m, v, c, r) in enumerate(t['classification']):
        L.append('  (%s, %s, %s)%s -- %s' % (lean_int(v), str(c).lower(), str(r).lower(),
                                             ',' if k + 1 < len(t['classification']) else '', m))
    L.append(']')
    L.append('')
    L.append('/-- every struct declaring MESSAGE_TYPE / MESSAGE_VERSION: (qualified name, type, version) -/')
    L.append('def structs : List (Nat × Int × Int) := [')
    for k, s in enumerate(t['structs']):
        L.append('  (%s, %s, %s)%s -- %s' % (lean_nat(s['name']), lean_int(s['type']), lean_int(s['version']),
                                             ',' if k + 1 < len(t['structs']) else '', s['name']))
    L.append(']')
    L += ['', 'end FeVerif.C03.Cxx', '']
    return '\n'.join(L)


def main():
    repo = os.environ.get('FE_REPO', '/repo')
    here = os.path.dirname(os.path.dirname(os.path.abspath(__file__)))
    lean = os.environ.get('FE_LEAN', os.path.join(here, 'lean'))
    build = os.environ.get('FE_BUILD', os.path.join(here, 'build'))
    t = extract(repo, build)
    out = os.path.join(lean, 'FeVerif', 'Generated', 'C03Cxx.lean')
    changed = write_if_changed(out, to_lean(t))
    with open(os.path.join(build, 'c03_cxx.json'), 'w') as f:
        json.dump(t, f, indent=1)
    print('%s: %d enum class blocks, %d enumerators, %d payload structs (%s)'
          % (out, t['n_enum_blocks'], t['n_enumerators'], len(t['structs']), 'rewritten' if changed else 'unchanged'))


if __name__ == '__main__':
    try:
        main()
    except TranslateError as e:
        print('TRANSLATE-ERROR: %s' % e)
        sys.exit(2)
