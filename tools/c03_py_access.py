"""C03 - the Python side of the enumeration tables as a USER gets it: every access path from a name to a number.

`c03_py_extract.py` reads `E.__members__` right after the import.  A user of the package never does that: he writes
`E.NAME`, `E['NAME']`, `E('NAME')`, `E['name']`, `E.from_string('name')`, `E(5).name`, `for m in E`, and he does so in a
process in which OTHER enumerations have been asked before.  This script (run in a FRESH interpreter with
PYTHONPATH=$FE_REPO/python, one interpreter per order) asks EVERY enumeration of `fusion_engine_client.messages`
(every `IntEnum` subclass alive after importing messages/*.py: declared, `@enum_bitmask`-derived, and any other loaded
subclass as a further source of shared state) for EVERY name and EVERY number any of them defines, through every path
of `PATHS`, in the order given by the spec, and prints what came back:

  views[path][enum] = [(name, number)]   the table "named value -> number" of that enumeration as seen through that
                                         path at that moment of the process (unresolved asks are absent)
  details                                every answer that is not the member `__members__` had for that name before the
                                         sweep began (other number, member of another class, own name unresolved, a name /
                                         number resolved that the enumeration does not define), with the expression
                                         evaluated and the repr of what it returned

Names are identified up to the spelling rule the class itself documents (`E[s]` / `E(s)` / `from_string(s)` accept `s` or
`s.upper()`; `from_string(s, case_insensitive=True)` accepts any case): an answer to the spelling `s` is filed under
the member name of the asked enumeration that the rule maps `s` to, if it has one (when several spellings of one name
are answered differently, the view keeps the first answer that is not the `__members__` number), and is listed in
`extras` otherwise (a name the enumeration does not define resolved: the table has one name too many).

spec (JSON, argv[2]):  {"label": "forward" | "reverse" | "random-<seed>-<k>", "enum_order": "forward" | "reverse" | "random",
                        "nesting": "enum-major" | "path-major" | "name-major" | "shuffled", "seed": <int, for random>}
The calls with `raise_on_unrecognized=False` add a member to the enumeration when the look-up fails; they are made
in a last pass, for the names / numbers the enumeration itself defines only, so that they cannot disturb the sweep.
"""
import enum
import importlib
import json
import os
import random
import subprocess
import sys

sys.path.insert(0, os.path.dirname(os.path.abspath(__file__)))

PKG = 'fusion_engine_client.messages'


def _same(n):
    return n


def _lower_if_upper(n):
    return n.lower() if n.upper() == n else n


def _lower(n):
    return n.lower()


def _mixed_if_upper(n):
    return ''.join(c.lower() if i % 2 else c for i, c in enumerate(n)) if n.upper() == n else n


# (path, kind, expression as the user writes it, spelling of the asked name, spelling rule of the class, pass)
#   kind 'name': name -> member; 'value': number -> member; 'all': the whole enumeration at once
#   rule 'exact': the spelling must be the member name; 'upper': the spelling or its upper-case form; 'ci': any case
PATHS = [
    ('attr', 'name', '{E}.{s}', _same, 'exact', 0),
    ('members', 'all', '{E}.__members__', None, None, 0),
    ('getitem', 'name', '{E}[{s!r}]', _same, 'upper', 0),
    ('call', 'name', '{E}({s!r})', _same, 'upper', 0),
    ('from_string', 'name', '{E}.from_string({s!r})', _same, 'upper', 0),
    ('from_string_ci', 'name', '{E}.from_string({s!r}, case_insensitive=True)', _lower, 'ci', 0),
    ('getitem_lower', 'name', '{E}[{s!r}]', _lower_if_upper, 'upper', 0),
    ('getitem_mixed', 'name', '{E}[{s!r}]', _mixed_if_upper, 'upper', 0),
    ('call_lower', 'name', '{E}({s!r})', _lower_if_upper, 'upper', 0),
    ('by_value', 'value', '{E}({v})', None, None, 0),
    ('getitem_value', 'value', '{E}[{v}]', None, None, 0),
    ('iteration', 'all', 'list({E})', None, None, 0),
    ('reversed', 'all', 'list(reversed({E}))', None, None, 0),
    ('call_keep', 'name', '{E}({s!r}, raise_on_unrecognized=False)', _same, 'upper', 1),
    ('by_value_keep', 'value', '{E}({v}, raise_on_unrecognized=False)', None, None, 1),
]
PATH_INFO = dict((p[0], p) for p in PATHS)
# value-keyed paths: the entry is filed under the NAME OF THE MEMBER RETURNED (an alias resolves to the first name of its number)
BY_VALUE = ('by_value', 'getitem_value', 'iteration', 'reversed', 'by_value_keep')


def evaluate(path, E, arg):
    if path == 'attr':
        return getattr(E, arg)
    if path in ('getitem', 'getitem_lower', 'getitem_mixed', 'getitem_value'):
        return E[arg]
    if path in ('call', 'call_lower', 'by_value'):
        return E(arg)
    if path == 'from_string':
        return E.from_string(arg)
    if path == 'from_string_ci':
        return E.from_string(arg, case_insensitive=True)
    if path in ('call_keep', 'by_value_keep'):
        return E(arg, raise_on_unrecognized=False)
    if path == 'members':
        return list(E.__members__.items())
    if path == 'iteration':
        return [(m.name, m) for m in E]
    if path == 'reversed':
        return [(m.name, m) for m in reversed(E)]
    raise ValueError(path)


def own_name_for(rule, s, own):
    """The member name of the asked enumeration that its spelling rule maps the spelling `s` to (None: none)."""
    if s in own:
        return s
    if rule == 'upper' and s.upper() in own:
        return s.upper()
    if rule == 'ci':
        for n in own:
            if n.lower() == s.lower():
                return n
    return None


def describe(r):
    if isinstance(r, enum.Enum):
        return {'repr': repr(r), 'class': type(r).__name__, 'member': r.name, 'value': int(r)}
    return {'repr': repr(r), 'class': type(r).__name__, 'member': None, 'value': int(r)}


def sweep(spec):
    import fusion_engine_client
    import c03_py_extract as px
    repo = os.environ.get('FE_REPO', '/repo')
    f = os.path.realpath(fusion_engine_client.__file__)
    if not f.startswith(os.path.realpath(repo) + os.sep):
        raise SystemExit('fusion_engine_client imported from outside %s: %s' % (repo, f))
    importlib.import_module(PKG)
    for p in px.source_paths(repo):
        b = os.path.basename(p)[:-3]
        importlib.import_module(PKG if b == '__init__' else PKG + '.' + b)
    from fusion_engine_client.utils.enum_utils import IntEnum
    classes = sorted(px.all_subclasses(IntEnum), key=lambda c: (c.__name__, c.__module__, c.__qualname__))
    if any(a.__name__ == b.__name__ for a, b in zip(classes, classes[1:])):
        raise SystemExit('two IntEnum classes share a name')
    # what every enumeration is before anybody asked anything
    base = dict((c.__name__, [(n, int(m)) for n, m in c.__members__.items()]) for c in classes)
    own = dict((k, dict(v)) for k, v in base.items())
    all_names = sorted(set(n for v in base.values() for n, _ in v))
    all_values = sorted(set(x for v in base.values() for _, x in v))

    rng = random.Random(spec.get('seed', 0))
    order = list(classes)
    if spec['enum_order'] == 'reverse':
        order.reverse()
    elif spec['enum_order'] == 'random':
        rng.shuffle(order)
    paths = [p for p in PATHS if p[0] != 'from_string' or all(hasattr(c, 'from_string') for c in classes)]
    names, values = list(all_names), list(all_values)
    if spec['enum_order'] == 'random':
        rng.shuffle(names)
        rng.shuffle(values)

    def events(ps, last):
        """(class, path, argument) of one pass."""
        ev = []
        for c in order:
            for p in ps:
                if p[1] == 'all':
                    ev.append((c, p[0], None, 0))
                elif p[1] == 'name':
                    for k, n in enumerate(names):
                        if not last or n in own[c.__name__]:
                            ev.append((c, p[0], n, k))
                else:
                    for k, v in enumerate(values):
                        if not last or v in own[c.__name__].values():
                            ev.append((c, p[0], v, k))
        nesting = spec.get('nesting', 'enum-major')
        pidx = dict((p[0], i) for i, p in enumerate(ps))
        if nesting == 'path-major':
            ev.sort(key=lambda e: pidx[e[1]])                  # stable: enumeration order inside each path
        elif nesting == 'name-major':
            ev.sort(key=lambda e: (PATH_INFO[e[1]][1] != 'name', PATH_INFO[e[1]][1] == 'all', e[3]))
        elif nesting == 'shuffled':
            rng.shuffle(ev)
        return ev

    if spec['enum_order'] == 'random':
        paths = list(paths)
        rng.shuffle(paths)
    got = {}          # (path, enum) -> {key: value}
    details = []      # answers about a name / number the asked enumeration defines that are not what it had before the sweep
    extras = []       # names / numbers the asked enumeration does NOT define and that resolved all the same (first 400)
    n_extras = [0]
    n_asked = 0

    def note(c, path, arg, expr, key, r=None, err=None, why='', extra=False):
        if extra:
            n_extras[0] += 1
        if len(extras if extra else details) < (400 if extra else 4000):
            d = {'enum': c.__name__, 'path': path, 'expression': expr, 'name': key, 'asked': arg, 'why': why}
            if err is not None:
                d['error'] = err
            else:
                d.update(describe(r))
            (extras if extra else details).append(d)

    for last in (0, 1):
        for c, path, arg, _ in events([p for p in paths if p[5] == last], last):
            _, kind, tmpl, spell, rule, _ = PATH_INFO[path]
            cn = c.__name__
            tab = got.setdefault((path, cn), {})
            n_asked += 1
            if kind == 'all':
                expr = tmpl.format(E=cn)
                try:
                    items = evaluate(path, c, None)
                except Exception as e:  # noqa: BLE001
                    note(c, path, None, expr, None, err='%s: %s' % (type(e).__name__, e), why='raised')
                    continue
                for n, m in items:
                    if n in tab and tab[n] != int(m):
                        note(c, path, None, expr, n, r=m, why='name listed twice with different numbers')
                    tab[n] = int(m)
                    if type(m) is not c or own[cn].get(n) != int(m) or (path != 'members' and m.name != n):
                        note(c, path, None, expr, n, r=m, why='not the member %s.%s had before the sweep' % (cn, n))
                continue
            if kind == 'name':
                s = spell(arg)
                expr = tmpl.format(E=cn, s=s)
                mine = own_name_for(rule, s, own[cn])
                try:
                    r = evaluate(path, c, s)
                except Exception as e:  # noqa: BLE001
                    if mine is not None:
                        note(c, path, s, expr, mine, err='%s: %s' % (type(e).__name__, e), why='own name not resolved')
                    continue
                if not isinstance(r, (enum.Enum, int)) or isinstance(r, bool):
                    continue          # an attribute of the class that is not an enumerator (method, constant)
                if mine is None:
                    note(c, path, s, expr, s, r=r, why='%s defines no name %r' % (cn, s), extra=True)
                    continue
                key = mine
                if key in tab and tab[key] != int(r):
                    note(c, path, s, expr, key, r=r, why='another spelling of this name was answered %d' % tab[key])
                if key not in tab or tab[key] == own[cn][mine]:
                    tab[key] = int(r)          # several spellings, different answers: the first that is not the table's number stays
                if type(r) is not c or own[cn][mine] != int(r):
                    note(c, path, s, expr, key, r=r, why='not the member %s.%s had before the sweep (%d)' % (cn, mine, own[cn][mine]))
                continue
            # kind == 'value'
            expr = tmpl.format(E=cn, v=arg)
            mine = arg in own[cn].values()
            try:
                r = evaluate(path, c, arg)
            except Exception as e:  # noqa: BLE001
                if mine:
                    note(c, path, arg, expr, [n for n, v in base[cn] if v == arg][0],
                         err='%s: %s' % (type(e).__name__, e), why='own number not resolved')
                continue
            if not isinstance(r, (enum.Enum, int)) or isinstance(r, bool):
                continue
            key = r.name if isinstance(r, enum.Enum) else str(r)
            if not mine:
                note(c, path, arg, expr, key, r=r, why='%s defines no number %d' % (cn, arg), extra=True)
                continue
            if key in tab and tab[key] != int(r):
                note(c, path, arg, expr, key, r=r, why='the member of this name was also returned with the number %d' % tab[key])
            if key not in tab or tab[key] == own[cn].get(key):
                tab[key] = int(r)
            if type(r) is not c or int(r) != arg or own[cn].get(key) != arg:
                note(c, path, arg, expr, key, r=r, why='not a member %s had for %d before the sweep' % (cn, arg))

    views = {}
    for (path, cn), tab in got.items():
        first = [n for n, _ in base[cn] if n in tab]
        rest = sorted(n for n in tab if n not in own[cn])
        views.setdefault(path, {})[cn] = [[n, tab[n]] for n in first + rest]
    in_pkg = [c.__name__ for c in classes if c.__module__ == PKG or c.__module__.startswith(PKG + '.')]
    return {'spec': spec, 'label': spec['label'], 'enum_order': [c.__name__ for c in order],
            'path_order': [p[0] for p in paths], 'nesting': spec.get('nesting', 'enum-major'),
            'paths': [{'path': p[0], 'kind': p[1], 'expression': p[2], 'by_value': p[0] in BY_VALUE} for p in paths],
            'enums_in_package': in_pkg, 'enums_asked': len(classes), 'names_asked': len(all_names),
            'numbers_asked': len(all_values), 'asks': n_asked, 'views': views, 'details': details,
            'details_truncated': len(details) >= 4000, 'extras': extras, 'extras_total': n_extras[0]}


def run_sweep(repo, spec, timeout=600):
    """Run one sweep in a fresh interpreter on the tree `repo`; returns the result object or raises RuntimeError."""
    env = dict(os.environ, FE_REPO=repo, PYTHONPATH=os.path.join(repo, 'python'), PYTHONDONTWRITEBYTECODE='1')
    p = subprocess.run([sys.executable, os.path.abspath(__file__), '--sweep', json.dumps(spec)], env=env,
                       stdout=subprocess.PIPE, stderr=subprocess.PIPE, text=True, timeout=timeout, stdin=subprocess.DEVNULL)
    line = [ln for ln in p.stdout.split('\n') if ln.startswith('SWEEP-RESULT: ')]
    if p.returncode != 0 or not line:
        raise RuntimeError('access sweep %s ended without a result (exit status %s): %s'
                           % (spec.get('label'), p.returncode, (p.stderr or p.stdout)[-600:]))
    return json.loads(line[-1][len('SWEEP-RESULT: '):])


def steps(step_list):
    """Evaluate [(enum name, path, argument)] in this order in this (fresh) interpreter; -> [{expression, repr, value | error}]."""
    import c03_py_extract as px
    repo = os.environ.get('FE_REPO', '/repo')
    importlib.import_module(PKG)
    for p in px.source_paths(repo):
        b = os.path.basename(p)[:-3]
        importlib.import_module(PKG if b == '__init__' else PKG + '.' + b)
    from fusion_engine_client.utils.enum_utils import IntEnum
    classes = dict((c.__name__, c) for c in px.all_subclasses(IntEnum))
    res = []
    for en, path, arg in step_list:
        tmpl = PATH_INFO[path][2]
        d = {'expression': tmpl.format(E=en, s=arg, v=arg)}
        try:
            r = evaluate(path, classes[en], arg)
            d.update(describe(r) if isinstance(r, int) else {'repr': repr(r)[:200]})
        except Exception as e:  # noqa: BLE001
            d['error'] = '%s: %s' % (type(e).__name__, e)
        res.append(d)
    return res


def run_steps(repo, step_list, timeout=120):
    env = dict(os.environ, FE_REPO=repo, PYTHONPATH=os.path.join(repo, 'python'), PYTHONDONTWRITEBYTECODE='1')
    p = subprocess.run([sys.executable, os.path.abspath(__file__), '--steps', json.dumps(step_list)], env=env,
                       stdout=subprocess.PIPE, stderr=subprocess.PIPE, text=True, timeout=timeout, stdin=subprocess.DEVNULL)
    line = [ln for ln in p.stdout.split('\n') if ln.startswith('STEPS-RESULT: ')]
    if p.returncode != 0 or not line:
        raise RuntimeError('steps ended without a result (exit status %s): %s' % (p.returncode, (p.stderr or p.stdout)[-400:]))
    return json.loads(line[-1][len('STEPS-RESULT: '):])


def replay_command(repo, spec):
    return "FE_REPO=%s PYTHONPATH=%s/python /venv/bin/python %s --sweep '%s'" % (
        repo, repo, os.path.abspath(__file__), json.dumps(spec))


FIXED_SPECS = [{'label': 'forward', 'enum_order': 'forward', 'nesting': 'enum-major'},
               {'label': 'reverse', 'enum_order': 'reverse', 'nesting': 'enum-major'}]


def random_spec(seed, k):
    return {'label': 'random-%d-%d' % (seed, k), 'enum_order': 'random', 'seed': seed * 1009 + k,
            'nesting': ('shuffled', 'name-major', 'path-major', 'enum-major')[k % 4]}


if __name__ == '__main__':
    import logging
    logging.disable(logging.CRITICAL)
    if len(sys.argv) == 3 and sys.argv[1] == '--sweep':
        res = sweep(json.loads(sys.argv[2]))
        print('SWEEP-RESULT: ' + json.dumps(res))
    elif len(sys.argv) == 3 and sys.argv[1] == '--steps':
        print('STEPS-RESULT: ' + json.dumps(steps(json.loads(sys.argv[2]))))
    else:
        print(__doc__)
        sys.exit(2)
