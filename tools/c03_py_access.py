"""C03 - the Python side of the enumeration tables as a USER gets it: every access path from a name to a number.

`c03_py_extract.py` reads `E.__members__` right after the import.  A user of the package never does that: he writes
`E.NAME`, `E['NAME']`, `E('NAME')`, `E['name']`, `E.from_string('name')`, `E(5).name`, `for m in E`, and he does so in a
process in which OTHER enumerations have been asked before.  This script (run in a FRESH interpreter with
PYTHONPATH=$FE_REPO/python, one interpreter per order) asks EVERY enumeration of `fusion_engine_client.messages`
(every `IntEnum` subclass alive after importing messages/*.py: declared, `@enum_bitmask`-derived, and any other loaded
subclass as a further source of shared state) for EVERY name and EVERY number any of them defines, through every path
of `PATHS`, in the order given by the spec, and prints what came back:

  views[path][enum] = [(name, number)]   the table "named value -> number" of that enumeration as seen through that
                                         path at that moment of the process (unresolved asks are absent)
  details                                every answer that is not the member `__members__` had for that name before the
                                         sweep began (other number, member of another class, own name unresolved, a name /
                                         number resolved that the enumeration does not define), with the expression
                                         evaluated and the repr of what it returned

Names are identified up to the spelling rule the class itself documents (`E[s]` / `E(s)` / `from_string(s)` accept `s` or
`s.upper()`; `from_string(s, case_insensitive=True)` accepts any case): an answer to the spelling `s` is filed under
the member name of the asked enumeration that the rule maps `s` to, if it has one (when several spellings of one name
are answered differently, the view keeps the first answer that is not the `__members__` number), and is listed in
`extras` otherwise (a name the enumeration does not define resolved: the table has one name too many).

spec (JSON, argv[2]):  {"label": "forward" | "reverse" | "random-<seed>-<k>", "enum_order": "forward" | "reverse" | "random",
                        "nesting": "enum-major" | "path-major" | "name-major" | "shuffled", "seed": <int, for random>}
Optional `"lookalikes": {"when": <LOOKALIKE_WHEN>, "last": <LOOKALIKE_MEMBERS>, "rot": <int>}`: FOREIGN LOOK-ALIKES.  An
application may define its own enumerations from the library's base classes (`class DataType(IntEnum)`,
`@enum_bitmask(X) class XMask`) under the NAME of a protocol enumeration.  Before the sweep (before the package
`fusion_engine_client.messages` is imported at all / after the import but before any protocol enumeration has been asked
anything / after every protocol enumeration has been iterated once), for EVERY enumeration of the package the process
defines - by executing ordinary `class` statements - application classes of the same `__name__` for every member
variant of LOOKALIKE_MEMBERS (same number of members with other names and numbers, same names with permuted numbers,
same numbers with other names, an identical copy, one member fewer / more, one fewer + a hidden entry from an unknown
number) times every identity variant of LOOKALIKE_IDENT (`__module__` / `__qualname__` of an application module, of
the protocol enumeration itself, of a class nested in a function), plus `@enum_bitmask` look-alikes of the mask
classes, and uses each like a user would (iteration, len, reversed, `in`, look-ups by name / number / spelling, unknown
numbers and names with and without raise_on_unrecognized).  The variant `last` is defined and used last.  The sweep
then asks the PROTOCOL enumerations only (the look-alikes are not asked and not judged; what they answered about
themselves is returned under `lookalikes.own_answers_wrong` as a note).
The calls with `raise_on_unrecognized=False` add a member to the enumeration when the look-up fails; they are made
in a last pass, for the names / numbers the enumeration itself defines only, so that they cannot disturb the sweep.
"""
import enum
import importlib
import json
import os
import random
import subprocess
import sys

sys.path.insert(0, os.path.dirname(os.path.abspath(__file__)))

PKG = 'fusion_engine_client.messages'


def _same(n):
    return n


def _lower_if_upper(n):
    return n.lower() if n.upper() == n else n


def _lower(n):
    return n.lower()


def _mixed_if_upper(n):
    return ''.join(c.lower() if i % 2 else c for i, c in enumerate(n)) if n.upper() == n else n


# (path, kind, expression as the user writes it, spelling of the asked name, spelling rule of the class, pass)
#   kind 'name': name -> member; 'value': number -> member; 'all': the whole enumeration at once
#   rule 'exact': the spelling must be the member name; 'upper': the spelling or its upper-case form; 'ci': any case
PATHS = [
    ('attr', 'name', '{E}.{s}', _same, 'exact', 0),
    ('members', 'all', '{E}.__members__', None, None, 0),
    ('getitem', 'name', '{E}[{s!r}]', _same, 'upper', 0),
    ('call', 'name', '{E}({s!r})', _same, 'upper', 0),
    ('from_string', 'name', '{E}.from_string({s!r})', _same, 'upper', 0),
    ('from_string_ci', 'name', '{E}.from_string({s!r}, case_insensitive=True)', _lower, 'ci', 0),
    ('getitem_lower', 'name', '{E}[{s!r}]', _lower_if_upper, 'upper', 0),
    ('getitem_mixed', 'name', '{E}[{s!r}]', _mixed_if_upper, 'upper', 0),
    ('call_lower', 'name', '{E}({s!r})', _lower_if_upper, 'upper', 0),
    ('by_value', 'value', '{E}({v})', None, None, 0),
    ('getitem_value', 'value', '{E}[{v}]', None, None, 0),
    ('iteration', 'all', 'list({E})', None, None, 0),
    ('reversed', 'all', 'list(reversed({E}))', None, None, 0),
    ('call_keep', 'name', '{E}({s!r}, raise_on_unrecognized=False)', _same, 'upper', 1),
    ('by_value_keep', 'value', '{E}({v}, raise_on_unrecognized=False)', None, None, 1),
]
PATH_INFO = dict((p[0], p) for p in PATHS)
# value-keyed paths: the entry is filed under the NAME OF THE MEMBER RETURNED (an alias resolves to the first name of its number)
BY_VALUE = ('by_value', 'getitem_value', 'iteration', 'reversed', 'by_value_keep')


def evaluate(path, E, arg):
    if path == 'attr':
        return getattr(E, arg)
    if path in ('getitem', 'getitem_lower', 'getitem_mixed', 'getitem_value'):
        return E[arg]
    if path in ('call', 'call_lower', 'by_value'):
        return E(arg)
    if path == 'from_string':
        return E.from_string(arg)
    if path == 'from_string_ci':
        return E.from_string(arg, case_insensitive=True)
    if path in ('call_keep', 'by_value_keep'):
        return E(arg, raise_on_unrecognized=False)
    if path == 'members':
        return list(E.__members__.items())
    if path == 'iteration':
        return [(m.name, m) for m in E]
    if path == 'reversed':
        return [(m.name, m) for m in reversed(E)]
    raise ValueError(path)


def own_name_for(rule, s, own):
    """The member name of the asked enumeration that its spelling rule maps the spelling `s` to (None: none)."""
    if s in own:
        return s
    if rule == 'upper' and s.upper() in own:
        return s.upper()
    if rule == 'ci':
        for n in own:
            if n.lower() == s.lower():
                return n
    return None


def describe(r):
    if isinstance(r, enum.Enum):
        return {'repr': repr(r), 'class': type(r).__name__, 'member': r.name, 'value': int(r)}
    return {'repr': repr(r), 'class': type(r).__name__, 'member': None, 'value': int(r)}


LOOKALIKE_MEMBERS = ('same-count', 'same-names', 'same-values', 'identical', 'fewer', 'more', 'hidden-to-same-count')
LOOKALIKE_IDENT = ('app-module', 'protocol-module', 'nested')
LOOKALIKE_WHEN = ('before-import', 'before-sweep', 'after-first-use')


def enum_inventory(classes):
    """What a look-alike needs to know of every enumeration, read WITHOUT iterating it."""
    inv = []
    for c in sorted(classes, key=lambda c: (c.__name__, c.__module__, c.__qualname__)):
        d = {'name': c.__name__, 'module': c.__module__, 'qualname': c.__qualname__,
             'members': [[n, int(m)] for n, m in c.__members__.items()],
             'unique': [[n, int(c.__members__[n])] for n in c._member_names_]}
        if hasattr(c, '_enum_values') and hasattr(c, '_enum_offset'):
            of = sorted(set(type(v).__name__ for v in c._enum_values))
            d['mask'] = {'of': of[0] if len(of) == 1 else None, 'offset': int(c._enum_offset)}
        inv.append(d)
    return inv


def inventory_in_child():
    """The inventory as another fresh interpreter sees it (this process must not import the package yet)."""
    p = subprocess.run([sys.executable, os.path.abspath(__file__), '--inventory'], env=dict(os.environ),
                       stdout=subprocess.PIPE, stderr=subprocess.PIPE, text=True, timeout=300, stdin=subprocess.DEVNULL)
    line = [ln for ln in p.stdout.split('\n') if ln.startswith('INVENTORY-RESULT: ')]
    if p.returncode != 0 or not line:
        raise SystemExit('inventory ended without a result: %s' % (p.stderr or p.stdout)[-400:])
    return json.loads(line[-1][len('INVENTORY-RESULT: '):])


def lookalike_members(variant, e):
    """(members of the class statement, unknown number to convert with raise_on_unrecognized=False afterwards | None)."""
    uniq, full = [tuple(x) for x in e['unique']], [tuple(x) for x in e['members']]
    k = len(uniq)
    top = max([v for _, v in full] + [0]) + 1
    if variant == 'same-count':
        return [('APP_KIND_%d' % i, top + i) for i in range(k)], None
    if variant == 'same-names':
        vals = [v for _, v in uniq]
        vals = vals[1:] + vals[:1] if k > 1 else [v + 1 for v in vals]       # same names, same numbers, other pairing
        return [(n, v) for (n, _), v in zip(uniq, vals)], None
    if variant == 'same-values':
        return [('APP_KIND_%d' % i, v) for i, (_, v) in enumerate(uniq)], None
    if variant == 'identical':
        return list(full), None
    if variant == 'fewer':
        return ([(n, v) for n, v in uniq[:-1]] if k > 1 else [('APP_KIND_0', top), ('APP_KIND_1', top + 1)]), None
    if variant == 'more':
        return list(uniq) + [('APP_EXTRA', top)], None
    if variant == 'hidden-to-same-count':
        return ([('APP_KIND_%d' % i, top + i) for i in range(k - 1)], top + k) if k > 1 else (None, None)
    raise ValueError(variant)


def lookalike_source(name, members, ident, e, base='IntEnum', deco=None):
    body = ''.join('    %s = %d\n' % (n, v) for n, v in members) or '    pass\n'
    src = '%sclass %s%s:\n%s' % ('@%s\n' % deco if deco else '', name, '(%s)' % base if base else '', body)
    if ident == 'nested':
        src = 'def make_application_enum():\n%s    return %s\n' % (''.join('    ' + ln + '\n' for ln in src.splitlines()), name)
        return src, '__main__'
    return src, ('app_enums' if ident == 'app-module' else e['module'])


def define(src, module, name, ns_extra):
    ns = dict(ns_extra, __name__=module)
    exec(compile(src, '<application %s>' % module, 'exec'), ns)
    return ns['make_application_enum']() if 'make_application_enum' in ns else ns[name]


def use_lookalike(L, members, unknown, mutate, wrong, label):
    """Use the application class like a user would; its answers about itself that are wrong go to `wrong` (notes only)."""
    want = []
    for n, v in members:
        if v not in [x for _, x in want]:
            want.append((n, v))

    def rounds(expect):
        got = [(m.name, int(m)) for m in L]
        if got != expect:
            wrong.append('%s: list() = %s, defined %s' % (label, got[:6], expect[:6]))
        if len(L) != len(expect):
            wrong.append('%s: len() = %d, defined %d' % (label, len(L), len(expect)))
        if [(m.name, int(m)) for m in reversed(L)] != expect[::-1]:
            wrong.append('%s: reversed() differs from the definition' % label)
        for n, v in expect[:3] + expect[-3:]:
            if v not in L or getattr(L, n) not in L:
                wrong.append('%s: %s not in the class' % (label, n))

    rounds(want)
    for n, v in members[:4] + members[-4:]:
        for f in (lambda: L[n], lambda: L(n), lambda: L(v), lambda: L[v], lambda: getattr(L, n), lambda: L[_lower_if_upper(n)],
                  lambda: L.from_string(n.lower(), case_insensitive=True), lambda: L(n, raise_on_unrecognized=False),
                  lambda: L(v, raise_on_unrecognized=False)):
            try:
                if int(f()) != v:
                    wrong.append('%s: a look-up of %s gave %d' % (label, n, int(f())))
            except Exception as ex:  # noqa: BLE001
                wrong.append('%s: a look-up of %s raised %s' % (label, n, type(ex).__name__))
    far = max([v for _, v in members] + [0]) + 1000
    for f in (lambda: L(far), lambda: L[far], lambda: L('APP_NO_SUCH_NAME'), lambda: L['APP_NO_SUCH_NAME'],
              lambda: L.from_string('app_no_such_name', case_insensitive=True)):
        try:
            f()
            wrong.append('%s: an unknown name / number resolved' % label)
        except (KeyError, ValueError):
            pass
    if unknown is not None:
        L(unknown, raise_on_unrecognized=False)
    if mutate:
        L(far + 1, raise_on_unrecognized=False)
        rounds(want)
        L('APP_LATE_NAME', raise_on_unrecognized=False)
        if 'APP_LATE_NAME' not in [n for n, _ in want]:
            want = want + [('APP_LATE_NAME', int(L.APP_LATE_NAME))]
    rounds(want)


def lookalikes(cfg, inv):
    """Define and use the application classes; -> (the classes [kept alive], report)."""
    from fusion_engine_client.utils.enum_utils import IntEnum, enum_bitmask
    last = cfg.get('last', 'same-count')
    rot = int(cfg.get('rot', 0))
    variants = [v for v in LOOKALIKE_MEMBERS if v != last] + [last]
    idents = [LOOKALIKE_IDENT[(i + rot) % len(LOOKALIKE_IDENT)] for i in range(len(LOOKALIKE_IDENT))]
    by_name = dict((e['name'], e) for e in inv)
    keep, wrong, sources, failed = [], [], {}, []
    n = 0
    for variant in variants:
        for ident in idents:
            made = {}
            for e in inv:
                if e.get('mask'):
                    continue
                members, unknown = lookalike_members(variant, e)
                if members is None:
                    continue
                src, module = lookalike_source(e['name'], members, ident, e)
                label = 'application %s (%s, %s)' % (e['name'], variant, ident)
                try:
                    L = define(src, module, e['name'], {'IntEnum': IntEnum})
                    keep.append(L)
                    made[e['name']] = L
                    n += 1
                    use_lookalike(L, members, unknown, variant != last, wrong, label)
                except Exception as ex:  # noqa: BLE001
                    failed.append('%s: %s: %s' % (label, type(ex).__name__, ex))
                if variant == last and ident == idents[-1]:
                    sources[e['name']] = ('# __name__ = %r\n' % module) + src + (
                        '%s = make_application_enum()\n' % e['name'] if ident == 'nested' else '') + (
                        '%s(%d, raise_on_unrecognized=False)\n' % (e['name'], unknown) if unknown is not None else '') + (
                        'list(%s); len(%s); list(reversed(%s))  # ...\n' % ((e['name'],) * 3))
            for e in inv:
                of = (e.get('mask') or {}).get('of')
                if of not in made:
                    continue
                X = made[of]
                off = min([e['mask']['offset']] + [int(m) for m in X.__members__.values()])
                src, module = lookalike_source(e['name'], [], ident, e, base=None, deco='enum_bitmask(X, offset=%d)' % off)
                label = 'application %s (@enum_bitmask of the %s %s, %s)' % (e['name'], variant, of, ident)
                try:
                    M = define(src, module, e['name'], {'enum_bitmask': enum_bitmask, 'X': X})
                    keep.append(M)
                    n += 1
                    members = [(k, int(v)) for k, v in M.__members__.items()]
                    use_lookalike(M, members, None, variant != last, wrong, label)
                    xs = [m for m in X][:5]
                    if M.to_values(M.to_bitmask(xs)) != xs:
                        wrong.append('%s: to_values(to_bitmask(x)) != x' % label)
                    M.to_string(M.to_bitmask(xs))
                except Exception as ex:  # noqa: BLE001
                    failed.append('%s: %s: %s' % (label, type(ex).__name__, ex))
                if variant == last and ident == idents[-1]:
                    sources[e['name']] = ('# __name__ = %r; X = the application %s above\n' % (module, of)) + src
    return keep, {'when': cfg['when'], 'last': last, 'variants': variants, 'idents': idents, 'classes_defined': n,
                  'last_defined': sources, 'own_answers_wrong': wrong[:40], 'own_answers_wrong_total': len(wrong),
                  'not_definable': failed[:40]}


def sweep(spec):
    import fusion_engine_client
    import c03_py_extract as px
    repo = os.environ.get('FE_REPO', '/repo')
    f = os.path.realpath(fusion_engine_client.__file__)
    if not f.startswith(os.path.realpath(repo) + os.sep):
        raise SystemExit('fusion_engine_client imported from outside %s: %s' % (repo, f))
    lk = spec.get('lookalikes')
    foreign, lk_keep, lk_report = set(), None, None

    def lookalike_stage(inv):
        import gc
        from fusion_engine_client.utils.enum_utils import IntEnum as base_cls
        gc.collect()
        pre = set(px.all_subclasses(base_cls))
        keep, report = lookalikes(lk, inv)
        gc.collect()
        return keep, report, set(px.all_subclasses(base_cls)) - pre

    if lk and lk['when'] == 'before-import':
        if any(m == PKG or m.startswith(PKG + '.') for m in sys.modules):
            raise SystemExit('%s is imported already' % PKG)
        lk_keep, lk_report, foreign = lookalike_stage(inventory_in_child())
    importlib.import_module(PKG)
    for p in px.source_paths(repo):
        b = os.path.basename(p)[:-3]
        importlib.import_module(PKG if b == '__init__' else PKG + '.' + b)
    from fusion_engine_client.utils.enum_utils import IntEnum
    if lk and lk['when'] != 'before-import':
        protocol = px.all_subclasses(IntEnum)
        if lk['when'] == 'after-first-use':
            for c in sorted(protocol, key=lambda c: c.__name__):
                list(c), len(c), list(reversed(c))
        elif lk['when'] != 'before-sweep':
            raise SystemExit('lookalikes.when: %r' % lk['when'])
        lk_keep, lk_report, foreign = lookalike_stage(enum_inventory(protocol))
    classes = sorted((c for c in px.all_subclasses(IntEnum) if c not in foreign),
                     key=lambda c: (c.__name__, c.__module__, c.__qualname__))
    if any(a.__name__ == b.__name__ for a, b in zip(classes, classes[1:])):
        raise SystemExit('two IntEnum classes share a name')
    # what every enumeration is before anybody asked anything
    base = dict((c.__name__, [(n, int(m)) for n, m in c.__members__.items()]) for c in classes)
    own = dict((k, dict(v)) for k, v in base.items())
    all_names = sorted(set(n for v in base.values() for n, _ in v))
    all_values = sorted(set(x for v in base.values() for _, x in v))

    rng = random.Random(spec.get('seed', 0))
    order = list(classes)
    if spec['enum_order'] == 'reverse':
        order.reverse()
    elif spec['enum_order'] == 'random':
        rng.shuffle(order)
    paths = [p for p in PATHS if p[0] != 'from_string' or all(hasattr(c, 'from_string') for c in classes)]
    names, values = list(all_names), list(all_values)
    if spec['enum_order'] == 'random':
        rng.shuffle(names)
        rng.shuffle(values)

    def events(ps, last):
        """(class, path, argument) of one pass."""
        ev = []
        for c in order:
            for p in ps:
                if p[1] == 'all':
                    ev.append((c, p[0], None, 0))
                elif p[1] == 'name':
                    for k, n in enumerate(names):
                        if not last or n in own[c.__name__]:
                            ev.append((c, p[0], n, k))
                else:
                    for k, v in enumerate(values):
                        if not last or v in own[c.__name__].values():
                            ev.append((c, p[0], v, k))
        nesting = spec.get('nesting', 'enum-major')
        pidx = dict((p[0], i) for i, p in enumerate(ps))
        if nesting == 'path-major':
            ev.sort(key=lambda e: pidx[e[1]])                  # stable: enumeration order inside each path
        elif nesting == 'name-major':
            ev.sort(key=lambda e: (PATH_INFO[e[1]][1] != 'name', PATH_INFO[e[1]][1] == 'all', e[3]))
        elif nesting == 'shuffled':
            rng.shuffle(ev)
        return ev

    if spec['enum_order'] == 'random':
        paths = list(paths)
        rng.shuffle(paths)
    got = {}          # (path, enum) -> {key: value}
    details = []      # answers about a name / number the asked enumeration defines that are not what it had before the sweep
    extras = []       # names / numbers the asked enumeration does NOT define and that resolved all the same (first 400)
    n_extras = [0]
    n_asked = 0

    def note(c, path, arg, expr, key, r=None, err=None, why='', extra=False):
        if extra:
            n_extras[0] += 1
        if len(extras if extra else details) < (400 if extra else 4000):
            d = {'enum': c.__name__, 'path': path, 'expression': expr, 'name': key, 'asked': arg, 'why': why}
            if err is not None:
                d['error'] = err
            else:
                d.update(describe(r))
            (extras if extra else details).append(d)

    for last in (0, 1):
        for c, path, arg, _ in events([p for p in paths if p[5] == last], last):
            _, kind, tmpl, spell, rule, _ = PATH_INFO[path]
            cn = c.__name__
            tab = got.setdefault((path, cn), {})
            n_asked += 1
            if kind == 'all':
                expr = tmpl.format(E=cn)
                try:
                    items = evaluate(path, c, None)
                except Exception as e:  # noqa: BLE001
                    note(c, path, None, expr, None, err='%s: %s' % (type(e).__name__, e), why='raised')
                    continue
                for n, m in items:
                    if n in tab and tab[n] != int(m):
                        note(c, path, None, expr, n, r=m, why='name listed twice with different numbers')
                    tab[n] = int(m)
                    if type(m) is not c or own[cn].get(n) != int(m) or (path != 'members' and m.name != n):
                        note(c, path, None, expr, n, r=m, why='not the member %s.%s had before the sweep' % (cn, n))
                continue
            if kind == 'name':
                s = spell(arg)
                expr = tmpl.format(E=cn, s=s)
                mine = own_name_for(rule, s, own[cn])
                try:
                    r = evaluate(path, c, s)
                except Exception as e:  # noqa: BLE001
                    if mine is not None:
                        note(c, path, s, expr, mine, err='%s: %s' % (type(e).__name__, e), why='own name not resolved')
                    continue
                if not isinstance(r, (enum.Enum, int)) or isinstance(r, bool):
                    continue          # an attribute of the class that is not an enumerator (method, constant)
                if mine is None:
                    note(c, path, s, expr, s, r=r, why='%s defines no name %r' % (cn, s), extra=True)
                    continue
                key = mine
                if key in tab and tab[key] != int(r):
                    note(c, path, s, expr, key, r=r, why='another spelling of this name was answered %d' % tab[key])
                if key not in tab or tab[key] == own[cn][mine]:
                    tab[key] = int(r)          # several spellings, different answers: the first that is not the table's number stays
                if type(r) is not c or own[cn][mine] != int(r):
                    note(c, path, s, expr, key, r=r, why='not the member %s.%s had before the sweep (%d)' % (cn, mine, own[cn][mine]))
                continue
            # kind == 'value'
            expr = tmpl.format(E=cn, v=arg)
            mine = arg in own[cn].values()
            try:
                r = evaluate(path, c, arg)
            except Exception as e:  # noqa: BLE001
                if mine:
                    note(c, path, arg, expr, [n for n, v in base[cn] if v == arg][0],
                         err='%s: %s' % (type(e).__name__, e), why='own number not resolved')
                continue
            if not isinstance(r, (enum.Enum, int)) or isinstance(r, bool):
                continue
            key = r.name if isinstance(r, enum.Enum) else str(r)
            if not mine:
                note(c, path, arg, expr, key, r=r, why='%s defines no number %d' % (cn, arg), extra=True)
                continue
            if key in tab and tab[key] != int(r):
                note(c, path, arg, expr, key, r=r, why='the member of this name was also returned with the number %d' % tab[key])
            if key not in tab or tab[key] == own[cn].get(key):
                tab[key] = int(r)
            if type(r) is not c or int(r) != arg or own[cn].get(key) != arg:
                note(c, path, arg, expr, key, r=r, why='not a member %s had for %d before the sweep' % (cn, arg))

    views = {}
    for (path, cn), tab in got.items():
        first = [n for n, _ in base[cn] if n in tab]
        rest = sorted(n for n in tab if n not in own[cn])
        views.setdefault(path, {})[cn] = [[n, tab[n]] for n in first + rest]
    in_pkg = [c.__name__ for c in classes if c.__module__ == PKG or c.__module__.startswith(PKG + '.')]
    return {'spec': spec, 'label': spec['label'], 'enum_order': [c.__name__ for c in order],
            'path_order': [p[0] for p in paths], 'nesting': spec.get('nesting', 'enum-major'),
            'paths': [{'path': p[0], 'kind': p[1], 'expression': p[2], 'by_value': p[0] in BY_VALUE} for p in paths],
            'enums_in_package': in_pkg, 'enums_asked': len(classes), 'names_asked': len(all_names),
            'numbers_asked': len(all_values), 'asks': n_asked, 'views': views, 'details': details,
            'details_truncated': len(details) >= 4000, 'extras': extras, 'extras_total': n_extras[0],
            'lookalikes': lk_report}


def run_sweep(repo, spec, timeout=600):
    """Run one sweep in a fresh interpreter on the tree `repo`; returns the result object or raises RuntimeError."""
    env = dict(os.environ, FE_REPO=repo, PYTHONPATH=os.path.join(repo, 'python'), PYTHONDONTWRITEBYTECODE='1')
    p = subprocess.run([sys.executable, os.path.abspath(__file__), '--sweep', json.dumps(spec)], env=env,
                       stdout=subprocess.PIPE, stderr=subprocess.PIPE, text=True, timeout=timeout, stdin=subprocess.DEVNULL)
    line = [ln for ln in p.stdout.split('\n') if ln.startswith('SWEEP-RESULT: ')]
    if p.returncode != 0 or not line:
        raise RuntimeError('access sweep %s ended without a result (exit status %s): %s'
                           % (spec.get('label'), p.returncode, (p.stderr or p.stdout)[-600:]))
    return json.loads(line[-1][len('SWEEP-RESULT: '):])


def steps(step_list):
    """Evaluate [(enum name, path, argument)] in this order in this (fresh) interpreter; -> [{expression, repr, value | error}]."""
    import c03_py_extract as px
    repo = os.environ.get('FE_REPO', '/repo')
    importlib.import_module(PKG)
    for p in px.source_paths(repo):
        b = os.path.basename(p)[:-3]
        importlib.import_module(PKG if b == '__init__' else PKG + '.' + b)
    from fusion_engine_client.utils.enum_utils import IntEnum
    classes = dict((c.__name__, c) for c in px.all_subclasses(IntEnum))
    res = []
    for en, path, arg in step_list:
        tmpl = PATH_INFO[path][2]
        d = {'expression': tmpl.format(E=en, s=arg, v=arg)}
        try:
            r = evaluate(path, classes[en], arg)
            d.update(describe(r) if isinstance(r, int) else {'repr': repr(r)[:200]})
        except Exception as e:  # noqa: BLE001
            d['error'] = '%s: %s' % (type(e).__name__, e)
        res.append(d)
    return res


def run_steps(repo, step_list, timeout=120):
    env = dict(os.environ, FE_REPO=repo, PYTHONPATH=os.path.join(repo, 'python'), PYTHONDONTWRITEBYTECODE='1')
    p = subprocess.run([sys.executable, os.path.abspath(__file__), '--steps', json.dumps(step_list)], env=env,
                       stdout=subprocess.PIPE, stderr=subprocess.PIPE, text=True, timeout=timeout, stdin=subprocess.DEVNULL)
    line = [ln for ln in p.stdout.split('\n') if ln.startswith('STEPS-RESULT: ')]
    if p.returncode != 0 or not line:
        raise RuntimeError('steps ended without a result (exit status %s): %s' % (p.returncode, (p.stderr or p.stdout)[-400:]))
    return json.loads(line[-1][len('STEPS-RESULT: '):])


def replay_command(repo, spec):
    return "FE_REPO=%s PYTHONPATH=%s/python /venv/bin/python %s --sweep '%s'" % (
        repo, repo, os.path.abspath(__file__), json.dumps(spec))


FIXED_SPECS = [{'label': 'forward', 'enum_order': 'forward', 'nesting': 'enum-major'},
               {'label': 'reverse', 'enum_order': 'reverse', 'nesting': 'enum-major'}]


def lookalike_spec(when, last, rot=0, order='forward'):
    return {'label': 'lookalikes-%s-%s-%d-%s' % (when, last, rot, order), 'enum_order': order, 'nesting': 'enum-major',
            'lookalikes': {'when': when, 'last': last, 'rot': rot}}


def lookalike_specs(seed, thorough):
    """Quick: every moment x the member variants with the protocol's member count last (the others are defined and used
    before them in the same process) + one seeded pick of the rest; thorough: every moment x every variant last."""
    rng = random.Random(seed * 7919 + 3)
    if thorough:
        return [lookalike_spec(w, v, rng.randrange(3), ('forward', 'reverse')[(i + j) % 2])
                for i, w in enumerate(LOOKALIKE_WHEN) for j, v in enumerate(LOOKALIKE_MEMBERS)]
    specs = [lookalike_spec(w, v, rng.randrange(3)) for w in LOOKALIKE_WHEN for v in ('same-count', 'hidden-to-same-count')]
    rest = [v for v in LOOKALIKE_MEMBERS if v not in ('same-count', 'hidden-to-same-count')]
    return specs + [lookalike_spec(rng.choice(LOOKALIKE_WHEN), rng.choice(rest), rng.randrange(3), 'reverse')]


def random_spec(seed, k):
    return {'label': 'random-%d-%d' % (seed, k), 'enum_order': 'random', 'seed': seed * 1009 + k,
            'nesting': ('shuffled', 'name-major', 'path-major', 'enum-major')[k % 4]}


if __name__ == '__main__':
    import logging
    logging.disable(logging.CRITICAL)
    if len(sys.argv) == 3 and sys.argv[1] == '--sweep':
        res = sweep(json.loads(sys.argv[2]))
        print('SWEEP-RESULT: ' + json.dumps(res))
    elif len(sys.argv) == 2 and sys.argv[1] == '--inventory':
        import c03_py_extract as px_
        importlib.import_module(PKG)
        for p_ in px_.source_paths(os.environ.get('FE_REPO', '/repo')):
            b_ = os.path.basename(p_)[:-3]
            importlib.import_module(PKG if b_ == '__init__' else PKG + '.' + b_)
        from fusion_engine_client.utils.enum_utils import IntEnum as IntEnum_
        print('INVENTORY-RESULT: ' + json.dumps(enum_inventory(px_.all_subclasses(IntEnum_))))
    elif len(sys.argv) == 3 and sys.argv[1] == '--steps':
        print('STEPS-RESULT: ' + json.dumps(steps(json.loads(sys.argv[2]))))
    else:
        print(__doc__)
        sys.exit(2)
