"""C03: does any statement of the Python package modify the classification sets / registry dictionaries after their definition?

Static part (`scan(repo)`): every `.py` file under `python/fusion_engine_client` is parsed with `ast` and walked by a small
abstract interpreter whose only abstract value is "the set of tracked objects this expression may BE (not: may equal)":

  tracked objects   COMMAND_MESSAGES, RESPONSE_MESSAGES (module-level sets of messages/defs.py),
                    message_type_to_class, message_type_by_name (class attributes of MessagePayload, the registry)
  a reference is    the defining name; any name bound to a reference by assignment (plain, annotated, tuple-wise, walrus,
                    `a if c else b`, `a or b`), by `from m import X [as Y]` / `from m import *` (resolved through the
                    module-level bindings of the package modules, to a fixed point), by a parameter default, by the
                    return value of a package function that returns a reference (or returns its parameter, when the
                    argument is one); any attribute spelled with a tracked name (`defs.COMMAND_MESSAGES`,
                    `cls.message_type_to_class`); any attribute that some statement of the package assigns a reference to
                    (`self.types = COMMAND_MESSAGES` ... `self.types.add(x)`)
  NOT a reference   anything computed from one: `a | b`, `set(a)`, `sorted(a)`, `a.copy()`, `a.union(b)`, `a[k]`, ...
  a modification is an augmented assignment to a reference; a call of a modifying method on it (add, update, remove,
                    discard, clear, pop, popitem, setdefault, *_update, __setitem__/__delitem__/__ior__/...), also spelled
                    `set.add(ref, x)` / `operator.ior(ref, x)`; item assignment / `del ref[k]`; passing it to a package
                    function that modifies that parameter; rebinding the defining name from outside (`defs.X = ...`,
                    `setattr(defs, 'X', ...)`, `global X; X = ...` in the defining module, `vars(m)['X'] = ...`)
  definitions       (not modifications) the set displays assigned to the two names in messages/defs.py, the `{}` assigned
                    to the registry names in the body of `class MessagePayload`, and statements that modify the registry
                    dictionaries (only those) inside the registration mechanism = `MessagePayload.__init_subclass__` and
                    the methods of MessagePayload / functions of messages/defs.py it calls, transitively: that is how the
                    registry is filled when a payload class is defined, and what it then holds is compared class by class
                    with the payload classes and the C++ structs by the check (registered under another type, not
                    registered, registered without being a payload class are findings of that comparison)

Control flow: statements are interpreted in order with strong updates; branches are interpreted on copies and joined by
union; loop bodies twice.  Function bodies are interpreted after the body that defines them (they see its final bindings).

Dynamic part (`--demo`, run in a fresh interpreter per site): the tables are read right after `import
fusion_engine_client.messages`; then the module holding the site is imported and - for a site inside a function - the
outermost enclosing function is called with a `MagicMock` for every parameter without a default, in an empty scratch
directory, any exception swallowed; then the tables are read again.
"""
import ast
import json
import os
import sys

PKG = 'fusion_engine_client'
TRACKED = ('COMMAND_MESSAGES', 'RESPONSE_MESSAGES', 'message_type_to_class', 'message_type_by_name')
SETS = ('COMMAND_MESSAGES', 'RESPONSE_MESSAGES')
DEFINING_MODULE = PKG + '.messages.defs'
DEFINING_CLASS = 'MessagePayload'
MUTATORS = {'add', 'remove', 'discard', 'update', 'clear', 'pop', 'popitem', 'setdefault', 'difference_update',
            'intersection_update', 'symmetric_difference_update', '__setitem__', '__delitem__', '__ior__', '__iand__',
            '__isub__', '__ixor__', '__init__', 'append', 'extend', 'insert', 'sort', 'reverse'}
OPERATOR_MUTATORS = {'ior', 'iand', 'isub', 'ixor', 'setitem', 'delitem', '__ior__', '__iand__', '__isub__', '__ixor__',
                     '__setitem__', '__delitem__'}
EMPTY = frozenset()


def package_paths(repo):
    root = os.path.join(repo, 'python', PKG)
    res = []
    for d, dirs, files in os.walk(root):
        dirs[:] = sorted(x for x in dirs if x != '__pycache__')
        for f in sorted(files):
            if f.endswith('.py'):
                res.append(os.path.join(d, f))
    return sorted(res)


def module_name(repo, path):
    rel = os.path.relpath(path, os.path.join(repo, 'python'))[:-3]
    parts = rel.split(os.sep)
    if parts[-1] == '__init__':
        parts = parts[:-1]
    return '.'.join(parts)


class Env:
    def __init__(self, parent=None, vars=None):
        self.parent = parent
        self.vars = dict(vars or {})
        self.globals = set()

    def get(self, name):
        e = self
        while e is not None:
            if name in e.vars:
                return e.vars[name]
            e = e.parent
        return EMPTY

    def set(self, name, val):
        self.vars[name] = frozenset(val)

    def copy(self):
        e = Env(self.parent, self.vars)
        e.globals = self.globals
        return e

    def join(self, others):
        """self := union of the given environments (which are copies of self that ran different branches)."""
        keys = set()
        for o in others:
            keys |= set(o.vars)
        for k in keys:
            v = EMPTY
            for o in others:
                v |= o.get(k)
            self.vars[k] = v


class Func:
    def __init__(self, module, qual, node, in_class, static):
        self.module, self.qual, self.node, self.in_class, self.static = module, qual, node, in_class, static
        self.fid = '%s:%s:%d' % (module, qual, node.lineno)
        a = node.args
        self.params = [x.arg for x in getattr(a, 'posonlyargs', [])] + [x.arg for x in a.args]
        self.kwonly = [x.arg for x in a.kwonlyargs]
        self.mutated = {}          # param -> 'file:line what'
        self.returns = set()
        self.attr_from_param = {}  # param -> set(attr names)

    def summary(self):
        return (tuple(sorted(self.mutated)), tuple(sorted(self.returns, key=str)),
                tuple(sorted((k, tuple(sorted(v))) for k, v in self.attr_from_param.items())))


class Package:
    """Shared state of the fixed-point iteration over all modules."""

    def __init__(self):
        self.exports = {}       # module -> {name: frozenset}
        self.attr_alias = {}    # attribute name -> set of tracked names
        self.funcs = {}         # simple name -> [Func]  (a class name maps to its __init__)
        self.sites = []
        self.parsed = {}

    def state(self):
        return (sorted((m, sorted((k, sorted(v, key=str)) for k, v in e.items() if v)) for m, e in self.exports.items()),
                sorted((k, sorted(v)) for k, v in self.attr_alias.items()),
                sorted((k, [f.summary() for f in v]) for k, v in self.funcs.items()))


class ModuleScan:
    def __init__(self, pkg, repo, path, modname, old_funcs):
        self.pkg, self.repo, self.path, self.modname = pkg, repo, path, modname
        self.rel = os.path.relpath(path, os.path.join(repo, 'python', PKG))
        if path not in pkg.parsed:
            src = open(path, encoding='utf-8', errors='replace').read()
            pkg.parsed[path] = (ast.parse(src, path), src.split('\n'))
        self.tree, self.lines = pkg.parsed[path]
        self.is_pkg = os.path.basename(path) == '__init__.py'
        self.old_funcs = old_funcs     # summaries of the previous pass: simple name -> [Func]
        self.cur = None                # Func being interpreted
        self.qual = []                 # enclosing (kind, name)
        self.queue = []
        self.modnames = set()          # names bound to modules by import statements
        self.reg_funcs = None

    # ---- helpers ----
    def text(self, node):
        try:
            return ' '.join(self.lines[node.lineno - 1].split())[:200]
        except Exception:
            return ''

    def where(self):
        return '.'.join(n for _, n in self.qual) or '<module>'

    def outer_function(self):
        """Qualified name of the outermost enclosing function (the one a caller can reach), or '<module>'."""
        out = []
        for kind, n in self.qual:
            out.append(n)
            if kind == 'func':
                return '.'.join(out)
        return '<module>'

    def record(self, node, what, keys, allowed=False):
        for k in sorted(keys, key=str):
            if isinstance(k, tuple):
                if self.cur is not None and k[0] == 'param' and k[2] == self.cur.fid:
                    self.cur.mutated.setdefault(k[1], '%s:%d %s' % (self.rel, node.lineno, what))
                continue
            if allowed or self.is_registration({k}):
                continue
            self.pkg.sites.append({'object': k, 'file': self.rel, 'module': self.modname, 'line': node.lineno,
                                   'col': node.col_offset, 'function': self.where(), 'callable': self.outer_function(),
                                   'what': what, 'statement': self.text(node)})

    def resolve_from(self, node):
        if node.level:
            base = self.modname.split('.')
            if not self.is_pkg:
                base = base[:-1]
            if node.level > 1:
                base = base[:len(base) - (node.level - 1)]
            return '.'.join(base + ([node.module] if node.module else []))
        return node.module or ''

    def candidates(self, name):
        c = self.old_funcs.get(name, [])
        same = [f for f in c if f.module == self.modname]
        return same or c

    # ---- expressions ----
    def val(self, node, env):
        """Tracked objects the value of `node` may be."""
        if node is None:
            return EMPTY
        if isinstance(node, ast.Name):
            return env.get(node.id)
        if isinstance(node, ast.Attribute):
            v = frozenset(self.pkg.attr_alias.get(node.attr, ()))
            if node.attr in TRACKED:
                v |= {node.attr}
            return v
        if isinstance(node, ast.IfExp):
            return self.val(node.body, env) | self.val(node.orelse, env)
        if isinstance(node, ast.BoolOp):
            v = EMPTY
            for x in node.values:
                v |= self.val(x, env)
            return v
        if isinstance(node, ast.NamedExpr):
            return self.val(node.value, env)
        if isinstance(node, (ast.Await, ast.Starred)):
            return self.val(node.value, env)
        if isinstance(node, ast.Call):
            v = EMPTY
            for f, amap in self.callees(node, env):
                for r in f.returns:
                    if isinstance(r, tuple):
                        if r[0] == 'param' and r[2] == f.fid and r[1] in amap:
                            v |= self.val(amap[r[1]], env)
                    else:
                        v |= {r}
            return v
        return EMPTY

    def callees(self, call, env):
        """[(Func, {param name: argument node})] for the package functions a call may reach (matched by name)."""
        fn = call.func
        if isinstance(fn, ast.Name):
            name, via_attr = fn.id, False
        elif isinstance(fn, ast.Attribute):
            name, via_attr = fn.attr, True
        else:
            return []
        res = []
        for f in self.candidates(name):
            ctor = f.node.name == '__init__' and name != '__init__'
            off = 1 if (f.in_class and not f.static and (via_attr or ctor)) else 0
            if via_attr and not f.in_class and not (isinstance(fn.value, ast.Name) and fn.value.id in self.modnames):
                continue          # `m.f(...)` reaches a module-level function only when `m` names an imported module
            amap = {}
            pos = [a for a in call.args]
            for i, a in enumerate(pos):
                if isinstance(a, ast.Starred):
                    break
                if i + off < len(f.params):
                    amap[f.params[i + off]] = a
            for kw in call.keywords:
                if kw.arg and (kw.arg in f.params or kw.arg in f.kwonly):
                    amap[kw.arg] = kw.value
            res.append((f, amap))
        return res

    def scan(self, node, env):
        """Walk an expression: bind walrus targets, report modifications made by calls inside it."""
        if node is None:
            return
        if isinstance(node, ast.NamedExpr):
            self.scan(node.value, env)
            if isinstance(node.target, ast.Name):
                env.set(node.target.id, self.val(node.value, env))
            return
        if isinstance(node, ast.Lambda):
            inner = Env(env)
            for a in node.args.args + node.args.kwonlyargs:
                inner.set(a.arg, EMPTY)
            self.scan(node.body, inner)
            return
        if isinstance(node, (ast.ListComp, ast.SetComp, ast.GeneratorExp, ast.DictComp)):
            inner = Env(env)
            for g in node.generators:
                self.scan(g.iter, inner)
                self.bind(g.target, EMPTY, None, inner)
                for c in g.ifs:
                    self.scan(c, inner)
            if isinstance(node, ast.DictComp):
                self.scan(node.key, inner)
                self.scan(node.value, inner)
            else:
                self.scan(node.elt, inner)
            return
        if isinstance(node, ast.Call):
            self.call(node, env)
        for ch in ast.iter_child_nodes(node):
            if isinstance(ch, ast.expr) or isinstance(ch, ast.keyword):
                self.scan(ch.value if isinstance(ch, ast.keyword) else ch, env)

    def call(self, node, env):
        fn = node.func
        args = node.args
        if isinstance(fn, ast.Attribute) and fn.attr in MUTATORS:
            recv = self.val(fn.value, env)
            if recv:
                self.record(node, '.%s(...) on a reference' % fn.attr, recv)
            # unbound spelling: set.add(ref, x), dict.update(ref, ...)
            if isinstance(fn.value, ast.Name) and fn.value.id in ('set', 'dict', 'list', 'frozenset', 'MutableSet', 'MutableMapping') \
                    and args:
                v = self.val(args[0], env)
                if v:
                    self.record(node, '%s.%s(reference, ...)' % (fn.value.id, fn.attr), v)
        name = fn.id if isinstance(fn, ast.Name) else getattr(fn, 'attr', None)
        if name in OPERATOR_MUTATORS and args:
            if isinstance(fn, ast.Name) or (isinstance(fn, ast.Attribute) and isinstance(fn.value, ast.Name) and
                                            fn.value.id in ('operator', 'op', '_operator')):
                v = self.val(args[0], env)
                if v:
                    self.record(node, '%s(reference, ...)' % name, v)
        if name in ('setattr', 'delattr') and isinstance(fn, ast.Name) and len(args) >= 2 and \
                isinstance(args[1], ast.Constant) and args[1].value in TRACKED:
            self.record(node, '%s(..., %r) rebinds the defining name' % (name, args[1].value), {args[1].value})
        for f, amap in self.callees(node, env):
            for p, a in amap.items():
                v = self.val(a, env)
                if not v:
                    continue
                if p in f.mutated:
                    self.record(node, 'passed as %r to %s.%s(), which modifies that parameter (%s)'
                                % (p, f.module.split('.', 1)[-1], f.qual, f.mutated[p]), v)
                for attr in f.attr_from_param.get(p, ()):
                    real = set(k for k in v if not isinstance(k, tuple))
                    if real:
                        self.pkg.attr_alias.setdefault(attr, set()).update(real)
                    if self.cur is not None:
                        for k in v:
                            if isinstance(k, tuple) and k[0] == 'param' and k[2] == self.cur.fid:
                                self.cur.attr_from_param.setdefault(k[1], set()).add(attr)

    # ---- bindings ----
    def is_definition(self, target, value):
        """The defining assignment of a tracked name."""
        if self.modname != DEFINING_MODULE or not isinstance(target, ast.Name) or target.id not in TRACKED:
            return False
        if target.id in SETS:
            return self.qual == []
        return self.qual == [('class', DEFINING_CLASS)]

    def registration_functions(self):
        """Functions of the defining module that make up the registration mechanism: `MessagePayload.__init_subclass__` and
        whatever it calls, transitively, among the methods of MessagePayload (`MessagePayload.f(...)`, `cls.f(...)`,
        `self.f(...)`) and the module-level functions of the same module (`f(...)`).  -> set of qualified names."""
        if self.modname != DEFINING_MODULE:
            return set()
        methods, toplevel = {}, {}
        for st in self.tree.body:
            if isinstance(st, (ast.FunctionDef, ast.AsyncFunctionDef)):
                toplevel[st.name] = st
            elif isinstance(st, ast.ClassDef) and st.name == DEFINING_CLASS:
                for m in st.body:
                    if isinstance(m, (ast.FunctionDef, ast.AsyncFunctionDef)):
                        methods[m.name] = m
        reach, todo = set(), [('m', '__init_subclass__')]
        while todo:
            kind, name = todo.pop()
            node = (methods if kind == 'm' else toplevel).get(name)
            if node is None or (kind, name) in reach:
                continue
            reach.add((kind, name))
            for c in ast.walk(node):
                if isinstance(c, ast.Call):
                    if isinstance(c.func, ast.Name):
                        todo.append(('t', c.func.id))
                    elif isinstance(c.func, ast.Attribute) and isinstance(c.func.value, ast.Name) and \
                            c.func.value.id in (DEFINING_CLASS, 'cls', 'self'):
                        todo.append(('m', c.func.attr))
        return set((DEFINING_CLASS + '.' + n) if k == 'm' else n for k, n in reach)

    def is_registration(self, keys):
        """A modification of the registry dictionaries (only those) inside the registration mechanism is how the registry is
        DEFINED; what it ends up holding is compared class by class with the payload classes and the C++ structs."""
        if self.reg_funcs is None:
            self.reg_funcs = self.registration_functions()
        return self.outer_function() in self.reg_funcs and \
            all(isinstance(k, tuple) or k in ('message_type_to_class', 'message_type_by_name') for k in keys)

    def bind(self, target, v, value_node, env, stmt=None):
        if isinstance(target, ast.Name):
            if self.is_definition(target, value_node):
                if env.get(target.id) and target.id in env.vars:
                    self.record(stmt or target, 'second assignment to the defining name', {target.id})
                env.set(target.id, {target.id})
                return
            if target.id in env.globals:
                if self.modname == DEFINING_MODULE and target.id in SETS:
                    self.record(stmt or target, '`global %s` and assignment: rebinds the defining name' % target.id, {target.id})
                self.modenv.set(target.id, v)
                return
            env.set(target.id, v)
            if self.qual and self.qual[-1][0] == 'class' and v:
                # a class attribute holding a reference: reachable as obj.<name>
                real = set(k for k in v if not isinstance(k, tuple))
                if real:
                    self.pkg.attr_alias.setdefault(target.id, set()).update(real)
        elif isinstance(target, (ast.Tuple, ast.List)):
            if isinstance(value_node, (ast.Tuple, ast.List)) and len(value_node.elts) == len(target.elts) and \
                    not any(isinstance(e, ast.Starred) for e in list(value_node.elts) + list(target.elts)):
                for t, e in zip(target.elts, value_node.elts):
                    self.bind(t, self.val(e, env), e, env, stmt)
            else:
                for t in target.elts:
                    self.bind(t.value if isinstance(t, ast.Starred) else t, EMPTY, None, env, stmt)
        elif isinstance(target, ast.Attribute):
            self.scan(target.value, env)
            if target.attr in TRACKED:
                self.record(stmt or target, 'assignment to the attribute %s: rebinds the defining name' % target.attr, {target.attr})
            elif v:
                real = set(k for k in v if not isinstance(k, tuple))
                if real:
                    self.pkg.attr_alias.setdefault(target.attr, set()).update(real)
                if self.cur is not None:
                    for k in v:
                        if isinstance(k, tuple) and k[0] == 'param' and k[2] == self.cur.fid:
                            self.cur.attr_from_param.setdefault(k[1], set()).add(target.attr)
        elif isinstance(target, ast.Subscript):
            self.scan(target.value, env)
            self.scan(target.slice, env)
            recv = self.val(target.value, env)
            if recv:
                self.record(stmt or target, 'item assignment on a reference', recv)
            self.namespace_write(target, stmt or target)
        elif isinstance(target, ast.Starred):
            self.bind(target.value, EMPTY, None, env, stmt)

    def namespace_write(self, target, stmt):
        """vars(m)['COMMAND_MESSAGES'] = ..., m.__dict__['X'] = ..., globals()['X'] = ... (in the defining module)."""
        key = target.slice
        if isinstance(key, getattr(ast, 'Index', ())):
            key = key.value
        if not (isinstance(key, ast.Constant) and key.value in TRACKED):
            return
        b = target.value
        is_ns = (isinstance(b, ast.Attribute) and b.attr == '__dict__') or \
                (isinstance(b, ast.Call) and isinstance(b.func, ast.Name) and b.func.id in ('vars', 'globals') and
                 (b.func.id == 'vars' or self.modname == DEFINING_MODULE))
        if is_ns:
            self.record(stmt, 'write to a module/class namespace under the key %r: rebinds the defining name' % key.value, {key.value})

    # ---- statements ----
    def block(self, stmts, env):
        for st in stmts:
            self.stmt(st, env)

    def stmt(self, st, env):
        if isinstance(st, (ast.FunctionDef, ast.AsyncFunctionDef)):
            for d in st.decorator_list:
                self.scan(d, env)
            in_class = bool(self.qual) and self.qual[-1][0] == 'class'
            static = any(getattr(d, 'id', getattr(d, 'attr', None)) == 'staticmethod' for d in st.decorator_list)
            f = Func(self.modname, '.'.join([n for _, n in self.qual] + [st.name]), st, in_class, static)
            self.new_funcs.setdefault(st.name, []).append(f)
            if in_class and st.name == '__init__':
                self.new_funcs.setdefault(self.qual[-1][1], []).append(f)
            a = st.args
            pos = list(getattr(a, 'posonlyargs', [])) + list(a.args)
            defaults = [None] * (len(pos) - len(a.defaults)) + list(a.defaults)
            pvals = {}
            for p, d in list(zip(pos, defaults)) + list(zip(a.kwonlyargs, a.kw_defaults)):
                self.scan(d, env)
                pvals[p.arg] = self.val(d, env) | {('param', p.arg, f.fid)}
            for p in (a.vararg, a.kwarg):
                if p is not None:
                    pvals[p.arg] = EMPTY
            self.queue.append((f, list(self.qual), env, pvals))
            env.set(st.name, EMPTY)
            return
        if isinstance(st, ast.ClassDef):
            for d in st.decorator_list + st.bases + [k.value for k in st.keywords]:
                self.scan(d, env)
            self.qual.append(('class', st.name))
            cenv = Env(env)
            self.block(st.body, cenv)
            self.qual.pop()
            env.set(st.name, EMPTY)
            return
        if isinstance(st, ast.Return):
            self.scan(st.value, env)
            if self.cur is not None:
                self.cur.returns |= set(self.val(st.value, env))
            return
        if isinstance(st, ast.Global):
            env.globals = set(env.globals) | set(st.names)
            return
        if isinstance(st, ast.Assign):
            self.scan(st.value, env)
            v = self.val(st.value, env)
            for t in st.targets:
                self.bind(t, v, st.value, env, st)
            return
        if isinstance(st, ast.AnnAssign):
            if st.value is not None:
                self.scan(st.value, env)
                self.bind(st.target, self.val(st.value, env), st.value, env, st)
            return
        if isinstance(st, ast.AugAssign):
            self.scan(st.value, env)
            t = st.target
            if isinstance(t, ast.Subscript):
                self.scan(t.value, env)
                self.scan(t.slice, env)
                recv = self.val(t.value, env)
                if recv:
                    self.record(st, 'augmented item assignment on a reference', recv)
            else:
                recv = self.val(t, env)
                if isinstance(t, ast.Attribute):
                    self.scan(t.value, env)
                if recv:
                    self.record(st, 'augmented assignment (in place) to a reference', recv)
            return
        if isinstance(st, ast.Delete):
            for t in st.targets:
                if isinstance(t, ast.Subscript):
                    self.scan(t.value, env)
                    recv = self.val(t.value, env)
                    if recv:
                        self.record(st, 'del reference[...]', recv)
                    self.namespace_write(t, st)
                elif isinstance(t, ast.Attribute) and t.attr in TRACKED:
                    self.record(st, 'del of the attribute %s' % t.attr, {t.attr})
                elif isinstance(t, ast.Name):
                    if self.modname == DEFINING_MODULE and t.id in SETS and (not self.qual or t.id in env.globals):
                        self.record(st, 'del of the defining name', {t.id})
                    env.set(t.id, EMPTY)
            return
        if isinstance(st, (ast.Import,)):
            for a in st.names:
                env.set((a.asname or a.name).split('.')[0], EMPTY)
                self.modnames.add((a.asname or a.name).split('.')[0])
            return
        if isinstance(st, ast.ImportFrom):
            src = self.resolve_from(st)
            exp = self.pkg.exports.get(src)
            for a in st.names:
                if a.name == '*':
                    for k, v in (exp or {}).items():
                        if not k.startswith('_'):
                            env.set(k, v)
                else:
                    v = (exp or {}).get(a.name, EMPTY)
                    if exp is None and a.name in TRACKED and (src == PKG or src.startswith(PKG + '.')):
                        v = frozenset({a.name})       # a package module that could not be read: the name says what it is
                    env.set(a.asname or a.name, v)
                    if (src + '.' + a.name).lstrip('.') in self.pkg.exports or exp is None:
                        self.modnames.add(a.asname or a.name)
            return
        if isinstance(st, ast.If):
            self.scan(st.test, env)
            a, b = env.copy(), env.copy()
            self.block(st.body, a)
            self.block(st.orelse, b)
            env.join([a, b])
            return
        if isinstance(st, (ast.For, ast.AsyncFor, ast.While)):
            pre, cur = env.copy(), env.copy()
            for _ in range(2):
                if isinstance(st, ast.While):
                    self.scan(st.test, cur)
                else:
                    self.scan(st.iter, cur)
                    self.bind(st.target, EMPTY, None, cur, None)
                self.block(st.body, cur)
                nxt = env.copy()
                nxt.join([pre, cur])
                cur = nxt
            e2 = cur.copy()
            self.block(st.orelse, e2)
            env.join([cur, e2])
            return
        if isinstance(st, (ast.With, ast.AsyncWith)):
            for it in st.items:
                self.scan(it.context_expr, env)
                if it.optional_vars is not None:
                    self.bind(it.optional_vars, EMPTY, None, env, None)
            self.block(st.body, env)
            return
        if isinstance(st, ast.Try) or st.__class__.__name__ == 'TryStar':
            body = env.copy()
            self.block(st.body, body)
            mid = env.copy()
            mid.join([env.copy(), body])
            outs = []
            for h in st.handlers:
                he = mid.copy()
                if h.name:
                    he.set(h.name, EMPTY)
                self.block(h.body, he)
                outs.append(he)
            oe = body.copy()
            self.block(st.orelse, oe)
            outs.append(oe)
            env.join(outs)
            self.block(st.finalbody, env)
            return
        if st.__class__.__name__ == 'Match':
            self.scan(st.subject, env)
            outs = [env.copy()]
            for c in st.cases:
                ce = env.copy()
                for n in ast.walk(c.pattern):
                    for fld in ('name', 'rest'):
                        if isinstance(getattr(n, fld, None), str):
                            ce.set(getattr(n, fld), EMPTY)
                self.scan(c.guard, ce)
                self.block(c.body, ce)
                outs.append(ce)
            env.join(outs)
            return
        # expression statements, assert, raise, ...
        for ch in ast.iter_child_nodes(st):
            if isinstance(ch, ast.expr):
                self.scan(ch, env)

    def run(self):
        self.new_funcs = {}
        self.modenv = Env()
        self.block(self.tree.body, self.modenv)
        while self.queue:
            f, qual, closure, pvals = self.queue.pop(0)
            save_qual, save_cur = self.qual, self.cur
            self.qual, self.cur = qual + [('func', f.node.name)], f
            # a method does not see the names of its class body
            fenv = Env(closure.parent if f.in_class and closure.parent is not None else closure)
            for p, v in pvals.items():
                fenv.set(p, v)
            self.block(f.node.body, fenv)
            self.qual, self.cur = save_qual, save_cur
        return dict((k, v) for k, v in self.modenv.vars.items() if v)


def scan(repo):
    """-> {'files': n, 'sites': [...]} : every statement of the package that may modify a tracked object."""
    paths = package_paths(repo)
    pkg = Package()
    funcs = {}
    unreadable = []
    for _ in range(6):
        before = pkg.state()
        pkg.sites = []
        new_funcs = {}
        unreadable = []
        for p in paths:
            mod = module_name(repo, p)
            try:
                ms = ModuleScan(pkg, repo, p, mod, funcs)
            except SyntaxError as e:
                unreadable.append('%s: %s' % (os.path.relpath(p, repo), e))
                continue
            pkg.exports[mod] = ms.run()
            for k, v in ms.new_funcs.items():
                new_funcs.setdefault(k, []).extend(v)
        funcs = new_funcs
        pkg.funcs = funcs
        if pkg.state() == before:
            break
    seen, sites = set(), []
    for s in pkg.sites:
        key = (s['object'], s['file'], s['line'], s['col'], s['what'])
        if key not in seen:
            seen.add(key)
            sites.append(s)
    sites.sort(key=lambda s: (s['file'], s['line'], s['col'], s['object']))
    return {'files': len(paths), 'sites': sites, 'unreadable': unreadable,
            'attribute_aliases': dict((k, sorted(v)) for k, v in pkg.attr_alias.items() if v)}


# ---- dynamic demonstration ------------------------------------------------------------------------------
def _snapshot(defs):
    res = {}
    for nm in SETS:
        o = getattr(defs, nm, None)
        res[nm] = {'id': id(o), 'members': sorted(getattr(x, 'name', repr(x)) for x in o) if o is not None else None}
    for nm in ('message_type_to_class', 'message_type_by_name'):
        o = getattr(defs.MessagePayload, nm, None)
        res[nm] = {'id': id(o), 'members': sorted('%s -> %s' % (getattr(k, 'name', k), getattr(v, '__name__', getattr(v, 'name', v)))
                                                  for k, v in o.items()) if o is not None else None}
    res['is_command'] = sorted(t.name for t in defs.MessageType if defs.is_command(t))
    res['is_response'] = sorted(t.name for t in defs.MessageType if defs.is_response(t))
    return res


def demo(repo, module, qual):
    import importlib
    import inspect
    import logging
    import signal
    import tempfile
    from unittest import mock
    logging.disable(logging.CRITICAL)
    res = {'demonstrated': False, 'module': module, 'callable': qual}
    after_import = None
    importlib.import_module(PKG + '.messages')
    defs = importlib.import_module(DEFINING_MODULE)
    res['loaded_by_plain_import'] = module in sys.modules
    before = _snapshot(defs)
    scratch = tempfile.mkdtemp(prefix='c03_demo_')
    os.chdir(scratch)
    devnull = open(os.devnull, 'w')
    real_out, real_err = sys.stdout, sys.stderr
    sys.stdout = sys.stderr = devnull
    try:
        try:
            signal.signal(signal.SIGALRM, lambda *a: (_ for _ in ()).throw(TimeoutError('demonstration timed out')))
            signal.alarm(60)
        except Exception:
            pass
        try:
            sys.argv = ['c03_demo']
            mod = importlib.import_module(module)
            after_import = _snapshot(defs)
            if qual == '<module>':
                res['call'] = 'import %s' % module
            else:
                obj, owner = mod, None
                for part in qual.split('.'):
                    owner = obj
                    obj = obj.__dict__[part] if isinstance(obj, type) and part in obj.__dict__ else getattr(obj, part)
                raw = getattr(obj, '__func__', obj)
                raw = inspect.unwrap(raw) if callable(raw) else raw
                args, kwargs, shown = [], {}, []
                for n, p in inspect.signature(raw).parameters.items():
                    if p.kind in (p.VAR_POSITIONAL, p.VAR_KEYWORD) or p.default is not p.empty:
                        continue
                    if p.kind == p.KEYWORD_ONLY:
                        kwargs[n] = mock.MagicMock(name=n)
                    else:
                        args.append(mock.MagicMock(name=n))
                    shown.append('%s=MagicMock()' % n)
                res['call'] = '%s.%s(%s)' % (module, qual, ', '.join(shown))
                out = raw(*args, **kwargs)
                if inspect.iscoroutine(out):
                    import asyncio
                    asyncio.run(asyncio.wait_for(out, 20))
                elif inspect.isgenerator(out):
                    for _ in zip(range(100), out):
                        pass
        except BaseException as e:      # the demonstration only cares about the state left behind
            res['exception'] = '%s: %s' % (type(e).__name__, str(e)[:200])
        finally:
            try:
                signal.alarm(0)
            except Exception:
                pass
    finally:
        sys.stdout, sys.stderr = real_out, real_err
        os.chdir('/')
        import shutil
        shutil.rmtree(scratch, ignore_errors=True)
    after = _snapshot(defs)
    if qual != '<module>' and after_import is not None:
        before = after_import          # the effect of the call alone (the import of the module is a separate site)
    changes = {}
    for k in before:
        b, a = before[k], after[k]
        bm, am = (b['members'], a['members']) if isinstance(b, dict) else (b, a)
        if bm != am or (isinstance(b, dict) and b['id'] != a['id']):
            changes[k] = {'added': sorted(set(am or []) - set(bm or [])), 'removed': sorted(set(bm or []) - set(am or [])),
                          'rebound': isinstance(b, dict) and b['id'] != a['id']}
    res['changes'] = changes
    res['demonstrated'] = bool(changes)
    res['after'] = dict((k, (v['members'] if isinstance(v, dict) else v)) for k, v in after.items() if k in changes)
    return res


if __name__ == '__main__':
    if len(sys.argv) >= 5 and sys.argv[1] == '--demo':
        out = demo(sys.argv[2], sys.argv[3], sys.argv[4])
        sys.__stdout__.write('DEMO-RESULT: ' + json.dumps(out) + '\n')
    else:
        r = scan(sys.argv[1] if len(sys.argv) > 1 else os.environ.get('FE_REPO', '/repo'))
        print(json.dumps(r, indent=1))
