"""C03 translator, Python side.  Run as a script in a FRESH interpreter with PYTHONPATH=$FE_REPO/python.

Imports the working-tree package and walks
  * every `IntEnum` subclass (fusion_engine_client.utils.enum_utils.IntEnum, recursively) whose module lies in
    `fusion_engine_client.messages.*`: `__members__` (aliases included) with their integer values;
  * `COMMAND_MESSAGES`, `RESPONSE_MESSAGES` (as the sets the functions `is_command` / `is_response` consult);
  * every `MessagePayload` subclass (recursively) with `get_type()`, `get_version()`, and the registry
    `message_type_to_class` (type -> class).
Cross-check against `ast.parse` of the same source files (so that run-time mutation of a table cannot hide a source
change, and a source change cannot be hidden by run-time mutation):
  * an enum is *source-declared* iff a `class X(IntEnum)` statement exists for it; its members as read from the class
    body (integer literals, + - ~ << | & of literals and of earlier members) must equal the run-time members;
    run-time IntEnum classes without such a statement must be the ones produced by the `@enum_bitmask` decorator
    (listed as kind `derived`, not protocol enums);
  * `COMMAND_MESSAGES` / `RESPONSE_MESSAGES` must be assigned exactly once, by a set display of `MessageType.X`
    attributes, equal to the run-time set; `is_command(t)` / `is_response(t)` are evaluated for every member and must
    equal membership;
  * every payload class statement with `MESSAGE_TYPE = MessageType.X` / `MESSAGE_VERSION = <int>` in its body must
    equal the run-time class attributes, and vice versa.
  * EVERY module of the package (python/fusion_engine_client/**/*.py, not only messages/) is scanned by
    tools/c03_py_alias.py for statements that modify the two sets or the registry dictionaries after their definition,
    through any alias (local name, import-as, parameter default, attribute, argument of a modifying function); every
    site found is listed in the table (`mutation_sites`, Lean `mutationSites`) together with the outcome of executing
    it in a fresh interpreter (tables read before and after).
  * the enumerations AS A USER REACHES THEM (tools/c03_py_access.py): in two further fresh interpreters (enumerations
    asked in forward and in reverse order) every enumeration is asked for every name and number any enumeration defines
    through every access path (`E.NAME`, `E['NAME']`, `E('NAME')`, `E.from_string`, lower/mixed-case spellings, `E(number)`,
    `E[number]`, iteration, `__members__`, ...); what comes back is the table `access` (Lean `accessViews`: per order and
    path the name -> number table of every declared enumeration; `accessExtraNames`: names / numbers that resolved in an
    enumeration that does not define them).
A construct the reader does not understand is a TranslateError (exit 2, message on stdout).  A difference between the
source view and the run-time view is recorded in the table under `source_vs_runtime` (the table carries the run-time
values, which are what the package does); the check reports every such entry.
"""
import ast
import glob
import importlib
import json
import os
import sys

sys.path.insert(0, os.path.dirname(os.path.abspath(__file__)))
from c03_common import TranslateError, code, lean_nat, lean_int, lean_ident, write_if_changed, sha256_files  # noqa: E402
import c03_py_alias as pa  # noqa: E402
import c03_py_access as pacc  # noqa: E402

PKG = 'fusion_engine_client.messages'
# source-vs-run-time differences found by the cross-check (reported, the run-time value is what the table carries)
PROBLEMS = []


def source_paths(repo):
    return sorted(glob.glob(os.path.join(repo, 'python', 'fusion_engine_client', 'messages', '*.py')))


def package_source_hashes(repo):
    """sha256 of every module of the package, keyed by the path relative to python/fusion_engine_client."""
    import hashlib
    root = os.path.join(repo, 'python', 'fusion_engine_client')
    res = {}
    for p in pa.package_paths(repo):
        with open(p, 'rb') as f:
            res[os.path.relpath(p, root)] = hashlib.sha256(f.read()).hexdigest()
    return res


def mutation_sites(repo):
    """Static scan of the whole package + one execution per (module, callable) holding a site, each in a fresh interpreter."""
    import subprocess
    r = pa.scan(repo)
    if r['unreadable']:
        raise TranslateError(r['unreadable'][0].split(':')[0], 'module of the package cannot be parsed: %s' % r['unreadable'][0])
    demos = {}
    env = dict(os.environ, PYTHONPATH=os.path.join(repo, 'python'), PYTHONDONTWRITEBYTECODE='1')
    for s in r['sites']:
        key = (s['module'], s['callable'])
        if key not in demos:
            if len(demos) >= 12:
                demos[key] = {'demonstrated': False, 'why': 'not executed (more than 12 sites)'}
            else:
                try:
                    p = subprocess.run([sys.executable, os.path.abspath(pa.__file__), '--demo', repo, s['module'], s['callable']],
                                       env=env, stdout=subprocess.PIPE, stderr=subprocess.DEVNULL, text=True, timeout=180,
                                       stdin=subprocess.DEVNULL)
                    line = [ln for ln in p.stdout.split('\n') if ln.startswith('DEMO-RESULT: ')]
                    demos[key] = json.loads(line[-1][len('DEMO-RESULT: '):]) if line else {
                        'demonstrated': False, 'why': 'execution ended without a result (exit status %s)' % p.returncode}
                except subprocess.TimeoutExpired:
                    demos[key] = {'demonstrated': False, 'why': 'execution timed out'}
        s['demo'] = demos[key]
    return r


# ---- AST side -----------------------------------------------------------------------------------------
def const_eval(node, env):
    """Integer value of a restricted expression; None if it is not of that form."""
    if isinstance(node, ast.Constant) and isinstance(node.value, int) and not isinstance(node.value, bool):
        return node.value
    if isinstance(node, ast.Name) and node.id in env:
        return env[node.id]
    if isinstance(node, ast.UnaryOp):
        v = const_eval(node.operand, env)
        if v is None:
            return None
        if isinstance(node.op, ast.USub):
            return -v
        if isinstance(node.op, ast.UAdd):
            return v
        if isinstance(node.op, ast.Invert):
            return ~v
        return None
    if isinstance(node, ast.BinOp):
        a, b = const_eval(node.left, env), const_eval(node.right, env)
        if a is None or b is None:
            return None
        ops = {ast.Add: lambda: a + b, ast.Sub: lambda: a - b, ast.Mult: lambda: a * b, ast.LShift: lambda: a << b,
               ast.RShift: lambda: a >> b, ast.BitOr: lambda: a | b, ast.BitAnd: lambda: a & b, ast.BitXor: lambda: a ^ b}
        f = ops.get(type(node.op))
        return f() if f and (not isinstance(node.op, (ast.LShift,)) or 0 <= b < 256) else None
    return None


def base_names(cls):
    res = []
    for b in cls.bases:
        if isinstance(b, ast.Name):
            res.append(b.id)
        elif isinstance(b, ast.Attribute):
            res.append(b.attr)
    return res


def msgtype_attr(node):
    if isinstance(node, ast.Attribute) and isinstance(node.value, ast.Name) and node.value.id == 'MessageType':
        return node.attr
    return None


def ast_tables(paths):
    enums = {}        # (module, qualname) -> [(name, value)]
    derived = set()   # (module, qualname) of classes decorated with @enum_bitmask(...) (IntEnum classes manufactured at import)
    payload = {}      # (module, qualname) -> {'type': name or None, 'version': int or None, 'line'}
    sets = {}         # 'COMMAND_MESSAGES' -> [[names], ...] one entry per assignment found
    mutations = []    # statements that touch the two sets other than the defining assignment
    for path in paths:
        mod = PKG + '.' + os.path.basename(path)[:-3]
        if os.path.basename(path) == '__init__.py':
            mod = PKG
        tree = ast.parse(open(path).read(), path)

        def walk_class(cls, prefix):
            qual = prefix + cls.name
            bn = base_names(cls)
            body_assign = []
            for st in cls.body:
                if isinstance(st, ast.Assign) and len(st.targets) == 1 and isinstance(st.targets[0], ast.Name):
                    body_assign.append((st.targets[0].id, st.value, st.lineno))
                elif isinstance(st, ast.AnnAssign) and isinstance(st.target, ast.Name) and st.value is not None:
                    body_assign.append((st.target.id, st.value, st.lineno))
                elif isinstance(st, ast.ClassDef):
                    walk_class(st, qual + '.')
            for dec in cls.decorator_list:
                f = dec.func if isinstance(dec, ast.Call) else dec
                if getattr(f, 'id', getattr(f, 'attr', None)) == 'enum_bitmask':
                    derived.add((mod, qual))
            if 'IntEnum' in bn:
                env, members = {}, []
                for name, val, line in body_assign:
                    if name.startswith('_') and not name.startswith('_U'):
                        continue
                    if isinstance(val, ast.Tuple) and len(val.elts) == 1:
                        val = val.elts[0]        # `NAME = 5,` : enum calls int(*(5,)) -> 5 (the run-time type check confirms)
                    v = const_eval(val, env)
                    if v is None:
                        raise TranslateError('%s:%d' % (os.path.basename(path), line),
                                             'enumerator %s.%s is not an integer constant expression' % (qual, name))
                    env[name] = v
                    members.append((name, v))
                enums[(mod, qual)] = members
            d = dict((n, (v, ln)) for n, v, ln in body_assign)
            if 'MESSAGE_TYPE' in d or 'MESSAGE_VERSION' in d:
                t = msgtype_attr(d['MESSAGE_TYPE'][0]) if 'MESSAGE_TYPE' in d else None
                if 'MESSAGE_TYPE' in d and t is None and not (isinstance(d['MESSAGE_TYPE'][0], ast.Constant)
                                                                and d['MESSAGE_TYPE'][0].value is None):
                    raise TranslateError('%s:%d' % (os.path.basename(path), cls.lineno),
                                         'MESSAGE_TYPE of %s is not of the form MessageType.X' % qual)
                ver = None
                if 'MESSAGE_VERSION' in d:
                    ver = const_eval(d['MESSAGE_VERSION'][0], {})
                    if ver is None and not (isinstance(d['MESSAGE_VERSION'][0], ast.Constant)
                                            and d['MESSAGE_VERSION'][0].value is None):
                        raise TranslateError('%s:%d' % (os.path.basename(path), cls.lineno),
                                             'MESSAGE_VERSION of %s is not an integer literal' % qual)
                payload[(mod, qual)] = {'type': t, 'version': ver, 'line': cls.lineno,
                                        'has_type': 'MESSAGE_TYPE' in d, 'has_version': 'MESSAGE_VERSION' in d}

        for st in ast.walk(tree):
            # mutation of the classification sets anywhere in the package
            for nm in ('COMMAND_MESSAGES', 'RESPONSE_MESSAGES'):
                tgt = None
                if isinstance(st, ast.Assign):
                    for t in st.targets:
                        if isinstance(t, ast.Name) and t.id == nm:
                            tgt = st.value
                elif isinstance(st, ast.AnnAssign) and isinstance(st.target, ast.Name) and st.target.id == nm \
                        and st.value is not None:
                    tgt = st.value          # an annotated assignment (`X: Set[MessageType] = {...}`) is an assignment
                elif isinstance(st, ast.AugAssign) and isinstance(st.target, ast.Name) and st.target.id == nm:
                    mutations.append('%s:%d augmented assignment to %s' % (os.path.basename(path), st.lineno, nm))
                elif isinstance(st, ast.Call) and isinstance(st.func, ast.Attribute) and \
                        isinstance(st.func.value, (ast.Name, ast.Attribute)) and \
                        (getattr(st.func.value, 'id', None) == nm or getattr(st.func.value, 'attr', None) == nm) and \
                        st.func.attr in ('add', 'remove', 'discard', 'update', 'clear', 'pop', 'difference_update',
                                         'intersection_update', 'symmetric_difference_update'):
                    mutations.append('%s:%d %s.%s(...)' % (os.path.basename(path), st.lineno, nm, st.func.attr))
                if tgt is not None:
                    if not isinstance(tgt, ast.Set) or any(msgtype_attr(e) is None for e in tgt.elts):
                        raise TranslateError('%s:%d' % (os.path.basename(path), st.lineno),
                                             '%s is not a set display of MessageType.X attributes' % nm)
                    sets.setdefault(nm, []).append([msgtype_attr(e) for e in tgt.elts])
        for st in tree.body:
            if isinstance(st, ast.ClassDef):
                walk_class(st, '')
    return enums, derived, payload, sets, mutations


# ---- run-time side ------------------------------------------------------------------------------------
def all_subclasses(cls):
    seen, todo, res = set(), [cls], []
    while todo:
        c = todo.pop()
        for s in c.__subclasses__():
            if s not in seen:
                seen.add(s)
                res.append(s)
                todo.append(s)
    return res


def runtime_tables(repo, paths):
    import fusion_engine_client
    f = os.path.realpath(fusion_engine_client.__file__)
    if not f.startswith(os.path.realpath(repo) + os.sep):
        raise TranslateError(f, 'fusion_engine_client imported from outside %s' % repo)
    # The registry is read as a user gets it: after a plain import of the package, before any sub-module is imported by
    # name (importing a sub-module registers its classes as a side effect and would hide a missing registration).
    msgs = importlib.import_module(PKG)
    defs = importlib.import_module(PKG + '.defs')
    if msgs.message_type_to_class is not defs.MessagePayload.message_type_to_class:
        raise TranslateError('messages/__init__.py', 'message_type_to_class is not MessagePayload.message_type_to_class')
    registry = [(int(t), getattr(t, 'name', None), c.__module__, c.__qualname__, c.get_version())
                for t, c in defs.MessagePayload.message_type_to_class.items()]
    for p in paths:
        b = os.path.basename(p)[:-3]
        importlib.import_module(PKG if b == '__init__' else PKG + '.' + b)
    from fusion_engine_client.utils.enum_utils import IntEnum
    defs = importlib.import_module(PKG + '.defs')
    enums = []
    for c in all_subclasses(IntEnum):
        if not (c.__module__ == PKG or c.__module__.startswith(PKG + '.')):
            continue
        members = [(n, int(m.value)) for n, m in c.__members__.items()]
        for n, m in c.__members__.items():
            if type(m.value) is not int:
                raise TranslateError(c.__qualname__, 'member %s has non-int value %r' % (n, m.value))
        enums.append({'module': c.__module__, 'qualname': c.__qualname__, 'name': c.__name__, 'members': members})
    MT = defs.MessageType
    cls_sets = {}
    for nm, fn in (('COMMAND_MESSAGES', defs.is_command), ('RESPONSE_MESSAGES', defs.is_response)):
        s = getattr(defs, nm)
        for x in s:
            if not isinstance(x, MT):
                raise TranslateError(nm, 'element %r is not a MessageType' % (x,))
        for m in MT.__members__.values():
            if bool(fn(m)) != (m in s):
                PROBLEMS.append(str(TranslateError(nm, '%s(%s) differs from membership in %s' % (fn.__name__, m.name, nm))))
        cls_sets[nm] = sorted((x.name, int(x)) for x in s)
    payload = []
    for c in all_subclasses(defs.MessagePayload):
        t = c.get_type()
        v = c.get_version()
        payload.append({'module': c.__module__, 'qualname': c.__qualname__, 'name': c.__name__,
                        'type_name': getattr(t, 'name', None), 'type': None if t is None else int(t),
                        'version': None if v is None else int(v),
                        'own_type': 'MESSAGE_TYPE' in c.__dict__, 'own_version': 'MESSAGE_VERSION' in c.__dict__})
    return enums, cls_sets, payload, registry


def extract(repo):
    paths = source_paths(repo)
    if not paths:
        raise TranslateError(repo, 'no python sources found')
    a_enums, a_derived, a_payload, a_sets, mutations = ast_tables(paths)
    r_enums, r_sets, r_payload, registry = runtime_tables(repo, paths)

    # --- enums: source-declared ones must agree with the AST; the rest must be decorator-derived ---
    out_enums = []
    seen = set()
    for e in r_enums:
        key = (e['module'], e['qualname'])
        if key in a_enums:
            seen.add(key)
            if sorted(a_enums[key]) != sorted(e['members']):
                diff = sorted(set(a_enums[key]) ^ set(e['members']))
                PROBLEMS.append(str(TranslateError(e['qualname'], 'run-time members differ from the class body in the source: %s' % diff[:6])))
            kind = 'declared'
        else:
            if key not in a_derived:
                raise TranslateError(e['qualname'], 'run-time IntEnum class in %s without a `class X(IntEnum)` statement or an @enum_bitmask decorator' % e['module'])
            kind = 'derived'
        out_enums.append({'name': e['name'], 'module': e['module'], 'kind': kind, 'members': [list(m) for m in e['members']]})
    for key in a_enums:
        if key not in seen:
            PROBLEMS.append(str(TranslateError('%s.%s' % key, '`class X(IntEnum)` statement without a run-time class')))
    names = [e['name'] for e in out_enums if e['kind'] == 'declared']
    if len(set(names)) != len(names):
        raise TranslateError(PKG, 'two source-declared IntEnum classes share a name: %s' % sorted(n for n in names if names.count(n) > 1))

    # --- classification sets ---
    if mutations:
        PROBLEMS.append(str(TranslateError(PKG, 'classification sets are modified after their definition: %s' % mutations[:3])))
    for nm in ('COMMAND_MESSAGES', 'RESPONSE_MESSAGES'):
        if len(a_sets.get(nm, [])) != 1:
            PROBLEMS.append(str(TranslateError(nm, 'assigned %d times in the source' % len(a_sets.get(nm, [])))))
        elif sorted(a_sets[nm][0]) != sorted(n for n, _ in r_sets[nm]) or len(set(a_sets[nm][0])) != len(a_sets[nm][0]):
            PROBLEMS.append(str(TranslateError(nm, 'run-time set differs from the set display in the source: %s'
                                 % sorted(set(a_sets[nm][0]) ^ set(n for n, _ in r_sets[nm])))))

    # --- payload classes ---
    out_payload = []
    seen = set()
    for c in r_payload:
        key = (c['module'], c['qualname'])
        a = a_payload.get(key)
        if a is not None:
            seen.add(key)
        if c['own_type'] != bool(a and a['has_type']) or c['own_version'] != bool(a and a['has_version']):
            PROBLEMS.append(str(TranslateError(c['qualname'], 'MESSAGE_TYPE / MESSAGE_VERSION attributes of the run-time class are not '
                                 'the ones in its class body')))
        if a and a['has_type'] and a['type'] != c['type_name']:
            PROBLEMS.append(str(TranslateError(c['qualname'], 'run-time MESSAGE_TYPE %s differs from the source %s' % (c['type_name'], a['type']))))
        if a and a['has_version'] and a['version'] != c['version']:
            PROBLEMS.append(str(TranslateError(c['qualname'], 'run-time MESSAGE_VERSION %s differs from the source %s' % (c['version'], a['version']))))
        if c['type'] is None:
            continue            # abstract helper without a message type
        if c['version'] is None:
            raise TranslateError(c['qualname'], 'payload class with a type but no version')
        out_payload.append({'name': c['name'], 'module': c['module'], 'type': c['type'], 'type_name': c['type_name'],
                            'version': c['version']})
    mp = PKG + '.defs', 'MessagePayload'
    for key in a_payload:
        if key not in seen and key != mp:
            PROBLEMS.append(str(TranslateError('%s.%s' % key, 'class declaring MESSAGE_TYPE/MESSAGE_VERSION is not a MessagePayload subclass at run time')))
    out_registry = []
    for t, tname, mod, qual, ver in registry:
        out_registry.append({'type': t, 'type_name': tname, 'name': qual.split('.')[-1], 'module': mod,
                             'version': None if ver is None else int(ver)})
        if ver is None:
            raise TranslateError(qual, 'registered class without MESSAGE_VERSION')
    scan = mutation_sites(repo)
    for s in scan['sites']:
        code(s['object'])
        code(s['file'])
    access = []
    for spec in pacc.FIXED_SPECS:
        try:
            access.append(pacc.run_sweep(repo, spec))
        except RuntimeError as e:
            raise TranslateError('access sweep', str(e))
    table = {
        'access': access,
        'mutation_sites': scan['sites'],
        'package_files_scanned': scan['files'],
        'package_sources': package_source_hashes(repo),
        'enums': sorted(out_enums, key=lambda e: (e['kind'], e['module'], e['name'])),
        'command': [list(x) for x in r_sets['COMMAND_MESSAGES']],
        'response': [list(x) for x in r_sets['RESPONSE_MESSAGES']],
        'payload': sorted(out_payload, key=lambda c: (c['type'], c['module'], c['name'])),
        'registry': sorted(out_registry, key=lambda c: c['type']),
        'sources': sha256_files(paths),
        'source_vs_runtime': list(PROBLEMS),
    }
    for e in table['enums']:
        code(e['name'])
        for m, _ in e['members']:
            code(m)
    for c in table['payload'] + table['registry']:
        code(c['name'])
    declared = [e['name'] for e in table['enums'] if e['kind'] == 'declared']
    for run in access:
        code(run['label'])
        for pth in run['paths']:
            code(pth['path'])
            for en in declared:
                if en not in run['views'].get(pth['path'], {}):
                    raise TranslateError('access sweep %s' % run['label'], 'no view of %s through %s' % (en, pth['path']))
                for m, _ in run['views'][pth['path']][en]:
                    code(m)
        for x in run['extras']:
            code(x['enum'])
            code(x['name'])
    return table


def access_views(t):
    """[(order label, path, by_value, [(enum name, members)])] over the declared enumerations, in table order."""
    declared = [e['name'] for e in t['enums'] if e['kind'] == 'declared']
    res = []
    for run in t.get('access', []):
        for pth in run['paths']:
            res.append((run['label'], pth['path'], bool(pth['by_value']),
                        [(en, [tuple(x) for x in run['views'][pth['path']][en]]) for en in declared]))
    return res


def access_extras(t):
    """[(order label, path, enum, name, number)]: first entries of every sweep (the sweep keeps the first 400)."""
    return [(run['label'], x['path'], x['enum'], x['name'], x['value']) for run in t.get('access', []) for x in run['extras'][:100]]


# ---- Lean emission ------------------------------------------------------------------------------------
def to_lean(t):
    L = ['/-',
         'GENERATED by tools/c03_py_extract.py from python/fusion_engine_client/messages/*.py (mutationSites: from every',
         'module of python/fusion_engine_client) - do not edit.',
         'Names are Nat codes (big-endian value of the UTF-8 bytes).  Values are those of the imported working-tree',
         'package, cross-checked against the class bodies / set displays seen by ast.parse.',
         '-/',
         'namespace FeVerif.C03.Py', '']
    decl = [e for e in t['enums'] if e['kind'] == 'declared']
    for e in decl:
        L.append('/-- `class %s(IntEnum)` (%s) -/' % (e['name'], e['module']))
        L.append('def enum_%s : List (Nat × Int) := [' % lean_ident(e['name']))
        for k, (m, v) in enumerate(e['members']):
            L.append('  (%s, %s)%s -- %s' % (lean_nat(m), lean_int(v), ',' if k + 1 < len(e['members']) else '', m))
        L.append(']')
        L.append('')
    L.append('/-- every IntEnum subclass written as a `class X(IntEnum)` statement in fusion_engine_client/messages/*.py:')
    L.append('(class name, members incl. aliases).  Classes manufactured by the `@enum_bitmask` decorator are not listed. -/')
    L.append('def enums : List (Nat × List (Nat × Int)) := [')
    for k, e in enumerate(decl):
        L.append('  (%s, enum_%s)%s -- %s' % (lean_nat(e['name']), lean_ident(e['name']), ',' if k + 1 < len(decl) else '', e['name']))
    L.append(']')
    L.append('')
    for nm, key, doc in (('commandTypes', 'command', 'COMMAND_MESSAGES (= the types for which is_command() is true)'),
                         ('responseTypes', 'response', 'RESPONSE_MESSAGES (= the types for which is_response() is true)')):
        L.append('/-- %s -/' % doc)
        L.append('def %s : List Int := [' % nm)
        for k, (m, v) in enumerate(t[key]):
            L.append('  %s%s -- %s' % (lean_int(v), ',' if k + 1 < len(t[key]) else '', m))
        L.append(']')
        L.append('')
    L.append('/-- every MessagePayload subclass with a message type: (class name, MESSAGE_TYPE, MESSAGE_VERSION) -/')
    L.append('def payloadClasses : List (Nat × Int × Int) := [')
    for k, c in enumerate(t['payload']):
        L.append('  (%s, %s, %s)%s -- %s' % (lean_nat(c['name']), lean_int(c['type']), lean_int(c['version']),
                                             ',' if k + 1 < len(t['payload']) else '', c['name']))
    L.append(']')
    L.append('')
    L.append('/-- the registry `message_type_to_class`: (type, class name, MESSAGE_VERSION of that class) -/')
    L.append('def registry : List (Int × Nat × Int) := [')
    for k, c in enumerate(t['registry']):
        L.append('  (%s, %s, %s)%s -- %s' % (lean_int(c['type']), lean_nat(c['name']), lean_int(c['version']),
                                             ',' if k + 1 < len(t['registry']) else '', c['name']))
    L.append(']')
    L.append('')
    L.append('/-- every statement of python/fusion_engine_client/**/*.py that modifies COMMAND_MESSAGES / RESPONSE_MESSAGES / the')
    L.append('registry dictionaries after their definition, through any alias (tools/c03_py_alias.py): (object, file, line) -/')
    L.append('def mutationSites : List (Nat × Nat × Nat) := [')
    ms = t.get('mutation_sites', [])
    for k, s in enumerate(ms):
        L.append('  (%s, %s, %d)%s -- %s:%d %s' % (lean_nat(s['object']), lean_nat(s['file']), s['line'],
                                                   ',' if k + 1 < len(ms) else '', s['file'], s['line'], s['statement'][:100]))
    L.append(']')
    L.append('')
    # --- the enumerations as reached through every access path (tools/c03_py_access.py) ---
    base = dict((e['name'], [tuple(m) for m in e['members']]) for e in decl)
    views = access_views(t)
    L.append('/-! ### every access path from a name to a number, observed in fresh interpreters after the other enumerations')
    L.append('have been asked (tools/c03_py_access.py).  A view that is, entry by entry, the table `enum_X` above refers to it. -/')
    L.append('')
    for label, path, by_value, tabs in views:
        for en, members in tabs:
            if members != base[en]:
                L.append('/-- `%s` through `%s`, order `%s`: differs from `enum_%s` -/' % (en, path, label, lean_ident(en)))
                L.append('def viewOf_%s_%s_%s : List (Nat × Int) := [' % (lean_ident(label), path, lean_ident(en)))
                for k, (m, v) in enumerate(members):
                    L.append('  (%s, %s)%s -- %s' % (lean_nat(m), lean_int(v), ',' if k + 1 < len(members) else '', m))
                L.append(']')
                L.append('')
        L.append('def view_%s_%s : List (Nat × List (Nat × Int)) := [' % (lean_ident(label), path))
        for k, (en, members) in enumerate(tabs):
            ref = 'enum_%s' % lean_ident(en) if members == base[en] else 'viewOf_%s_%s_%s' % (lean_ident(label), path, lean_ident(en))
            L.append('  (%s, %s)%s -- %s' % (lean_nat(en), ref, ',' if k + 1 < len(tabs) else '', en))
        L.append(']')
        L.append('')
    L.append('/-- (order in which the enumerations were asked, access path, is the path keyed by number (entries filed under the name')
    L.append('of the member returned)?, per declared enumeration the table name -> number seen through that path) -/')
    L.append('def accessViews : List (Nat × Nat × Bool × List (Nat × List (Nat × Int))) := [')
    for k, (label, path, by_value, tabs) in enumerate(views):
        L.append('  (%s, %s, %s, view_%s_%s)%s -- %s %s' % (lean_nat(label), lean_nat(path), 'true' if by_value else 'false',
                                                         lean_ident(label), path, ',' if k + 1 < len(views) else '', label, path))
    L.append(']')
    L.append('')
    ex = access_extras(t)
    L.append('/-- (order, path, enumeration asked, name, number): a name (or the name of the member returned for a number) that')
    L.append('resolved in an enumeration that does not define it; at most the first 100 of each order (%s in total) -/'
             % ' + '.join(str(run['extras_total']) for run in t.get('access', [])))
    L.append('def accessExtraNames : List (Nat × Nat × Nat × Nat × Int) := [')
    for k, (label, path, en, m, v) in enumerate(ex):
        L.append('  (%s, %s, %s, %s, %s)%s -- %s %s %s %s' % (lean_nat(label), lean_nat(path), lean_nat(en), lean_nat(m), lean_int(v),
                                                          ',' if k + 1 < len(ex) else '', label, path, en, m))
    L.append(']')
    L += ['', 'end FeVerif.C03.Py', '']
    return '\n'.join(L)


def main():
    repo = os.environ.get('FE_REPO', '/repo')
    here = os.path.dirname(os.path.dirname(os.path.abspath(__file__)))
    lean = os.environ.get('FE_LEAN', os.path.join(here, 'lean'))
    build = os.environ.get('FE_BUILD', os.path.join(here, 'build'))
    os.makedirs(build, exist_ok=True)
    t = extract(repo)
    out = os.path.join(lean, 'FeVerif', 'Generated', 'C03Py.lean')
    changed = write_if_changed(out, to_lean(t))
    with open(os.path.join(build, 'c03_py.json'), 'w') as f:
        json.dump(t, f, indent=1)
    print('%s: %d source-declared IntEnum classes (+%d derived), %d enumerators, %d payload classes (%s)'
          % (out, sum(e['kind'] == 'declared' for e in t['enums']), sum(e['kind'] != 'declared' for e in t['enums']),
             sum(len(e['members']) for e in t['enums'] if e['kind'] == 'declared'), len(t['payload']),
             'rewritten' if changed else 'unchanged'))


if __name__ == '__main__':
    import logging
    logging.disable(logging.CRITICAL)
    try:
        main()
    except TranslateError as e:
        print('TRANSLATE-ERROR: %s' % e)
        sys.exit(2)
