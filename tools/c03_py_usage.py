"""C03: the registry relation after the package has been USED (a warm process), not only right after the import.

Run as a script in a FRESH interpreter with PYTHONPATH=$FE_REPO/python:  c03_py_usage.py <repo> [--only LABEL]

The relation of the property ("every message type resolves to exactly one Python payload class declaring that type and
version") is about what `MessagePayload.message_type_to_class` / `get_message_class()` / the subclasses of MessagePayload ARE.
Every class statement deriving from a payload class runs `MessagePayload.__init_subclass__`, whichever module executes it and
whenever; so the relation is observed (`snapshot()`) right after `import fusion_engine_client.messages` and again after each
public entry point of the package that handles payload classes has been exercised on a small generated log in which EVERY
message type that carries P1 time misses epochs other types have (so time alignment has to insert and to drop for every type):

  encode        construct + pack + FusionEngineEncoder.encode_message() of every registered class
  decode        FusionEngineDecoder.on_data() over the log (whole, and byte-wise chunks)
  log-reader    iteration over MixedLogReader(path) in its return forms, filters by type
  read          DataLoader.read() (all types / per type / return_in_order / read_next)
  align-drop    DataLoader.read(time_align=DROP) and DataLoader.time_align_data(data, DROP)
  align-insert  DataLoader.read(time_align=INSERT) and DataLoader.time_align_data(data, INSERT) (all types, and pairs)
  numpy         DataLoader.read(return_numpy=True), DataLoader.to_numpy(), MessageData.to_numpy(), <class>.to_numpy()
  lookup        get_message_class() / find_matching_message_types(return_class=True) for every type, str()/repr() of instances
  import-all    import of every module of the package

The steps run in this order in ONE interpreter (a snapshot after each; a change is attributed to the step after which it is
first seen) - with `--only LABEL` just that step after the log has been written (the harness uses it to confirm a finding by
its shortest history).  Nothing is hooked or patched; exceptions of a step are recorded, not raised.
"""
import importlib
import json
import logging
import os
import shutil
import sys
import tempfile

PKG = 'fusion_engine_client'
N_EPOCHS = 6


def all_subclasses(cls):
    seen, todo, res = set(), [cls], []
    while todo:
        c = todo.pop()
        for s in c.__subclasses__():
            if s not in seen:
                seen.add(s)
                res.append(s)
                todo.append(s)
    return res


def cname(c):
    return '%s.%s' % (getattr(c, '__module__', '?'), getattr(c, '__qualname__', getattr(c, '__name__', repr(c))))


def snapshot(defs):
    MP, MT = defs.MessagePayload, defs.MessageType
    payload = []
    for c in all_subclasses(MP):
        try:
            t, v = c.get_type(), c.get_version()
        except Exception as e:      # noqa
            t, v = None, None
        if t is None:
            continue
        payload.append({'class': cname(c), 'name': c.__name__, 'module': c.__module__, 'type': int(t),
                        'type_name': getattr(t, 'name', str(t)), 'version': None if v is None else int(v),
                        'own_type': 'MESSAGE_TYPE' in vars(c), 'own_version': 'MESSAGE_VERSION' in vars(c),
                        'bases': [cname(b) for b in c.__bases__]})
    payload.sort(key=lambda k: (k['type'], k['class']))
    registry = []
    for t, c in MP.message_type_to_class.items():
        v = c.get_version() if hasattr(c, 'get_version') else None
        registry.append({'type': int(t), 'type_name': getattr(t, 'name', str(t)), 'class': cname(c), 'name': getattr(c, '__name__', '?'),
                         'version': None if v is None else int(v), 'own_type': 'MESSAGE_TYPE' in vars(c)})
    registry.sort(key=lambda k: k['type'])
    resolved = []
    for t in MT.__members__.values():
        try:
            c = MP.get_message_class(t)
        except Exception as e:      # noqa
            c = e
        resolved.append([t.name, int(t), None if c is None else cname(c) if isinstance(c, type) else repr(c)])
    by_name = sorted([str(k), int(v)] for k, v in MP.message_type_by_name.items())
    return {'payload': payload, 'registry': registry, 'get_message_class': resolved, 'by_name': by_name,
            'is_command': sorted(t.name for t in MT.__members__.values() if defs.is_command(t)),
            'is_response': sorted(t.name for t in MT.__members__.values() if defs.is_response(t))}


# ---- the generated log -------------------------------------------------------------------------------------
def build_log(defs, path):
    """One instance of every registered class per epoch 1..N_EPOCHS, except that class number k has no message at the
    epochs (k mod N)+1 and ((k+2) mod N)+1: every type with P1 time has gaps that other types fill.  -> description."""
    from fusion_engine_client.parsers import FusionEngineEncoder
    from fusion_engine_client.messages import Timestamp
    enc = FusionEngineEncoder()
    classes = [c for _, c in sorted(defs.MessagePayload.message_type_to_class.items(), key=lambda kv: int(kv[0]))]
    data, desc, failed = b'', {}, {}
    for ep in range(1, N_EPOCHS + 1):
        for k, c in enumerate(classes):
            if ep in ((k % N_EPOCHS) + 1, ((k + 2) % N_EPOCHS) + 1):
                continue
            try:
                m = c()
                if 'p1_time' in vars(m):
                    m.p1_time = Timestamp(float(ep))
                data += enc.encode_message(m)
                desc.setdefault(c.__name__, []).append(ep)
            except Exception as e:      # a class whose default instance does not pack is left out of the log
                failed[c.__name__] = '%s: %s' % (type(e).__name__, str(e)[:80])
    with open(path, 'wb') as f:
        f.write(data)
    return {'bytes': len(data), 'epochs_per_class': desc, 'classes_not_packable': failed}, data


# ---- the steps ---------------------------------------------------------------------------------------------
def step_decode(defs, path, data):
    from fusion_engine_client.parsers import FusionEngineDecoder
    out = FusionEngineDecoder().on_data(data)
    d = FusionEngineDecoder()
    n = 0
    for i in range(0, min(len(data), 4000), 7):
        n += len(d.on_data(data[i:i + 7]))
    return 'FusionEngineDecoder().on_data(<log>) -> %d messages; 7-byte chunks -> %d' % (len(out), n)


def step_log_reader(defs, path, data):
    from fusion_engine_client.parsers.mixed_log_reader import MixedLogReader
    n = 0
    for kw in ({}, {'return_bytes': True}, {'return_header': False}, {'return_message_index': True, 'return_offset': True}):
        r = MixedLogReader(path, save_index=False, ignore_index=True, **kw)
        for _ in r:
            n += 1
    types = sorted(defs.MessagePayload.message_type_to_class, key=int)
    r = MixedLogReader(path, save_index=False, ignore_index=True, message_types=types[:8])
    for _ in r:
        n += 1
    r = MixedLogReader(path, save_index=False, ignore_index=True)
    r.filter_in_place(types[3:12])
    for _ in r:
        n += 1
    return 'for ... in MixedLogReader(<log>, ...) in 4 return forms + 2 type filters -> %d entries' % n


def _loader(path):
    from fusion_engine_client.analysis.data_loader import DataLoader
    return DataLoader(path, save_index=False, ignore_index=True)


def step_read(defs, path, data):
    ld = _loader(path)
    res = ld.read()
    n = sum(len(v.messages) for v in res.values())
    for t in list(res)[:60]:
        ld.read(message_types=[t], ignore_cache=True)
        ld.read(message_types=t)
    o = ld.read(return_in_order=True)
    ld2 = _loader(path)
    k = 0
    try:
        while ld2.read_next() is not None and k < 50:
            k += 1
    except Exception:      # noqa
        pass
    ld.close()
    ld2.close()
    return 'DataLoader(<log>).read() -> %d messages of %d types; per type; return_in_order=True -> %d; read_next() x %d' % (
        n, len(res), len(o.messages), k)


def step_align(mode_name):
    def run(defs, path, data):
        from fusion_engine_client.analysis.data_loader import DataLoader, TimeAlignmentMode
        mode = getattr(TimeAlignmentMode, mode_name)
        ld = _loader(path)
        res = ld.read(time_align=mode)
        sizes = sorted(set(len(v.messages) for v in res.values()))
        plain = ld.read(ignore_cache=True)
        types = [t for t in plain if len(plain[t].messages)]
        DataLoader.time_align_data(plain, mode)
        # pairs of types: each type is aligned against one neighbour (other gaps than in the all-types alignment)
        n_pairs = 0
        for a, b in zip(types, types[1:] + types[:1]):
            pair = ld.read(message_types=[a, b], ignore_cache=True)
            DataLoader.time_align_data(pair, mode)
            n_pairs += 1
        ld.read(time_align=mode, aligned_message_types=types[:5], ignore_cache=True)
        ld.read(time_align=mode, return_numpy=True, keep_messages=True, ignore_cache=True)
        ld.close()
        return ('DataLoader(<log>).read(time_align=TimeAlignmentMode.%s) -> message counts per type %s; '
                'DataLoader.time_align_data(read(), %s) on all types and on %d pairs of types' % (mode_name, sizes, mode_name, n_pairs))
    return run


def step_numpy(defs, path, data):
    from fusion_engine_client.analysis.data_loader import DataLoader
    ld = _loader(path)
    res = ld.read(return_numpy=True, keep_messages=True)
    plain = ld.read(ignore_cache=True)
    DataLoader.to_numpy(plain)
    n = 0
    for t, entry in ld.read(ignore_cache=True).items():
        try:
            entry.to_numpy()
        except Exception:      # noqa: not every class converts
            pass
        c = defs.MessagePayload.message_type_to_class.get(t)
        if c is not None and hasattr(c, 'to_numpy') and entry.messages:
            try:
                c.to_numpy(entry.messages)
                n += 1
            except Exception:      # noqa
                pass
    ld.close()
    return 'DataLoader.read(return_numpy=True); DataLoader.to_numpy(read()); MessageData.to_numpy(); <class>.to_numpy(messages) x %d' % n


def step_lookup(defs, path, data):
    MP = defs.MessagePayload
    n = 0
    for t in defs.MessageType.__members__.values():
        c = MP.get_message_class(t)
        if c is not None:
            try:
                str(c())
                repr(c())
            except Exception:      # noqa: a default instance with unset members may not print
                pass
            n += 1
    found = MP.find_matching_message_types('*', return_class=True)
    for name in list(MP.message_type_by_name)[:80]:
        try:
            MP.find_matching_message_types(name, return_class=True)
            MP.find_matching_message_types(name.lower()[:-7] if name.endswith('Message') else name)
        except Exception:      # noqa: ambiguous patterns raise
            pass
    return 'get_message_class(t) + str/repr of an instance for %d types; find_matching_message_types(.., return_class=True) -> %d' % (
        n, len(found))


def step_import_all(defs, path, data):
    root = os.path.dirname(os.path.abspath(importlib.import_module(PKG).__file__))
    n, failed = 0, []
    save_argv = sys.argv
    sys.argv = ['c03_usage']
    for d, dirs, files in os.walk(root):
        dirs[:] = sorted(x for x in dirs if x != '__pycache__')
        for f in sorted(files):
            if not f.endswith('.py'):
                continue
            rel = os.path.relpath(os.path.join(d, f), os.path.dirname(root))[:-3].split(os.sep)
            if rel[-1] == '__init__':
                rel = rel[:-1]
            try:
                importlib.import_module('.'.join(rel))
                n += 1
            except BaseException as e:      # noqa: optional dependencies
                failed.append('%s (%s)' % ('.'.join(rel), type(e).__name__))
    sys.argv = save_argv
    return 'import of every module of the package: %d imported%s' % (n, ', not importable: %s' % failed if failed else '')


# ---- class statements outside messages/*.py ------------------------------------------------------------------
def class_statements(repo, defs):
    """Every `class X(bases)` statement (any nesting) and 3-argument `type(...)` call in the package outside messages/*.py.
    A base written as a name / dotted name that is not bound inside an enclosing function is evaluated in the namespace of
    the imported module: `payload` if it is a MessagePayload subclass, `other` if it is some other object; anything else is
    `dynamic` (a variable holding a class).  For every statement the classes it has created so far in this process are
    looked up (gc, by module + qualified name of the statement) and those deriving from MessagePayload are listed."""
    import ast
    import gc
    root = os.path.join(repo, 'python', PKG)
    MP = defs.MessagePayload
    live = {}
    for o in gc.get_objects():
        if isinstance(o, type):
            live.setdefault((getattr(o, '__module__', None), getattr(o, '__qualname__', None)), []).append(o)
    res = []
    for d, dirs, files in os.walk(root):
        dirs[:] = sorted(x for x in dirs if x != '__pycache__')
        for f in sorted(files):
            path = os.path.join(d, f)
            rel = os.path.relpath(path, root)
            if not f.endswith('.py') or rel.split(os.sep)[0] == 'messages':
                continue
            parts = [PKG] + rel[:-3].split(os.sep)
            if parts[-1] == '__init__':
                parts = parts[:-1]
            modname = '.'.join(parts)
            mod = sys.modules.get(modname)
            try:
                tree = ast.parse(open(path, encoding='utf-8', errors='replace').read(), path)
            except SyntaxError:
                continue

            def visit(node, qual, local_names, in_func):
                for ch in ast.iter_child_nodes(node):
                    if isinstance(ch, (ast.FunctionDef, ast.AsyncFunctionDef, ast.Lambda)):
                        names = set(local_names)
                        a = ch.args
                        for x in list(getattr(a, 'posonlyargs', [])) + a.args + a.kwonlyargs + [y for y in (a.vararg, a.kwarg) if y]:
                            names.add(x.arg)
                        for n in ast.walk(ch):
                            if isinstance(n, ast.Name) and isinstance(n.ctx, ast.Store):
                                names.add(n.id)
                            elif isinstance(n, (ast.Import, ast.ImportFrom)):
                                names.update((al.asname or al.name).split('.')[0] for al in n.names)
                        nm = getattr(ch, 'name', '<lambda>')
                        visit(ch, qual + [nm, '<locals>'], names, True)
                        continue
                    bases, name = None, None
                    if isinstance(ch, ast.ClassDef):
                        bases, name = ch.bases, ch.name
                    elif isinstance(ch, ast.Call) and isinstance(ch.func, ast.Name) and ch.func.id == 'type' and len(ch.args) == 3:
                        bases = ch.args[1].elts if isinstance(ch.args[1], (ast.Tuple, ast.List)) else [ch.args[1]]
                        name = ch.args[0].value if isinstance(ch.args[0], ast.Constant) else None
                    if bases is not None:
                        rec = {'file': rel, 'module': modname, 'line': ch.lineno, 'name': name, 'in_function': in_func,
                               'scope': '.'.join(qual[:-1]) if in_func else '.'.join(qual) or '<module>',
                               'bases': [], 'kind': 'other', 'payload_bases': [],
                               'statement': 'class %s(%s)' % (name, ', '.join(ast.unparse(b) for b in bases))
                               if isinstance(ch, ast.ClassDef) else ast.unparse(ch)[:120]}
                        for b in bases:
                            txt = ast.unparse(b)
                            r = b
                            while isinstance(r, ast.Attribute):
                                r = r.value
                            kind, obj = 'dynamic', None
                            if isinstance(r, ast.Name) and r.id not in local_names and mod is not None:
                                try:
                                    obj = eval(compile(ast.Expression(b), path, 'eval'), vars(mod))      # names / attributes only
                                    kind = 'payload' if isinstance(obj, type) and issubclass(obj, MP) else 'other'
                                except Exception:      # noqa
                                    kind = 'dynamic'
                            elif isinstance(r, ast.Name) and r.id not in local_names and mod is None:
                                kind = 'module-not-imported'
                            rec['bases'].append([txt, kind])
                            if kind == 'payload':
                                t = obj.get_type()
                                rec['payload_bases'].append([cname(obj), getattr(t, 'name', None)])
                        kinds = [k for _, k in rec['bases']]
                        rec['kind'] = 'payload' if 'payload' in kinds else 'dynamic' if 'dynamic' in kinds else \
                            'module-not-imported' if 'module-not-imported' in kinds else 'other'
                        made = live.get((modname, '.'.join(qual + [name or '?'])), [])
                        rec['classes_created'] = len(made)
                        rec['payload_classes_created'] = [[cname(c), getattr(c.get_type(), 'name', None), [cname(x) for x in c.__bases__]]
                                                          for c in made if issubclass(c, MP)]
                        res.append(rec)
                    if isinstance(ch, ast.ClassDef):
                        visit(ch, qual + [ch.name], local_names, in_func)
                    else:
                        visit(ch, qual, local_names, in_func)

            visit(tree, [], set(), False)
    return res


STEPS = [('decode', step_decode), ('log-reader', step_log_reader), ('read', step_read), ('align-drop', step_align('DROP')),
         ('align-insert', step_align('INSERT')), ('numpy', step_numpy), ('lookup', step_lookup), ('import-all', step_import_all)]


def main(argv):
    repo = argv[1]
    only = argv[argv.index('--only') + 1] if '--only' in argv else None
    logging.disable(logging.CRITICAL)
    res = {'steps': [], 'only': only}
    msgs = importlib.import_module(PKG + '.messages')
    f = os.path.realpath(msgs.__file__)
    if not f.startswith(os.path.realpath(repo) + os.sep):
        raise RuntimeError('fusion_engine_client imported from %s, outside %s' % (f, repo))
    defs = importlib.import_module(PKG + '.messages.defs')
    res['fresh'] = snapshot(defs)
    scratch = tempfile.mkdtemp(prefix='c03_usage_')
    cwd = os.getcwd()
    os.chdir(scratch)
    devnull = open(os.devnull, 'w')
    real_out, real_err = sys.stdout, sys.stderr
    sys.stdout = sys.stderr = devnull
    try:
        path = os.path.join(scratch, 'input.p1log')
        try:
            res['log'], data = build_log(defs, path)
            res['steps'].append({'label': 'encode', 'call': 'FusionEngineEncoder().encode_message(cls()) for every registered '
                                 'class, %d epochs -> %d bytes' % (N_EPOCHS, len(data)), 'after': snapshot(defs)})
        except Exception as e:
            data = b''
            res['steps'].append({'label': 'encode', 'call': 'encode', 'exception': '%s: %s' % (type(e).__name__, str(e)[:300]),
                                 'after': snapshot(defs)})
        for label, fn in STEPS:
            if only is not None and label != only:
                continue
            st = {'label': label}
            try:
                st['call'] = fn(defs, path, data)
            except BaseException as e:      # noqa: the state left behind is what is observed
                st['call'] = label
                st['exception'] = '%s: %s' % (type(e).__name__, str(e)[:300])
            st['after'] = snapshot(defs)
            res['steps'].append(st)
    finally:
        sys.stdout, sys.stderr = real_out, real_err
        os.chdir(cwd)
        shutil.rmtree(scratch, ignore_errors=True)
    if only is None:
        try:
            res['class_statements'] = class_statements(repo, defs)
        except Exception as e:      # noqa
            res['class_statements_error'] = '%s: %s' % (type(e).__name__, str(e)[:300])
    # keep the output small: a snapshot equal to the fresh one is replaced by the word 'same'
    for st in res['steps']:
        if st['after'] == res['fresh']:
            st['after'] = 'same'
    sys.__stdout__.write('USAGE-RESULT: ' + json.dumps(res) + '\n')


def run(repo, only=None, timeout=300):
    """Run this file in a fresh interpreter on the working tree -> result dict."""
    import subprocess
    env = dict(os.environ, PYTHONPATH=os.path.join(repo, 'python'), PYTHONDONTWRITEBYTECODE='1')
    cmd = [sys.executable, os.path.abspath(__file__), repo] + (['--only', only] if only else [])
    p = subprocess.run(cmd, env=env, stdout=subprocess.PIPE, stderr=subprocess.PIPE, text=True, timeout=timeout,
                       stdin=subprocess.DEVNULL)
    line = [ln for ln in p.stdout.split('\n') if ln.startswith('USAGE-RESULT: ')]
    if not line:
        raise RuntimeError('c03_py_usage.py ended without a result (exit %s): %s' % (p.returncode, p.stderr[-600:]))
    return json.loads(line[-1][len('USAGE-RESULT: '):])


def replay_command(repo, only=None):
    return 'PYTHONPATH=%s/python %s %s %s%s' % (repo, sys.executable, os.path.abspath(__file__), repo,
                                                 ' --only ' + only if only else '')


if __name__ == '__main__':
    main(sys.argv)
