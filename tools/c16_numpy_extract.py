"""Translator for C16: `ast.parse` of every `to_numpy` classmethod of the message classes -> Lean table.

Reads names and the *shape* of expressions only (DESIGN.md 2.4).  For every class that defines `to_numpy` in
messages/{solution,measurements,device,ros,measurement_details,defs}.py it emits

    name, the attribute names assigned in __init__ (= the fields), whether __init__ creates `self.details =
    MeasurementDetails()`, a prelude (statements that rebind `messages` before the dictionary is built), the list of
    dictionary entries in source order (key, field path, kind), and `__metadata__['not_time_dependent']`.

Recognised entry forms (everything else is `opaque` = decided by running the real code only):

    np.array([ELEM for m in messages] [, dtype=D])[.T]     ELEM ::= m.a.b | m.a() | int(m.a.b) | float(m.a.b)
                                                            D    ::= int | bool | np.uint32 | np.uint64
    messages[0].a if len(messages) > 0 else DEFAULT        DEFAULT ::= np.nan | np.full((n,), np.nan)
    NAME                                                   a local assigned exactly once from a recognised form and
                                                            never stored into afterwards (`NAME[idx] = ..` -> opaque)
    X = <float array of m.p>; idx = np.logical_and(S == E.M, np.isnan(X)); X[idx] = F[idx]
                                                           (S, F locals of the int / float array forms): `fillNaN`
    result['k2'] = result['k1']                            alias: same entry under a second key
    result.update(MeasurementDetails.to_numpy([m.details for m in messages]))     include, path prefix `details`
    if COND: result['k'] = ...                             conditional + opaque
    return cls._message_to_numpy(messages)                 the generic path (model: FeVerif.Numpy.genericToNumpy)

    return HELPER(result, messages)                        HELPER a module-level function of the same file (one return, its
                                                           last statement; stores into the dictionary only): its statements are
                                                           read in place, parameters renamed to the arguments
    NAME = result['k'] ... result['k2'] = NAME             alias through a local assigned once after the dictionary

The recognised prelude is the CalibrationStatus one (drop the leading run of messages whose int(m.F) == Enum.MEMBER);
any other rebinding of `messages` is an opaque prelude.

FALLBACK (`extract(repo, prober)`, used by tools/props/c16.py): a class whose to_numpy the reader cannot express (an
unrecognised statement / return, an opaque prelude) gets its table from the RUNNING class instead - `infer_table` below: the
real to_numpy is run on probe lists with pairwise distinct field values and an entry (or the trimLeadingEq prelude) is accepted
only if the Python expression its kind stands for reproduces the real output bit for bit on every probe; everything else
stays `opaque` / raises as before.  Such a table is marked `OBTAINED BY PROBING` in the generated file and listed under
coverage.translator.tables_obtained_by_probing; Lean re-decides the theorems over it and the correspondence and the oracle
run on fresh inputs as for any other table (a swapped / transposed / mis-cast output is thus read off as what it is: the
same-name theorem fails and the oracle names the input).
"""
import ast
import os

FILES = ['solution', 'measurements', 'device', 'ros', 'measurement_details', 'defs']
DTYPES = {'int': 'int', 'bool': 'bool', 'np.uint32': 'uint32', 'np.uint64': 'uint64'}


def code(name):
    """Injective Nat encoding of a name: big-endian value of its UTF-8 bytes (DESIGN.md section 9)."""
    return int.from_bytes(name.encode(), 'big')


def lean_name(name):
    return '/- %s -/ 0x%x' % (name, code(name))


class Entry:
    def __init__(self, key, path, kind, conditional=False, why=None, line=0):
        self.key, self.path, self.kind, self.conditional, self.why, self.line = key, path, kind, conditional, why, line

    def as_obj(self):
        return {'key': self.key, 'path': self.path, 'kind': list(self.kind), 'conditional': self.conditional,
                'why_opaque': self.why, 'line': self.line}


def attr_path(node, var):
    """m.a.b -> ['a','b'];  m.a() -> ['a()'] ; None if not an attribute chain rooted at Name(var)."""
    segs = []
    if isinstance(node, ast.Call) and not node.args and not node.keywords and isinstance(node.func, ast.Attribute):
        segs.append(node.func.attr + '()')
        node = node.func.value
    while isinstance(node, ast.Attribute):
        segs.append(node.attr)
        node = node.value
    if isinstance(node, ast.Name) and node.id == var and segs:
        return list(reversed(segs))
    if isinstance(node, ast.Name) and node.id == var and not segs:
        return []
    return None


def is_np(node, name):
    return (isinstance(node, ast.Attribute) and node.attr == name and isinstance(node.value, ast.Name)
            and node.value.id == 'np')


def src(node):
    return ast.unparse(node)


def elem_form(node, var):
    """ELEM -> (elem kind, path) or None."""
    if isinstance(node, ast.Call) and isinstance(node.func, ast.Name) and node.func.id in ('int', 'float') \
            and len(node.args) == 1 and not node.keywords:
        p = attr_path(node.args[0], var)
        if p:
            return node.func.id, p
        return None
    p = attr_path(node, var)
    if p:
        return 'id', p
    return None


def array_form(node, msgs_name='messages'):
    """np.array([ELEM for m in messages], dtype=D)[.T] -> (path, ('perMsg', elem, dtype, transposed)) or (None, reason)."""
    transposed = False
    if isinstance(node, ast.Attribute) and node.attr == 'T':
        transposed = True
        node = node.value
    if not (isinstance(node, ast.Call) and is_np(node.func, 'array') and len(node.args) == 1):
        return None, 'not np.array([...])'
    dtype = 'none'
    for kw in node.keywords:
        if kw.arg != 'dtype':
            return None, 'keyword %s' % kw.arg
        d = src(kw.value)
        if d not in DTYPES:
            return None, 'dtype %s' % d
        dtype = DTYPES[d]
    lc = node.args[0]
    if not (isinstance(lc, ast.ListComp) and len(lc.generators) == 1):
        return None, 'not a single list comprehension'
    g = lc.generators[0]
    if g.ifs or g.is_async or not isinstance(g.target, ast.Name) or not isinstance(g.iter, ast.Name) \
            or g.iter.id != msgs_name:
        return None, 'comprehension not of the form `for m in messages`'
    ef = elem_form(lc.elt, g.target.id)
    if ef is None:
        return None, 'element expression `%s`' % src(lc.elt)
    return ef[1], ('perMsg', ef[0], dtype, transposed)


def first_form(node):
    """messages[0].a if len(messages) > 0 else DEFAULT"""
    if not isinstance(node, ast.IfExp):
        return None
    if src(node.test) != 'len(messages) > 0':
        return None
    b = node.body
    segs = []
    while isinstance(b, ast.Attribute):
        segs.append(b.attr)
        b = b.value
    if not (segs and src(b) == 'messages[0]'):
        return None
    d = src(node.orelse)
    if d == 'np.nan':
        dflt = ('nanScalar',)
    else:
        dflt = None
        o = node.orelse
        if isinstance(o, ast.Call) and is_np(o.func, 'full') and len(o.args) == 2 and src(o.args[1]) == 'np.nan' \
                and isinstance(o.args[0], ast.Tuple) and len(o.args[0].elts) == 1 \
                and isinstance(o.args[0].elts[0], ast.Constant) and isinstance(o.args[0].elts[0].value, int):
            dflt = ('nanVec', o.args[0].elts[0].value)
    if dflt is None:
        return None
    return list(reversed(segs)), ('first',) + dflt


def guess_path(node):
    """Best-effort field path mentioned by an opaque expression (for the evidence / same-name statement)."""
    for n in ast.walk(node):
        if isinstance(n, ast.Attribute) and isinstance(n.value, ast.Name) and n.value.id in ('m', 'v'):
            return [n.attr]
    return []


class ClassInfo:
    def __init__(self, name, file):
        self.name, self.file = name, file
        self.fields = []
        self.embeds_details = False
        self.generic = False
        self.prelude = ('none',)
        self.entries = []          # own entries, source order; ('include', 'MeasurementDetails', ['details']) markers
        self.not_time_dependent = []
        self.line = 0
        self.inlined_helpers = []   # module-level helper functions whose statements were read in place
        self.probed = None          # why the table was obtained by probing the running class (None: read from the AST)
        self.probe_notes = []

    def as_obj(self):
        return {'name': self.name, 'file': self.file, 'line': self.line, 'fields': self.fields,
                'embeds_details': self.embeds_details, 'generic': self.generic, 'prelude': list(self.prelude),
                'entries': [e.as_obj() if isinstance(e, Entry) else list(e) for e in self.entries],
                'not_time_dependent': self.not_time_dependent, 'inlined_helpers': self.inlined_helpers,
                'obtained_by_probing': self.probed, 'probe_notes': self.probe_notes}


def init_fields(cls_node):
    fields, embeds = [], False
    for f in cls_node.body:
        if isinstance(f, ast.FunctionDef) and f.name == '__init__':
            for st in ast.walk(f):
                targets = []
                if isinstance(st, ast.Assign):
                    targets = st.targets
                elif isinstance(st, ast.AnnAssign):
                    targets = [st.target]
                for t in targets:
                    if isinstance(t, ast.Attribute) and isinstance(t.value, ast.Name) and t.value.id == 'self':
                        if t.attr not in fields:
                            fields.append(t.attr)
                        if t.attr == 'details' and isinstance(st.value, ast.Call) and src(st.value.func) == 'MeasurementDetails':
                            embeds = True
    return fields, embeds


def recognise_trim(stmt):
    """The CalibrationStatus prelude:
        if len(messages) > 0:
            X = np.array([int(m.F) for m in messages], dtype=int)
            idx = np.argmax(X != E.M)
            if idx > 0 or not X[0] != E.M:
                messages = messages[idx:]
    -> ('trimLeadingEq', [F], 'E.M')"""
    if not (isinstance(stmt, ast.If) and src(stmt.test) == 'len(messages) > 0' and not stmt.orelse and len(stmt.body) == 3):
        return None
    a, b, c = stmt.body
    if not (isinstance(a, ast.Assign) and len(a.targets) == 1 and isinstance(a.targets[0], ast.Name)):
        return None
    x = a.targets[0].id
    path, kind = array_form(a.value)
    if path is None or kind != ('perMsg', 'int', 'int', False):
        return None
    if not (isinstance(b, ast.Assign) and src(b.targets[0]) == 'idx' and isinstance(b.value, ast.Call)
            and is_np(b.value.func, 'argmax') and len(b.value.args) == 1):
        return None
    cmpn = b.value.args[0]
    if not (isinstance(cmpn, ast.Compare) and src(cmpn.left) == x and len(cmpn.ops) == 1 and isinstance(cmpn.ops[0], ast.NotEq)):
        return None
    member = src(cmpn.comparators[0])
    if src(c) != 'if idx > 0 or not %s[0] != %s:\n    messages = messages[idx:]' % (x, member):
        return None
    return ('trimLeadingEq', path, member)


def recognise_fills(body, enum_values):
    """consecutive statements  idx = np.logical_and(S == E.M, np.isnan(X)) ; X[idx] = F[idx]
    -> {id(second statement): (X, S, 'E.M', value, F)}"""
    res = {}
    for a, b in zip(body, body[1:]):
        if not (isinstance(a, ast.Assign) and len(a.targets) == 1 and isinstance(a.targets[0], ast.Name)
                and isinstance(a.value, ast.Call) and is_np(a.value.func, 'logical_and') and len(a.value.args) == 2):
            continue
        idx = a.targets[0].id
        c, n = a.value.args
        if not (isinstance(c, ast.Compare) and isinstance(c.left, ast.Name) and len(c.ops) == 1 and isinstance(c.ops[0], ast.Eq)
                and src(c.comparators[0]) in enum_values):
            continue
        if not (isinstance(n, ast.Call) and is_np(n.func, 'isnan') and len(n.args) == 1 and isinstance(n.args[0], ast.Name)):
            continue
        x = n.args[0].id
        if not (isinstance(b, ast.Assign) and len(b.targets) == 1 and src(b.targets[0]) == '%s[%s]' % (x, idx)
                and isinstance(b.value, ast.Subscript) and isinstance(b.value.value, ast.Name) and src(b.value.slice) == idx):
            continue
        member = src(c.comparators[0])
        res[id(b)] = (x, c.left.id, member, enum_values[member], b.value.value.id)
    return res


def rebinds_messages(stmt):
    for n in ast.walk(stmt):
        if isinstance(n, (ast.Assign, ast.AugAssign, ast.AnnAssign)):
            ts = n.targets if isinstance(n, ast.Assign) else [n.target]
            for t in ts:
                for nn in ast.walk(t):
                    if isinstance(nn, ast.Name) and nn.id == 'messages':
                        return True
    return False


def extract_function(ci, fn, enum_values, helpers=None):
    helpers = helpers or {}
    body = [s for s in fn.body if not (isinstance(s, ast.Expr) and isinstance(s.value, ast.Constant))]
    # generic path
    if len(body) == 1 and isinstance(body[0], ast.Return) and src(body[0].value) == 'cls._message_to_numpy(messages)':
        ci.generic = True
        return
    locals_ = {}       # name -> (path, kind) or ('opaque', why, path)
    stored = set()     # names that are the target of a subscripted store (other than a recognised fill-in)
    fills = recognise_fills(fn.body, enum_values)
    for s in ast.walk(fn):
        if isinstance(s, ast.Assign):
            for t in s.targets:
                if isinstance(t, ast.Subscript) and isinstance(t.value, ast.Name) and id(s) not in fills:
                    stored.add(t.value.id)
    dict_name = None
    seen_dict = False
    aliases = {}       # local name -> key: `NAME = result['key']` after the dictionary (single assignment)
    inlined = []       # helper functions being inlined (no recursion)

    def inline_helper(call):
        """`return HELPER(result, messages, ...)` with HELPER a module-level function of the same file whose parameters are
        bound to plain local names: its statements are read in place (parameters renamed to the arguments, its other locals
        prefixed), its own `return PARAM` of the dictionary ends the conversion.  None if the call has no such form."""
        if not (isinstance(call, ast.Call) and isinstance(call.func, ast.Name) and call.func.id in helpers
                and not call.keywords and call.func.id not in inlined):
            return None
        h = helpers[call.func.id]
        a = h.args
        if a.vararg or a.kwarg or a.kwonlyargs or a.posonlyargs or a.defaults or len(a.args) != len(call.args) \
                or not all(isinstance(x, ast.Name) for x in call.args) or h.decorator_list:
            return None
        ren = {p.arg: x.id for p, x in zip(a.args, call.args)}
        if dict_name not in ren.values():
            return None
        assigned = {n.id for st in h.body for n in ast.walk(st) if isinstance(n, ast.Name) and isinstance(n.ctx, ast.Store)}
        if assigned & set(ren):
            return None                       # a parameter is rebound inside the helper
        dict_param = [p for p, x in ren.items() if x == dict_name]
        for st in h.body:
            for n in ast.walk(st):            # stores into anything but the dictionary (x[idx] = ..., x.attr = ..., del, +=)
                if isinstance(n, (ast.Subscript, ast.Attribute)) and isinstance(n.ctx, (ast.Store, ast.Del)) \
                        and not (isinstance(n, ast.Subscript) and isinstance(n.value, ast.Name) and n.value.id in dict_param):
                    return None
                if isinstance(n, (ast.AugAssign, ast.Delete)):
                    return None
        comp = {n.id for st in h.body for c in ast.walk(st) if isinstance(c, ast.comprehension)
                for n in ast.walk(c.target) if isinstance(n, ast.Name)}
        if comp & set(ren):
            return None
        for nm in assigned - comp:            # comprehension variables are scoped to the comprehension
            ren[nm] = '_%s__%s' % (h.name, nm)
        import copy
        stmts = [copy.deepcopy(st) for st in h.body if not (isinstance(st, ast.Expr) and isinstance(st.value, ast.Constant))]
        for st in stmts:
            for n in ast.walk(st):
                if isinstance(n, (ast.FunctionDef, ast.Lambda, ast.ClassDef, ast.Global, ast.Nonlocal)):
                    return None
                if isinstance(n, ast.Return) and n is not stmts[-1]:
                    return None               # a single return, as the last statement
                if isinstance(n, ast.Name) and n.id in ren:
                    n.id = ren[n.id]
        if not (stmts and isinstance(stmts[-1], ast.Return)):
            return None
        return h.name, stmts

    def value_entry(key, node, line, conditional=False):
        if isinstance(node, ast.Name) and node.id in aliases and not conditional:
            srcs = [e for e in ci.entries if isinstance(e, Entry) and e.key == aliases[node.id]]
            if srcs:
                e0 = srcs[-1]
                return Entry(key, e0.path, e0.kind, False, e0.why, line)
        if isinstance(node, ast.Name) and node.id in locals_:
            path, kind = locals_[node.id]
            if node.id in stored:
                return Entry(key, path, ('opaque',), conditional, 'local `%s` is modified in place after creation' % node.id, line)
            return Entry(key, path, kind, conditional, None, line)
        ff = first_form(node)
        if ff:
            return Entry(key, ff[0], ff[1], conditional, None, line)
        path, kind = array_form(node)
        if path is not None:
            return Entry(key, path, kind, conditional, None, line)
        return Entry(key, guess_path(node), ('opaque',), conditional, '%s: `%s`' % (kind, src(node)[:90]), line)

    def dict_entries(d):
        for k, v in zip(d.keys, d.values):
            if not (isinstance(k, ast.Constant) and isinstance(k.value, str)):
                ci.entries.append(Entry('?', [], ('opaque',), False, 'non-literal key', d.lineno))
                continue
            if k.value == '__metadata__':
                md = ast.literal_eval(v)
                ci.not_time_dependent = list(md.get('not_time_dependent', []))
                if set(md) - {'not_time_dependent'}:
                    raise ValueError('%s: unknown __metadata__ keys %s' % (ci.name, sorted(md)))
                continue
            ci.entries.append(value_entry(k.value, v, v.lineno))

    def handle(s, conditional=False):
        nonlocal dict_name, seen_dict
        if isinstance(s, ast.Assign) and len(s.targets) == 1 and isinstance(s.targets[0], ast.Name) \
                and isinstance(s.value, ast.Dict) and not conditional:
            dict_name = s.targets[0].id
            seen_dict = True
            dict_entries(s.value)
            return
        if isinstance(s, ast.Return):
            if isinstance(s.value, ast.Dict) and not seen_dict:
                seen_dict = True
                dict_entries(s.value)
                return
            if isinstance(s.value, ast.Name) and s.value.id == dict_name:
                return
            inl = inline_helper(s.value) if seen_dict and dict_name else None
            if inl is not None:
                inlined.append(inl[0])
                ci.inlined_helpers.append(inl[0])
                for t in inl[1]:
                    handle(t, conditional)
                inlined.pop()
                return
            raise ValueError('%s.to_numpy: unrecognised return `%s`' % (ci.name, src(s)))
        if not seen_dict:
            if rebinds_messages(s):
                tr = recognise_trim(s)
                if tr and ci.prelude == ('none',):
                    member = tr[2]
                    if member not in enum_values:
                        raise ValueError('%s: cannot resolve %s' % (ci.name, member))
                    ci.prelude = ('trimLeadingEq', tr[1], member, enum_values[member])
                else:
                    ci.prelude = ('opaque', src(s)[:120])
                return
            if isinstance(s, ast.Assign) and len(s.targets) == 1 and isinstance(s.targets[0], ast.Name):
                nm = s.targets[0].id
                path, kind = array_form(s.value)
                if nm in locals_:
                    locals_[nm] = (locals_[nm][0], ('opaque',))
                    stored.add(nm)
                elif path is not None:
                    locals_[nm] = (path, kind)
                else:
                    locals_[nm] = (guess_path(s.value), ('opaque',))
                    stored.add(nm)
                return
            if id(s) in fills:              # X[idx] = F[idx] of a recognised fill-in
                x, src_name, member, value, fb = fills[id(s)]
                fx, fs, ff = locals_.get(x), locals_.get(src_name), locals_.get(fb)
                if fx and fs and ff and fx[1] == ('perMsg', 'float', 'none', False) and ff[1] == ('perMsg', 'float', 'none', False) \
                        and fs[1] == ('perMsg', 'int', 'int', False) and not ({x, src_name, fb} & stored):
                    locals_[x] = (fx[0], ('fillNaN', ff[0], fs[0], member, value))
                else:
                    stored.add(x)
                return
            if isinstance(s, ast.Assign):   # any other in-place store (recorded in `stored`)
                return
            raise ValueError('%s.to_numpy: unrecognised statement before the dictionary: `%s`' % (ci.name, src(s)[:80]))
        # after the dictionary
        if isinstance(s, ast.Expr) and isinstance(s.value, ast.Call) and \
                src(s.value) == "%s.update(MeasurementDetails.to_numpy([m.details for m in messages]))" % dict_name:
            ci.entries.append(('include', 'MeasurementDetails', ['details']))
            return
        if isinstance(s, ast.Assign) and len(s.targets) == 1 and isinstance(s.targets[0], ast.Subscript) \
                and src(s.targets[0].value) == dict_name and isinstance(s.targets[0].slice, ast.Constant):
            key = s.targets[0].slice.value
            v = s.value
            if isinstance(v, ast.Subscript) and src(v.value) == dict_name and isinstance(v.slice, ast.Constant):
                srcs = [e for e in ci.entries if isinstance(e, Entry) and e.key == v.slice.value]
                if srcs and not conditional:
                    e0 = srcs[-1]
                    ci.entries.append(Entry(key, e0.path, e0.kind, False, e0.why, s.lineno))
                    return
            ci.entries.append(value_entry(key, v, s.lineno, conditional))
            return
        if isinstance(s, ast.If) and not s.orelse:
            for t in s.body:
                handle(t, True)
            return
        if isinstance(s, ast.Assign) and len(s.targets) == 1 and isinstance(s.targets[0], ast.Name) and not conditional \
                and isinstance(s.value, ast.Subscript) and src(s.value.value) == dict_name \
                and isinstance(s.value.slice, ast.Constant) and s.targets[0].id not in aliases \
                and s.targets[0].id not in locals_ and s.targets[0].id not in stored:
            aliases[s.targets[0].id] = s.value.slice.value      # NAME = result['key']
            return
        if isinstance(s, ast.Assign) and all(isinstance(t, ast.Name) for t in s.targets):
            for t in s.targets:           # scratch locals after the dictionary (idx = ...): they feed opaque entries only
                aliases.pop(t.id, None)
                locals_[t.id] = (guess_path(s.value), ('opaque',))
                stored.add(t.id)
            return
        if isinstance(s, ast.Assign) and all(isinstance(t, ast.Subscript) and isinstance(t.value, ast.Name)
                                             and t.value.id != dict_name for t in s.targets):
            return                        # in-place store into a local; already recorded in `stored`
        raise ValueError('%s.to_numpy: unrecognised statement after the dictionary: `%s`' % (ci.name, src(s)[:80]))

    for s in body:
        handle(s)
    if not seen_dict:
        raise ValueError('%s.to_numpy: no dictionary found' % ci.name)


def enum_table(trees):
    """Enum.MEMBER -> int for the IntEnum classes of the parsed files (literal values only)."""
    res = {}
    for t in trees:
        for c in ast.walk(t):
            if isinstance(c, ast.ClassDef) and any('Enum' in src(b) for b in c.bases):
                for st in c.body:
                    if isinstance(st, ast.Assign) and len(st.targets) == 1 and isinstance(st.targets[0], ast.Name):
                        v = st.value
                        if isinstance(v, ast.Tuple) and len(v.elts) == 1:     # `UNKNOWN = 0,`
                            v = v.elts[0]
                        if isinstance(v, ast.Constant) and isinstance(v.value, int):
                            res['%s.%s' % (c.name, st.targets[0].id)] = v.value
    return res


def extract(repo, prober=None):
    """prober(ci, why) -> result of `infer_table` for the class, or None: called for a class the AST reader cannot express
    (its to_numpy has an unrecognised statement / return, or rebinds `messages` in an unrecognised way)."""
    base = os.path.join(repo, 'python', 'fusion_engine_client', 'messages')
    trees = []
    for f in FILES:
        p = os.path.join(base, f + '.py')
        trees.append((f, ast.parse(open(p).read(), p)))
    enums = enum_table([t for _, t in trees])
    classes = []
    for f, t in trees:
        for c in t.body:
            if not isinstance(c, ast.ClassDef):
                continue
            for fn in c.body:
                if isinstance(fn, ast.FunctionDef) and fn.name == 'to_numpy':
                    if not any(isinstance(d, ast.Name) and d.id == 'classmethod' for d in fn.decorator_list):
                        raise ValueError('%s.to_numpy is not a classmethod' % c.name)
                    ci = ClassInfo(c.name, f + '.py')
                    ci.line = fn.lineno
                    ci.fields, ci.embeds_details = init_fields(c)
                    helpers = {h.name: h for h in t.body if isinstance(h, ast.FunctionDef)}
                    why = None
                    try:
                        extract_function(ci, fn, enums, helpers)
                        if ci.prelude[0] == 'opaque':
                            why = 'unrecognised rebinding of `messages`: `%s`' % ci.prelude[1].split('\n')[0][:80]
                    except ValueError as e:
                        if prober is None:
                            raise
                        why = str(e)
                        ci.entries, ci.prelude, ci.not_time_dependent, ci.generic = [], ('none',), [], False
                        ci.inlined_helpers = []
                        unreadable = e
                    else:
                        unreadable = None
                    if why is not None and prober is not None:
                        res = prober(ci, why)
                        if res is not None and res[0] is not None:
                            apply_probe(ci, res[0], why)
                        elif unreadable is not None:
                            raise ValueError('%s (probing the running class: %s)' % (unreadable, res[1] if res else 'not available'))
                        else:
                            ci.probe_notes.append('probing the running class: %s' % (res[1] if res else 'not available'))
                    classes.append(ci)
    names = [c.name for c in classes]
    if 'MeasurementDetails' not in names:
        raise ValueError('MeasurementDetails.to_numpy not found')
    for c in classes:
        for e in c.entries:
            if not isinstance(e, Entry) and e[1] not in names:
                raise ValueError('%s includes unknown table %s' % (c.name, e[1]))
    # includes must come after their target in the Lean file
    classes.sort(key=lambda c: (0 if c.name == 'MeasurementDetails' else 1, FILES.index(c.file[:-3]), c.line))
    return classes


# ---- behavioural extraction (fallback when the AST reader cannot express a class) ------------------------------------
# The table of ONE class is inferred from the running `Class.to_numpy` on probe lists supplied by the harness (objects whose
# fields hold pairwise distinct values; lengths 0, 1, 2, 5; NaN P1 times and time sources at known positions; for every
# enum-valued field leading runs of every member).  A candidate table entry is accepted only if the PYTHON EXPRESSION THE
# ENTRY KIND STANDS FOR (see the module docstring), evaluated by numpy on the probe objects, reproduces the real output
# bit for bit (dtype, shape, bytes) on EVERY probe; what no candidate reproduces stays `opaque`, exactly as for an
# unrecognised source form.  The result is an ordinary table: Lean re-decides the theorems over it and the correspondence /
# oracle of tools/props/c16.py run on fresh random inputs as for an AST-read table.
NP_DTYPES = [('none', None), ('int', int), ('bool', bool), ('uint32', 'uint32'), ('uint64', 'uint64')]
PROBE_METHOD_PREFIXES = ('is_', 'has_')


def _get(obj, path):
    for seg in path:
        obj = getattr(obj, seg[:-2])() if seg.endswith('()') else getattr(obj, seg)
    return obj


def _same_array(a, b):
    import numpy as np
    return isinstance(a, np.ndarray) and isinstance(b, np.ndarray) and a.dtype == b.dtype and a.dtype.kind != 'O' \
        and a.shape == b.shape and a.tobytes() == b.tobytes()


def _same_value(a, b):
    """`messages[0].f` used as a dictionary value"""
    import numpy as np
    if isinstance(a, np.ndarray) or isinstance(b, np.ndarray):
        return _same_array(a, b)
    if isinstance(a, (bool, int, float, np.number, np.bool_)) and isinstance(b, (bool, int, float, np.number, np.bool_)):
        return type(a) is type(b) and (a == b or (a != a and b != b))
    return False


def candidate_paths(obj):
    """attribute paths of a message object: its attributes, those of nested plain objects (the measurement details), and the
    public argument-less predicate methods of its class"""
    import enum
    import inspect
    import numpy as np
    res = []
    for k, v in vars(obj).items():
        res.append([k])
        if hasattr(v, '__dict__') and not isinstance(v, (enum.Enum, type, np.ndarray)) and not hasattr(v, '__float__'):
            res += [[k, k2] for k2 in vars(v)]
    for nm, f in inspect.getmembers(type(obj), inspect.isfunction):
        if nm.startswith(PROBE_METHOD_PREFIXES) and len(inspect.signature(f).parameters) == 1:
            res.append([nm + '()'])
    return res


def eval_per_msg(msgs, path, elem, dtype, transposed):
    """np.array([ELEM(m.path) for m in msgs], dtype=D)[.T] -- None if it raises"""
    import numpy as np
    import warnings
    conv = {'id': lambda v: v, 'int': int, 'float': float}[elem]
    try:
        with warnings.catch_warnings():
            warnings.simplefilter('error')
            d = dict(NP_DTYPES)[dtype]
            vals = [conv(_get(m, path)) for m in msgs]
            a = np.array(vals) if d is None else np.array(vals, dtype=d)
            return a.T if transposed else a
    except Exception:     # noqa
        return None


def eval_fill(msgs, path, fb, cond, v):
    import numpy as np
    try:
        x = np.array([float(_get(m, path)) for m in msgs])
        s = np.array([int(_get(m, cond)) for m in msgs], dtype=int)
        f = np.array([float(_get(m, fb)) for m in msgs])
        idx = np.logical_and(s == v, np.isnan(x))
        x[idx] = f[idx]
        return x
    except Exception:     # noqa
        return None


def leading_run(msgs, path, v):
    """number of messages `trimLeadingEq path v` drops (Model/Numpy.lean trimLeadingEq / argmaxNe)"""
    st = [int(_get(m, path)) for m in msgs]
    if all(x == v for x in st):
        return 0
    k = 0
    while st[k] == v:
        k += 1
    return k


def infer_table(ci, probes, enum_members):
    """probes: [(msgs, real dict)] of one class.  enum_members: {tuple(path): [(Enum.MEMBER text, int)]} for the enum-valued
    scalar attribute paths.  Returns (prelude, entries, not_time_dependent, notes) or (None, why)."""
    import numpy as np
    notes = []
    nonempty = [(m, r) for m, r in probes if m]
    if not nonempty or not any(not m for m, _ in probes):
        return None, 'no probes'
    ntd = None
    for _, r in probes:
        md = r.get('__metadata__', {})
        if not isinstance(md, dict) or set(md) - {'not_time_dependent'}:
            return None, 'unknown __metadata__'
        this = list(md.get('not_time_dependent', []))
        if ntd is not None and this != ntd:
            return None, '__metadata__ differs between inputs'
        ntd = this
    # -- prelude: how many messages were converted?
    kept_n = []
    for msgs, r in probes:
        ls = {len(a) for k, a in r.items() if k not in ntd and isinstance(a, np.ndarray) and a.ndim == 1}
        if len(ls) != 1:
            return None, 'one-dimensional outputs of different lengths %s for %d messages' % (sorted(ls), len(msgs))
        kept_n.append(ls.pop())
    if all(k == len(m) for k, (m, _) in zip(kept_n, probes)):
        prelude = ('none',)
        drop = [0] * len(probes)
    else:
        hyp = []
        for path, members in sorted(enum_members.items()):
            for text, v in members:
                try:
                    d = [leading_run(m, path, v) if m else 0 for m, _ in probes]
                except Exception:     # noqa
                    continue
                if all(len(m) - x == k for (m, _), x, k in zip(probes, d, kept_n)):
                    hyp.append((list(path), text, v, d))
        if len(hyp) != 1:
            return None, 'the number of converted messages follows %d of the candidate leading-run rules' % len(hyp)
        prelude = ('trimLeadingEq', hyp[0][0], hyp[0][1], hyp[0][2])
        drop = hyp[0][3]
        notes.append('prelude: converts messages[k:], k = length of the leading run of %s == %s (0 if all)' % ('.'.join(hyp[0][0]), hyp[0][1]))
    eff = [(m[d:], r) for (m, r), d in zip(probes, drop)]
    sample = max(eff, key=lambda x: len(x[0]))
    paths = candidate_paths(sample[0][0])
    # -- entries, in the key order of the real dictionary
    keys = []
    for _, r in probes:
        for k in r:
            if k != '__metadata__' and k not in keys:
                keys.append(k)
    entries = []
    for key in keys:
        if not all(key in r for _, r in probes):
            entries.append(Entry(key, [], ('opaque',), True, 'probing: the key is present for some inputs only', ci.line))
            continue
        found = []
        if isinstance(sample[1][key], np.ndarray):
            for path in paths:
                for elem in ('id', 'float', 'int'):
                    for dtype, _ in NP_DTYPES:
                        for tr in (False, True):
                            if not _same_array(eval_per_msg(sample[0], path, elem, dtype, tr), sample[1][key]):
                                continue
                            if all(_same_array(eval_per_msg(m, path, elem, dtype, tr), r[key]) for m, r in eff):
                                found.append((path, ('perMsg', elem, dtype, tr)))
            # several forms of ONE path can be indistinguishable (`.T` of a 1-D array, float() of a float): the plainest one
            if not found:
                x = sample[1][key]
                if x.dtype == np.float64 and x.ndim == 1:
                    for path in paths:
                        base = eval_per_msg(sample[0], path, 'float', 'none', False)
                        if base is None or base.shape != x.shape or not any(a == b for a, b in zip(base.tolist(), x.tolist())):
                            continue
                        for fb in paths:
                            if fb == path or eval_per_msg(sample[0], fb, 'float', 'none', False) is None:
                                continue
                            for cond, members in sorted(enum_members.items()):
                                for text, v in members:
                                    if all(_same_array(eval_fill(m, path, fb, list(cond), v), r[key]) for m, r in eff):
                                        found.append((path, ('fillNaN', fb, list(cond), text, v)))
        if key in ntd or not isinstance(sample[1][key], np.ndarray) or not found:
            empty = [r[key] for m, r in eff if not m]
            dflt = None
            e0 = empty[0]
            if isinstance(e0, float) and e0 != e0:
                dflt = ('nanScalar',)
            elif isinstance(e0, np.ndarray) and e0.ndim == 1 and e0.dtype == np.float64 and np.isnan(e0).all() and len(e0) > 0:
                dflt = ('nanVec', len(e0))
            if dflt is not None:
                import struct
                nanb = struct.pack('<d', float('nan'))
                if all((isinstance(e, float) and struct.pack('<d', e) == nanb) if dflt[0] == 'nanScalar' else
                       _same_array(e, np.full((dflt[1],), np.nan)) for e in empty):
                    firsts = [(path, ('first',) + dflt) for path in paths
                              if all(_same_value(_try_get(m[0], path), r[key]) for m, r in eff if m)]
                    if firsts:
                        found = firsts
        paths_found = []
        for f in found:
            if f[0] not in paths_found:
                paths_found.append(f[0])
        if not found:
            entries.append(Entry(key, [], ('opaque',), False, 'probing: no table form reproduces the output', ci.line))
            continue
        if len(paths_found) > 1:
            notes.append('%s: the probes do not tell the attributes %s apart' % (key, ['.'.join(q) for q in paths_found]))
            own = [q for q in paths_found if q[-1] == key]
            if len(own) != 1:
                entries.append(Entry(key, [], ('opaque',), False, 'probing: ambiguous between %s' % paths_found, ci.line))
                continue
            found = [f for f in found if f[0] == own[0]]
        path, kind = found[0]
        entries.append(Entry(key, list(path), kind, False, None, ci.line))
    return (prelude, entries, ntd, notes), None


def _try_get(obj, path):
    try:
        return _get(obj, path)
    except Exception:     # noqa
        return None


def apply_probe(ci, result, why):
    prelude, entries, ntd, notes = result
    ci.prelude, ci.entries, ci.not_time_dependent = prelude, entries, ntd
    ci.generic = False
    ci.probed = why
    ci.probe_notes = notes


# ---- Lean emission --------------------------------------------------------------------------------------------------
def lean_path(p):
    return '[' + ', '.join(lean_name(x) for x in p) + ']'


def lean_kind(k):
    if k[0] == 'perMsg':
        return '.perMsg .%s .%s %s' % ({'id': 'id', 'int': 'int', 'float': 'float'}[k[1]], k[2], 'true' if k[3] else 'false')
    if k[0] == 'first':
        return '.first ' + ('.nanScalar' if k[1] == 'nanScalar' else '(.nanVec %d)' % k[2])
    if k[0] == 'fillNaN':
        return '.fillNaN %s %s (/- %s -/ %d)' % (lean_path(k[1]), lean_path(k[2]), k[3], k[4])
    return '.opq'


def to_lean(classes):
    out = ['/-', 'GENERATED by tools/c16_numpy_extract.py from python/fusion_engine_client/messages/*.py -- do not edit.',
           'One table per class defining `to_numpy`.  Names are Nat codes (big-endian UTF-8 bytes, written in hex).', '-/',
           'import FeVerif.Model.Numpy', '', 'namespace FeVerif.Numpy.Gen', '']
    for c in classes:
        out.append('/-- %s.to_numpy  (%s:%d)%s -/' % (c.name, c.file, c.line, '  -- table OBTAINED BY PROBING the running class '
                   '(the AST reader: %s)' % c.probed.replace('-/', '- /').replace('\n', ' ')[:160] if c.probed else ''))
        out.append('def %s : ClassTable where' % c.name)
        out.append('  name := %s' % lean_name(c.name))
        out.append('  fields := %s' % lean_path(c.fields))
        out.append('  embedsDetails := %s' % ('true' if c.embeds_details else 'false'))
        out.append('  generic := %s' % ('true' if c.generic else 'false'))
        if c.prelude[0] == 'none':
            out.append('  prelude := .none')
        elif c.prelude[0] == 'trimLeadingEq':
            out.append('  prelude := .trimLeadingEq %s (/- %s -/ %d)' % (lean_path(c.prelude[1]), c.prelude[2], c.prelude[3]))
        else:
            out.append('  prelude := .opq')
        out.append('  notTimeDependent := %s' % lean_path(c.not_time_dependent))
        parts = []
        cur = []
        for e in c.entries:
            if isinstance(e, Entry):
                cur.append('    { key := %s, path := %s, kind := %s, conditional := %s }'
                           % (lean_name(e.key), lean_path(e.path), lean_kind(e.kind), 'true' if e.conditional else 'false'))
            else:
                parts.append('[\n' + ',\n'.join(cur) + ']' if cur else '[]')
                cur = []
                parts.append('includeTable %s %s.entries' % (lean_path(e[2]), e[1]))
        if cur or not parts:
            parts.append('[\n' + ',\n'.join(cur) + ']' if cur else '[]')
        out.append('  entries := ' + ' ++\n    '.join(parts))
        out.append('')
    out.append('/-- every class that defines `to_numpy`, in file order -/')
    out.append('def allTables : List ClassTable :=\n  [' + ', '.join(c.name for c in classes) + ']')
    out.append('')
    out.append('end FeVerif.Numpy.Gen')
    return '\n'.join(out) + '\n'


def props_lean(classes):
    """Generated/NumpyProps.lean is not used: the per-class theorems are stated in Props/C16.lean over `allTables`."""
    return None


def write_if_changed(path, text):
    if os.path.exists(path) and open(path).read() == text:
        return False
    os.makedirs(os.path.dirname(path), exist_ok=True)
    tmp = path + '.tmp%d' % os.getpid()
    with open(tmp, 'w') as f:
        f.write(text)
    os.replace(tmp, path)
    return True


def flat_entries(classes, ci):
    """Entries of a class with includes expanded (path prefixed) -- the Python mirror of `includeTable`."""
    by = {c.name: c for c in classes}
    res = []
    for e in ci.entries:
        if isinstance(e, Entry):
            res.append(e)
        else:
            for e2 in flat_entries(classes, by[e[1]]):
                k = e2.kind
                if k[0] == 'fillNaN':
                    k = ('fillNaN', list(e[2]) + k[1], list(e[2]) + k[2], k[3], k[4])
                res.append(Entry(e2.key, list(e[2]) + e2.path, k, e2.conditional, e2.why, e2.line))
    return res


def run(repo, lean_dir, prober=None):
    classes = extract(repo, prober)
    text = to_lean(classes)
    changed = write_if_changed(os.path.join(lean_dir, 'FeVerif', 'Generated', 'Numpy.lean'), text)
    return classes, changed


if __name__ == '__main__':
    import json
    import sys
    repo = sys.argv[1] if len(sys.argv) > 1 else os.environ.get('FE_REPO', '/repo')
    cl = extract(repo)
    if len(sys.argv) > 2:
        print(to_lean(cl))
    else:
        print(json.dumps([c.as_obj() for c in cl], indent=1))
