"""C17 translator: every IntEnum subclass of the working-tree package -> lean/FeVerif/Generated/PyEnums.lean.

What is read (names and literals only):
  * the classes themselves (imported from $FE_REPO/python): `__members__` in definition order, aliases included,
    as (name, int value); names vs members: the first name of every distinct value is a member, every later name of
    that value an alias (checked against the interpreter: the alias maps to the same object); the generated table
    states per class that this member list is the model's `canonicalMembers` of the body (`eN_members`); for the classes made by `enum_bitmask`: `_enum_offset`, `_enum_values` and the members;
  * cross-check against `ast.parse` of the defining module: the `NAME = <int literal>` lines of the class body must be
    the members the interpreter shows (so that run-time mutation of a class cannot hide a source change);
  * the width of the wire field an enum travels in: `AutoEnum(Int<N>ul, X)` calls in the package, else
    `enum class X : uint<N>_t` in the C++ headers; used only to choose the integer range the harness enumerates.

Names are emitted as lists of code points so that the per-enum facts (`enumOk`, `maskOk`) are decided by the Lean
kernel on numbers only.  The file is rewritten only when its content changes.
"""
import ast
import glob
import importlib
import inspect
import os
import pkgutil
import re
import sys

HIDDEN_PREFIX = '_U'


class ExtractError(Exception):
    pass


def _subclasses(c):
    for s in type.__subclasses__(c):
        yield s
        yield from _subclasses(s)


def _ast_bodies(path, cache={}):
    """qualname -> ([(name, literal int or None)], decorated?) for every class in a source file."""
    if path in cache:
        return cache[path]
    res = {}
    try:
        tree = ast.parse(open(path).read())
    except (OSError, SyntaxError):
        cache[path] = res
        return res

    def lit(node):
        if isinstance(node, ast.Constant) and isinstance(node.value, int) and not isinstance(node.value, bool):
            return node.value
        if isinstance(node, ast.UnaryOp) and isinstance(node.op, ast.USub):
            v = lit(node.operand)
            return None if v is None else -v
        return None

    def walk(body, prefix):
        for node in body:
            if isinstance(node, ast.ClassDef):
                q = prefix + node.name
                items = []
                for st in node.body:
                    if isinstance(st, ast.Assign) and len(st.targets) == 1 and isinstance(st.targets[0], ast.Name):
                        items.append((st.targets[0].id, lit(st.value)))
                res[q] = (items, bool(node.decorator_list))
                walk(node.body, q + '.')
            elif isinstance(node, (ast.FunctionDef, ast.AsyncFunctionDef)):
                walk(node.body, prefix + node.name + '.<locals>.')
            elif isinstance(node, (ast.If, ast.Try, ast.With)):
                walk(getattr(node, 'body', []), prefix)
    walk(tree.body, '')
    cache[path] = res
    return res


def _wire_bits(repo):
    """enum class name -> bits, from AutoEnum(...) calls in the package, then from the C++ headers."""
    bits = {}
    cxx = {}
    for h in sorted(glob.glob(os.path.join(repo, 'src', 'point_one', 'fusion_engine', 'messages', '*.h'))):
        for m in re.finditer(r'enum\s+class\s+(\w+)\s*:\s*u?int(\d+)_t', open(h).read()):
            cxx.setdefault(m.group(1), int(m.group(2)))
    for root, _, files in os.walk(os.path.join(repo, 'python', 'fusion_engine_client')):
        for f in files:
            if not f.endswith('.py'):
                continue
            try:
                tree = ast.parse(open(os.path.join(root, f)).read())
            except SyntaxError:
                continue
            for node in ast.walk(tree):
                if isinstance(node, ast.Call) and isinstance(node.func, ast.Name) and node.func.id == 'AutoEnum' \
                        and len(node.args) >= 2 and isinstance(node.args[0], ast.Name) and isinstance(node.args[1], ast.Name):
                    m = re.match(r'Int(\d+)[us][lbn]$', node.args[0].id)
                    if m:
                        b = int(m.group(1))
                        bits[node.args[1].id] = max(bits.get(node.args[1].id, 0), b)
    for k, v in cxx.items():
        bits.setdefault(k, v)
    return bits


def split_aliases(defn):
    """Names vs members of a class body [(name, value)]: (members, aliases) where members = the first name of every distinct
    value, in declaration order, as (name, value), and aliases = every later name of a value already defined, as
    (alias name, name of the member it stands for).  len(E) counts members, not names."""
    first = {}
    members, aliases = [], []
    for n, v in defn:
        if v in first:
            aliases.append((n, first[v]))
        else:
            first[v] = n
            members.append((n, v))
    return members, aliases


def extract(repo):
    """Returns {'enums': [...], 'masks': [...], 'skipped': [...], 'import_failures': [...]} from the imported package.
    Must be called before any lenient conversion happened in this process."""
    import fusion_engine_client
    from fusion_engine_client.utils.enum_utils import IntEnum
    failures = []
    for m in pkgutil.walk_packages(fusion_engine_client.__path__, 'fusion_engine_client.'):
        try:
            importlib.import_module(m.name)
        except BaseException as e:  # optional dependencies of applications
            failures.append('%s: %s' % (m.name, type(e).__name__))
    bits = _wire_bits(repo)
    classes = {}
    skipped = []
    for c in _subclasses(IntEnum):
        if not c.__module__.startswith('fusion_engine_client.'):
            continue
        if not c.__members__:
            skipped.append(c.__module__ + '.' + c.__qualname__)   # the member-less `Dummy` helper of enum_bitmask
            continue
        classes[c.__module__ + '.' + c.__qualname__] = c
    enums, masks = [], []
    for q in sorted(classes):
        c = classes[q]
        defn = [(n, int(m.value)) for n, m in c.__members__.items()]
        for n, v in defn:
            if not n.isascii() or re.search(r'[\s;,=@]', n):
                raise ExtractError('%s: member name %r cannot travel on the line protocol' % (q, n))
        is_mask = hasattr(c, '_enum_offset') and hasattr(c, '_enum_values')
        # the model of extend_enum only looks at _member_map_: no other attribute may carry the hidden prefix
        others = sorted(a for b in c.mro() for a in b.__dict__ if a.startswith(HIDDEN_PREFIX) and a not in c.__members__)
        if others:
            raise ExtractError('%s: non-member attribute(s) %s start with the hidden prefix' % (q, others))
        # AST cross-check
        try:
            path = inspect.getsourcefile(sys.modules[c.__module__])
        except (TypeError, KeyError):
            path = None
        ast_items, decorated = _ast_bodies(path).get(c.__qualname__, (None, False)) if path else (None, False)
        if ast_items is None:
            raise ExtractError('%s: class body not found in %s' % (q, path))
        src = [(n, v) for n, v in ast_items if not (n.startswith('_') and n.endswith('_'))]
        if not is_mask:
            if [n for n, _ in src] != [n for n, _ in defn]:
                raise ExtractError('%s: source names %s != interpreter names %s' % (q, [n for n, _ in src], [n for n, _ in defn]))
            for (n, lv), (_, v) in zip(src, defn):
                if lv is not None and lv != v:
                    raise ExtractError('%s.%s: source literal %s != interpreter value %s' % (q, n, lv, v))
        else:
            for n, lv in src:
                if (n, lv) not in defn and lv is not None:
                    raise ExtractError('%s.%s: source literal %s not among the interpreter members' % (q, n, lv))
        members, aliases = split_aliases(defn)
        # the interpreter's own reading of the same thing: an alias name maps to the member object of the first name
        for n, first in aliases:
            if c.__members__[n] is not c.__members__[first] or c.__members__[n].name != first:
                raise ExtractError('%s.%s: not an alias of %s in the interpreter\'s table' % (q, n, first))
        enums.append({'qualname': q, 'short': c.__qualname__, 'bits': bits.get(c.__name__, 0), 'defn': defn, 'mask': is_mask,
                      'members': members, 'aliases': aliases})
        if is_mask:
            base = type(c._enum_values[0]) if c._enum_values else None
            masks.append({'qualname': q, 'offset': int(c._enum_offset),
                          'base': (base.__module__ + '.' + base.__qualname__) if base else None,
                          'enum_values': [(m.name, int(m)) for m in c._enum_values], 'attrs': defn})
    return {'enums': enums, 'masks': masks, 'skipped': sorted(skipped), 'import_failures': failures}


def resolve(qualname):
    """The class object for a qualname produced by extract()."""
    from fusion_engine_client.utils.enum_utils import IntEnum
    for c in _subclasses(IntEnum):
        if c.__module__ + '.' + c.__qualname__ == qualname and c.__members__:
            return c
    raise KeyError(qualname)


def _name(n):
    return '[' + ', '.join(str(ord(ch)) for ch in n) + ']'


def _int(v):
    return str(v) if v >= 0 else '(%d)' % v


def render(data):
    out = ['/- GENERATED by tools/c17_extract.py from the working tree of the repository - do not edit.',
           '   Every IntEnum subclass of fusion_engine_client with its members in definition order (names as code points),',
           '   the mask classes made by enum_bitmask, and the per-class facts the C17 theorems take as hypotheses,',
           '   re-decided by the kernel on every regeneration. -/',
           'import FeVerif.Model.DynEnum', '', 'namespace FeVerif.PyEnums', '']
    for i, e in enumerate(data['enums']):
        out.append('/-- %s -/' % e['qualname'])
        out.append('def e%d : PyEnum := ⟨"%s", %d, [' % (i, e['qualname'], e['bits']))
        rows = ['  (%s, %s)' % (_name(n), _int(v)) for n, v in e['defn']]
        for j, (r, (n, v)) in enumerate(zip(rows, e['defn'])):
            out.append(r + (',' if j + 1 < len(rows) else '') + '   -- %s = %d' % (n, v))
        out.append('  ]⟩')
        out.append('theorem e%d_ok : enumOk e%d.defn = true := by decide +kernel' % (i, i))
        members = e.get('members', split_aliases(e['defn'])[0])
        out.append('/-- %d names, %d members%s -/' % (len(e['defn']), len(members), ''.join(
            '; %s is an alias of %s' % a for a in e.get('aliases', split_aliases(e['defn'])[1]))))
        out.append('theorem e%d_members : membersAre e%d.defn [%s] = true := by decide +kernel' % (
            i, i, ', '.join('(%s, %s)' % (_name(n), _int(v)) for n, v in members)))
        out.append('')
    n = len(data['enums'])
    out.append('def all : List PyEnum := [' + ', '.join('e%d' % i for i in range(n)) + ']')
    out.append('')
    out.append('theorem all_ok : ∀ e ∈ all, enumOk e.defn = true :=')
    out.append('  ' + ''.join('List.forall_mem_cons.2 ⟨e%d_ok, ' % i for i in range(n)) + 'fun _ h => nomatch h' + '⟩' * n)
    out.append('')
    for i, m in enumerate(data['masks']):
        out.append('/-- %s : enum_bitmask(%s, offset=%d) -/' % (m['qualname'], m['base'], m['offset']))
        out.append('def m%d : PyMask := ⟨"%s", %s,' % (i, m['qualname'], _int(m['offset'])))
        out.append('  [' + ', '.join('⟨%s, %s⟩' % (_name(nm), _int(v)) for nm, v in m['enum_values']) + '],')
        out.append('  [' + ', '.join('(%s, %s)' % (_name(nm), _int(v)) for nm, v in m['attrs']) + ']⟩')
        out.append('theorem m%d_ok : maskOk m%d = true := by decide +kernel' % (i, i))
        out.append('')
    k = len(data['masks'])
    out.append('def masks : List PyMask := [' + ', '.join('m%d' % i for i in range(k)) + ']')
    out.append('')
    out.append('theorem masks_ok : ∀ m ∈ masks, maskOk m = true :=')
    out.append('  ' + ''.join('List.forall_mem_cons.2 ⟨m%d_ok, ' % i for i in range(k)) + 'fun _ h => nomatch h' + '⟩' * k)
    out.append('')
    out.append('end FeVerif.PyEnums')
    return '\n'.join(out) + '\n'


def write_if_changed(path, text):
    os.makedirs(os.path.dirname(path), exist_ok=True)
    old = open(path).read() if os.path.exists(path) else None
    if old == text:
        return False
    tmp = path + '.tmp%d' % os.getpid()
    with open(tmp, 'w') as f:
        f.write(text)
    os.replace(tmp, path)
    return True


if __name__ == '__main__':
    repo = os.environ.get('FE_REPO', '/repo')
    lean = os.environ.get('FE_LEAN', os.path.join(os.path.dirname(os.path.dirname(os.path.abspath(__file__))), 'lean'))
    d = extract(repo)
    p = os.path.join(lean, 'FeVerif', 'Generated', 'PyEnums.lean')
    print('%s: %d enums, %d masks, %s' % (p, len(d['enums']), len(d['masks']),
                                          'rewritten' if write_if_changed(p, render(d)) else 'unchanged'))
