"""Canonical, comparable form of message objects (floats by bit pattern, NaN == NaN, enums as ints)."""
import enum
import struct

import numpy as np


def canon(o, depth=0):
    if depth > 12:
        return '<deep>'
    if o is None or isinstance(o, (bool, str)):
        return o
    if isinstance(o, enum.Enum):
        return ('enum', type(o).__name__, int(o.value) if isinstance(o.value, (int, np.integer)) else str(o.value))
    if isinstance(o, (int, np.integer)):
        return int(o)
    if isinstance(o, (float, np.floating)):
        f = float(o)
        if f != f:
            return ('f', 'nan')
        return ('f', struct.pack('<d', f).hex())
    if isinstance(o, (bytes, bytearray, memoryview)):
        return ('b', bytes(o).hex())
    if isinstance(o, np.ndarray):
        return ('arr', str(o.dtype), list(o.shape), [canon(x, depth + 1) for x in o.flatten().tolist()])
    if isinstance(o, (list, tuple)):
        return [canon(x, depth + 1) for x in o]
    if isinstance(o, (set, frozenset)):
        return ('set', sorted(repr(canon(x, depth + 1)) for x in o))
    if isinstance(o, dict):
        return ('dict', sorted((repr(canon(k, depth + 1)), canon(v, depth + 1)) for k, v in o.items()
                               if not (isinstance(k, str) and k.startswith('_io'))))
    if hasattr(o, '__dict__'):
        return (type(o).__name__, sorted((k, canon(v, depth + 1)) for k, v in vars(o).items()
                                         if not k.startswith('__')))
    if hasattr(o, '__slots__'):
        return (type(o).__name__, sorted((k, canon(getattr(o, k), depth + 1)) for k in o.__slots__ if hasattr(o, k)))
    return ('repr', repr(o))
