"""Shared machinery for the per-property checks (see DESIGN.md section 2).

Stages of one check:
  A translate   (property module: regenerate Lean tables from /repo)
  B prove       (lake build of the property's theorem module, axiom audit, forbidden-token grep)
  C correspond  (implementation vs executable Lean model on the same inputs)
  D conform     (Lean spec as oracle against the implementation)
  E search      (only after a failure in A-C: look for a concrete failing input)
Exit codes: 0 held, 1 violation (VIOLATION line printed), 2 infrastructure error.
"""
import fcntl
import hashlib
import json
import os
import random
import re
import subprocess
import sys
import time

VERIF = os.path.dirname(os.path.dirname(os.path.abspath(__file__)))
REPO = os.environ.get('FE_REPO', '/repo')
LEAN = os.environ.get('FE_LEAN', os.path.join(VERIF, 'lean'))
BUILD = os.environ.get('FE_BUILD', os.path.join(VERIF, 'build'))
REPLAYS = os.path.join(VERIF, 'replays')
EVIDENCE = os.environ.get('FE_EVIDENCE', os.path.join(VERIF, 'evidence'))
ALLOWED_AXIOMS = {'propext', 'Classical.choice', 'Quot.sound'}
FORBIDDEN = re.compile(r'\b(sorry|admit|native_decide|bv_decide|implemented_by|unsafe)\b|^\s*axiom\s|maxHeartbeats\s+0')

for d in (BUILD, REPLAYS, EVIDENCE):
    os.makedirs(d, exist_ok=True)


class InfraError(Exception):
    pass


def require_repo_package():
    """The pinned baseline imports the site-packages copy; every harness must use the working tree."""
    import fusion_engine_client
    f = os.path.realpath(fusion_engine_client.__file__)
    if not f.startswith(os.path.realpath(REPO) + os.sep):
        raise InfraError('fusion_engine_client imported from %s, not from %s' % (f, REPO))


def sh(cmd, cwd=None, timeout=None, env=None, input=None):
    p = subprocess.run(cmd, cwd=cwd, stdout=subprocess.PIPE, stderr=subprocess.STDOUT, timeout=timeout,
                       env=env, input=input, text=True)
    return p.returncode, p.stdout


class LeanLock:
    def __enter__(self):
        self.f = open(os.path.join(BUILD, '.lock'), 'w')
        fcntl.flock(self.f, fcntl.LOCK_EX)
        return self

    def __exit__(self, *a):
        fcntl.flock(self.f, fcntl.LOCK_UN)
        self.f.close()


def strip_comments(src):
    # remove /- ... -/ (nested) and -- ... comments
    out = []
    i = 0
    depth = 0
    n = len(src)
    while i < n:
        if src.startswith('/-', i):
            depth += 1
            i += 2
        elif depth and src.startswith('-/', i):
            depth -= 1
            i += 2
        elif depth:
            if src[i] == '\n':
                out.append('\n')
            i += 1
        elif src.startswith('--', i):
            while i < n and src[i] != '\n':
                i += 1
        else:
            out.append(src[i])
            i += 1
    return ''.join(out)


def lean_sources():
    res = []
    for root, dirs, files in os.walk(LEAN):
        dirs[:] = [d for d in dirs if d != '.lake']
        for f in files:
            if f.endswith('.lean'):
                res.append(os.path.join(root, f))
    return sorted(res)


def forbidden_tokens():
    hits = []
    for f in lean_sources():
        body = strip_comments(open(f).read())
        for ln, line in enumerate(body.split('\n'), 1):
            if FORBIDDEN.search(line):
                hits.append('%s:%d: %s' % (os.path.relpath(f, VERIF), ln, line.strip()))
    return hits


def theorem_names(module):
    """Names of the theorems stated in a Props module (the obligations of that property)."""
    path = os.path.join(LEAN, *module.split('.')) + '.lean'
    body = strip_comments(open(path).read())
    return re.findall(r'^theorem\s+([A-Za-z0-9_\.]+)', body, re.M)


class Ctx:
    def __init__(self, prop, tier, seed):
        self.prop = prop
        self.tier = tier
        self.seed = seed
        self.t0 = time.time()
        self.rng = random.Random(seed * 1000003 + int(prop[1:]))
        self.cov = {'evaluations': 0, 'distinct_nontrivial': 0, 'rule': '', 'samples': [],
                    'traces_validated_against_impl': 0, 'obligations': 0, 'discharged': 0,
                    'checker_cmd': '', 'trusted_base': [], 'input_distribution': {}, 'theorems': []}
        self.assumptions = []
        self.violations = []       # (sig, description, replay object)   -- property fails on the implementation
        self.disagreements = []    # (what, replay object)               -- implementation != model
        self.proof_failures = []   # names / messages                    -- a proof obligation no longer checks
        self.notes = []
        self._distinct = set()
        self.thorough = (tier == 'thorough')

    # ---- counters -------------------------------------------------------------------------------
    def count(self, key, n=1):
        d = self.cov['input_distribution']
        d[key] = d.get(key, 0) + n

    def case(self, canon, nontrivial=True):
        """Register one explored case; `canon` is its canonical text form."""
        self.cov['evaluations'] += 1
        if nontrivial:
            h = hashlib.sha1(canon.encode() if isinstance(canon, str) else canon).digest()[:10]
            if h not in self._distinct:
                self._distinct.add(h)
                self.cov['distinct_nontrivial'] += 1

    def sample(self, obj, limit=6):
        if len(self.cov['samples']) < limit:
            self.cov['samples'].append(obj)

    def violation(self, sig, desc, replay):
        self.violations.append((sig, desc, replay))

    def disagree(self, what, replay):
        self.disagreements.append((what, replay))

    def elapsed(self):
        return time.time() - self.t0

    # ---- stage B --------------------------------------------------------------------------------
    def prove(self, modules, extra_targets=('fedriver',)):
        """Build the theorem modules and the driver, audit axioms. Records failures in proof_failures."""
        names = []
        for m in modules:
            names += [(m, n) for n in theorem_names(m)]
        self.cov['obligations'] = len(names)
        self.cov['checker_cmd'] = 'cd lean && lake build ' + ' '.join(list(modules) + list(extra_targets)) + \
            ' && lake env lean <audit file with #print axioms for each theorem>'
        self.cov['trusted_base'] = [
            'Lean 4 kernel (4.33.0)', 'axioms: propext, Classical.choice, Quot.sound (audited per theorem)',
            'correspondence harness tools/props/%s.py (ties the hand-written model to /repo)' % self.prop.lower()]
        with LeanLock():
            rc, out = sh(['lake', 'build'] + list(modules) + list(extra_targets), cwd=LEAN, timeout=3000)
            if rc != 0:
                errs = re.findall(r'^error: (.*)$', out, re.M)
                self.proof_failures.append('lake build failed: ' + '; '.join(errs[:8]))
                self.notes.append(out[-4000:])
                # which theorems still check?  try the audit anyway on what was built
            bad = forbidden_tokens()
            if bad:
                self.proof_failures.append('forbidden tokens: ' + '; '.join(bad[:5]))
            if rc == 0:
                audit = os.path.join(BUILD, 'Audit_%s.lean' % self.prop)
                with open(audit, 'w') as f:
                    for m in modules:
                        f.write('import %s\n' % m)
                    f.write('open FeVerif\n')
                    for m, n in names:
                        f.write('#print axioms %s\n' % n)
                rc2, out2 = sh(['lake', 'env', 'lean', audit], cwd=LEAN, timeout=1200)
                ok = 0
                seen = {}
                for mm in re.finditer(r"'([^']+)' (does not depend on any axioms|depends on axioms: \[([^\]]*)\])", out2):
                    nm = mm.group(1).split('.')[-1]
                    axs = set(a.strip() for a in (mm.group(3) or '').replace('\n', ' ').split(',') if a.strip())
                    seen[nm] = axs
                for m, n in names:
                    key = n.split('.')[-1]
                    if key not in seen:
                        self.proof_failures.append('audit: no axiom report for ' + n)
                    elif not seen[key] <= ALLOWED_AXIOMS:
                        self.proof_failures.append('audit: %s uses %s' % (n, sorted(seen[key] - ALLOWED_AXIOMS)))
                    else:
                        ok += 1
                self.cov['discharged'] = ok
                self.cov['theorems'] = [n for _, n in names]
                if rc2 != 0 and not self.proof_failures:
                    self.proof_failures.append('audit run failed: ' + out2[-500:])
            if self.thorough and rc == 0:
                rc3, out3 = sh(['lake', 'env', 'leanchecker'] + list(modules), cwd=LEAN, timeout=3000)
                self.cov['leanchecker'] = 'ok' if rc3 == 0 else 'FAILED: ' + out3[-300:]
                if rc3 != 0:
                    self.proof_failures.append('leanchecker rejected the compiled modules')
        return not self.proof_failures

    # ---- driver ---------------------------------------------------------------------------------
    def driver(self, lines):
        """Run the compiled Lean driver on request lines; returns the list of answer lines."""
        exe = os.path.join(LEAN, '.lake', 'build', 'bin', 'fedriver')
        if not os.path.exists(exe):
            raise InfraError('driver not built')
        if not lines:
            return []
        # split across processes for speed
        nproc = min(16, max(1, len(lines) // 200))
        chunks = [lines[i::nproc] for i in range(nproc)]
        procs = []
        for ch in chunks:
            p = subprocess.Popen([exe], stdin=subprocess.PIPE, stdout=subprocess.PIPE, text=True)
            procs.append(p)
        outs = []
        import threading
        results = [None] * nproc

        def work(i):
            o, _ = procs[i].communicate('\n'.join(chunks[i]) + '\n')
            results[i] = o.split('\n')[:-1] if o.endswith('\n') else o.split('\n')
        ths = [threading.Thread(target=work, args=(i,)) for i in range(nproc)]
        for t in ths:
            t.start()
        for t in ths:
            t.join()
        out = [None] * len(lines)
        for i in range(nproc):
            if len(results[i]) != len(chunks[i]):
                raise InfraError('driver returned %d lines for %d requests' % (len(results[i]), len(chunks[i])))
            out[i::nproc] = results[i]
        return out


# ---- known findings ---------------------------------------------------------------------------------
def known_findings(prop):
    path = os.path.join(VERIF, 'KNOWN_FINDINGS.txt')
    res = {}
    if os.path.exists(path):
        for line in open(path):
            line = line.strip()
            m = re.match(r'open:\s+property=(\S+)\s+sig=(\S+)\s+(.*)$', line)
            if m and m.group(1) == prop:
                res[m.group(2)] = m.group(3)
    return res


def write_replay(prop, tag, obj):
    name = '%s-%s.json' % (prop, hashlib.sha1(tag.encode()).hexdigest()[:12])
    path = os.path.join(REPLAYS, name)
    with open(path, 'w') as f:
        json.dump(obj, f, indent=1, default=str)
    return os.path.relpath(path, VERIF)


def finish(ctx, level='proof', search=None):
    """Classify, print, write evidence, return the exit code."""
    known = known_findings(ctx.prop)
    new = []
    printed_known = set()
    for sig, desc, replay in ctx.violations:
        if sig in known:
            if sig not in printed_known:
                print('KNOWN-FINDING: property=%s %s [%s]' % (ctx.prop, known[sig], sig))
                printed_known.add(sig)
        else:
            new.append((sig, desc, replay))
    # Stage E: a proof obligation or the correspondence broke but the oracle saw nothing yet.
    if not new and (ctx.proof_failures or ctx.disagreements) and search is not None:
        before = len(ctx.violations)
        try:
            search(ctx)
        except InfraError:
            raise
        for sig, desc, replay in ctx.violations[before:]:
            if sig not in known:
                new.append((sig, desc, replay))
    code = 0
    seen = set()
    for sig, desc, replay in new:
        if sig in seen:
            continue
        seen.add(sig)
        path = write_replay(ctx.prop, sig, {'property': ctx.prop, 'signature': sig, 'what': desc, 'input': replay,
                                            'proof_failures': ctx.proof_failures,
                                            'disagreements': [w for w, _ in ctx.disagreements[:5]]})
        print('%s: %s' % (sig, desc))
        print('VIOLATION property=%s replay=%s' % (ctx.prop, path))
        code = 1
    if code == 0 and (ctx.proof_failures or ctx.disagreements):
        obj = {'property': ctx.prop, 'no_failing_input_found': True,
               'proof_obligations_that_no_longer_check': ctx.proof_failures,
               'correspondence_failures': [{'what': w, 'input': r} for w, r in ctx.disagreements[:20]],
               'notes': ctx.notes[:3]}
        path = write_replay(ctx.prop, 'nofail', obj)
        for pf in ctx.proof_failures[:5]:
            print('proof obligation no longer checks: ' + pf)
        for w, _ in ctx.disagreements[:5]:
            print('correspondence failure: ' + w)
        print('VIOLATION property=%s replay=%s no-failing-input-found' % (ctx.prop, path))
        code = 1
    cov = ctx.cov
    if level != 'proof':
        pass
    cov['correspondence_disagreements'] = len(ctx.disagreements)
    cov['known_findings_reproduced'] = sorted(printed_known)
    ev = {'property_id': ctx.prop, 'tier': ctx.tier, 'seed': ctx.seed, 'level': level, 'coverage': cov,
          'assumptions': ctx.assumptions, 'wall_s': round(ctx.elapsed(), 2), 'violations': len(seen) if code else 0}
    with open(os.path.join(EVIDENCE, ctx.prop + '.json'), 'w') as f:
        json.dump(ev, f, indent=1, default=str)
    return code


def corpus(prop):
    """Regression corpus: inputs of past failures (tools/corpus/<prop>/*.json), run first by the checks that support it."""
    res = []
    d = os.path.join(VERIF, 'tools', 'corpus', prop)
    if os.path.isdir(d):
        for f in sorted(os.listdir(d)):
            if f.endswith('.json'):
                try:
                    obj = json.load(open(os.path.join(d, f)))
                    res.append(obj.get('input', obj))
                except Exception:
                    pass
    return res


def hexs(b):
    return bytes(b).hex()
