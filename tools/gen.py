"""Generators of byte streams / files for the framing properties (C04, C05, C07, C08, C09, C10, C18).

Everything derives from the `random.Random` handed in.  Messages are framed by this module's own packer
(struct + zlib.crc32), not by the repository's encoder, so that the inputs do not move when the encoder is
edited; payload bytes of "valid message of class K" tokens come from the repository's classes.
"""
import struct
import zlib

SYNC = b'\x2e\x31'


def frame(msg_type, payload, seq=0, source=0, version=0, reserved=0, proto=2, crc=None):
    body = struct.pack('<BBHIII', proto, version, msg_type, seq, len(payload), source) + payload
    c = zlib.crc32(body) if crc is None else crc
    return SYNC + struct.pack('<HI', reserved, c) + body


_payload_cache = None


def class_payloads():
    """(type int, class name, payload bytes) for every registered class whose default object packs."""
    global _payload_cache
    if _payload_cache is None:
        from fusion_engine_client.messages import message_type_to_class
        res = []
        for t, c in sorted(message_type_to_class.items(), key=lambda x: int(x[0])):
            try:
                b = bytes(c().pack())
                res.append((int(t), c.__name__, b, int(c.get_version()) if hasattr(c, 'get_version') else 0))
            except Exception:
                pass
        _payload_cache = res
    return _payload_cache


TOKENS = 'VUWCTSFHRJDZNG'


def token(rng, kind, seqs):
    """Returns bytes for one token. seqs: dict with running sequence number."""
    seq = seqs['n']
    seqs['n'] = (seq + 1) & 0xFFFFFFFF
    src = rng.choice([0, 0, 1, 7])
    if kind == 'V':
        t, _, p, v = rng.choice(class_payloads())
        return frame(t, p, seq, src, v)
    if kind == 'U':   # unknown type
        return frame(rng.choice([9, 2999, 20001, 65000]), bytes(rng.randrange(256) for _ in range(rng.choice([0, 1, 4, 17, 40]))), seq, src)
    if kind == 'W':   # wrapper message with a complete valid message nested in its payload
        inner = token(rng, rng.choice('VUZ'), seqs)
        # InputDataWrapperMessage: 5-byte system time, 1 reserved?  layout does not matter for framing
        return frame(13120, bytes(8) + inner, seq, src)
    if kind == 'G':   # length-inferred payload (greedy bytes) classes
        t = rng.choice([13120, 14102])
        n = rng.choice([0, 1, 3, 20])
        return frame(t, bytes(8 if t == 13120 else 4) + bytes(rng.randrange(256) for _ in range(n)), seq, src)
    if kind == 'C':   # one corrupted byte somewhere after the sync
        m = bytearray(token(rng, rng.choice('VUZ'), seqs))
        i = rng.randrange(2, len(m))
        m[i] ^= 1 << rng.randrange(8)
        return bytes(m)
    if kind == 'T':   # truncated message
        m = token(rng, rng.choice('VU'), seqs)
        return m[:rng.randrange(2, len(m))]
    if kind == 'S':
        return SYNC
    if kind == 'F':   # false header, plausible length
        return SYNC + struct.pack('<HIBBHIII', 0, rng.getrandbits(32), 2, 0, rng.choice([10000, 13120, 9]),
                                  rng.getrandbits(32), rng.choice([0, 1, 5, 30, 60]), 0)
    if kind == 'H':   # false header, huge length
        return SYNC + struct.pack('<HIBBHIII', 0, rng.getrandbits(32), 2, 0, 10000, 0,
                                  rng.choice([1 << 24, (1 << 24) + 1, 0xFFFFFFFF, 0xFFFFFFE8, 100000]), 0)
    if kind == 'R':   # false header, reserved bytes non-zero
        return SYNC + struct.pack('<HIBBHIII', rng.choice([1, 256, 0x312e]), 0, 2, 0, 10000, 0, 4, 0)
    if kind == 'J':
        return bytes(rng.randrange(256) for _ in range(rng.choice([1, 2, 3, 7, 23, 24, 25, 30])))
    if kind == 'D':   # duplicated first sync byte directly before a message
        return b'\x2e' + token(rng, 'V', seqs)
    if kind == 'Z':   # zero-length payload
        return frame(rng.choice([13005, 9]), b'', seq, src)
    if kind == 'N':   # message whose payload does not deserialise (known type, wrong length / junk)
        t, _, p, v = rng.choice(class_payloads())
        return frame(t, bytes(rng.randrange(256) for _ in range(rng.choice([1, 3, max(1, len(p) - 1)]))), seq, src, v)
    if kind in 'LKM':   # LARGE messages (1-5 kB): valid / failing the CRC / a false header announcing that much, fully present
        n = rng.choice([1000, 1023, 1024, 1025, 2047, 2048, 2049, 3000, 4100])
        t = rng.choice([13120, 14102, 2999, 9])
        body = bytes(rng.randrange(256) for _ in range(n))
        if kind == 'L':
            return frame(t, body, seq, src)
        if kind == 'K':
            m = bytearray(frame(t, body, seq, src))
            i = rng.choice([4, 5, 6, 7, 24, len(m) - 1, rng.randrange(8, len(m))])     # CRC field or a protected byte
            m[i] ^= 1 << rng.randrange(8)
            return bytes(m)
        return SYNC + struct.pack('<HIBBHIII', 0, rng.getrandbits(32), 2, 0, rng.choice([10000, 13120, 9]),
                                  rng.getrandbits(32), n, 0) + body[:n]
    raise ValueError(kind)


def stream(rng, ntokens, alphabet=TOKENS):
    seqs = {'n': rng.choice([0, 5, 0xFFFFFFFE])}
    kinds = [rng.choice(alphabet) for _ in range(ntokens)]
    parts = [token(rng, k, seqs) for k in kinds]
    return b''.join(parts), ''.join(kinds)


def chunkings(rng, data, thorough=False):
    """A few ways to split `data` into successive calls (including empty chunks)."""
    n = len(data)
    res = [[data], [data[i:i + 1] for i in range(n)]]
    for _ in range(3 if thorough else 1):
        cuts = sorted(rng.randrange(n + 1) for _ in range(rng.choice([1, 2, 5]))) if n else []
        parts = []
        prev = 0
        for c in cuts + [n]:
            parts.append(data[prev:c])
            prev = c
        res.append(parts)
    # chunk boundaries at 23/24/25 bytes: header boundary
    res.append([data[i:i + 24] for i in range(0, n, 24)])
    res.append([data[i:i + 7] for i in range(0, n, 7)])
    return res


# ---- files for the indexer / reader properties (C08, C09, C10, C11, C18) -----------------------------------

def small_payload_classes(maxlen):
    return [x for x in class_payloads() if len(x[2]) + 24 <= maxlen]


def file_token(rng, kind, seqs, maxmsg):
    """One token of a mixed-content file, every real message <= maxmsg bytes."""
    seq = seqs['n']
    seqs['n'] = (seq + 1) & 0xFFFFFFFF
    src = rng.choice([0, 0, 1])
    small = small_payload_classes(maxmsg)
    if kind == 'V' and small:
        t, _, p, v = rng.choice(small)
        return frame(t, p, seq, src, v)
    if kind in 'VU':
        n = rng.choice([0, 1, 4, 9, max(0, min(40, maxmsg - 24))])
        return frame(rng.choice([9, 2999, 20001]), bytes(rng.randrange(256) for _ in range(n)), seq, src)
    if kind == 'W':   # wrapper with nested complete message(s)
        inner = frame(rng.choice([9, 13005]), bytes(rng.randrange(256) for _ in range(rng.choice([0, 2]))), seq, src)
        pad = bytes(rng.randrange(256) for _ in range(rng.choice([0, 1, 3])))
        if 24 + len(pad) + len(inner) > maxmsg:
            return frame(9, b'', seq, src)
        return frame(13120, pad + inner, seq, src)
    if kind == 'N':   # known class, payload shorter than the class expects (CRC-valid, does not deserialise)
        cands = [x for x in class_payloads() if 8 < len(x[2]) and len(x[2]) + 24 <= maxmsg + 8]
        if cands:
            t, _, p, v = rng.choice(cands)
            return frame(t, p[:len(p) - rng.choice([1, 4, 8])], seq, src, v)
        kind = 'U'
        return file_token(rng, 'U', seqs, maxmsg)
    if kind == 'C':
        m = bytearray(file_token(rng, 'U', seqs, maxmsg))
        i = rng.randrange(2, len(m))
        m[i] ^= 1 << rng.randrange(8)
        return bytes(m)
    if kind == 'T':
        m = file_token(rng, 'U', seqs, maxmsg)
        return m[:rng.randrange(2, len(m))]
    if kind == 'S':
        return rng.choice([SYNC, b'\x2e', b'\x31\x2e', SYNC + SYNC])
    if kind == 'F':
        return SYNC + struct.pack('<HIBBHIII', rng.choice([0, 7]), rng.getrandbits(32), 2, 0, 9, 0,
                                  rng.choice([0, 1, 5, 30, maxmsg, 1 << 24, (1 << 24) + 1, 0xFFFFFFFF]), 0)
    if kind == 'J':
        return bytes(rng.randrange(256) for _ in range(rng.choice([1, 2, 3, 7, 23, 24, 25, 30])))
    if kind == 'Q':   # truncated message whose CRC field is the CRC of the truncated bytes (only meaningful at EOF)
        m = bytearray(file_token(rng, 'U', seqs, maxmsg))
        if len(m) <= 25:
            m = bytearray(frame(9, bytes(5), seq, src))
        cut = rng.randrange(25, len(m))
        t = m[:cut]
        struct.pack_into('<I', t, 4, zlib.crc32(bytes(t[8:])))
        return bytes(t)
    if kind == 'X':   # wrapper W; inside its payload a header H that with the two following real messages is CRC-valid
        a = frame(9, bytes(rng.randrange(256) for _ in range(2)), seq, src)
        b = frame(2999, b'', seq + 1, src)
        hbody = struct.pack('<BBHIII', 2, 0, 9, 0, len(a) + len(b), 0)
        h = SYNC + struct.pack('<HI', 0, zlib.crc32(hbody + a + b)) + hbody
        pad = bytes(rng.randrange(256) for _ in range(rng.choice([0, 8, 30])))
        w = frame(13120, pad + h, seq, src)
        return w + a + b
    raise ValueError(kind)


def small_file(rng, ntokens, maxmsg, alphabet='VVUUWCTSFJN', pad=0):
    seqs = {'n': 0}
    parts = []
    kinds = []
    for _ in range(ntokens):
        k = rng.choice(alphabet)
        kinds.append(k)
        parts.append(file_token(rng, k, seqs, maxmsg))
        if pad and rng.random() < 0.5:
            parts.append(bytes(rng.randrange(256) for _ in range(rng.randrange(pad))))
    return b''.join(parts), ''.join(kinds)
