#!/usr/bin/env python3
"""Evaluate a behaviour-PRESERVING change: confirm it (tests still pass, its demonstration passes with and without it), run
the checks of every property anchored in the touched files against it in a scratch worktree (they must stay quiet: exit 0,
no VIOLATION line), and file it under /verif/seeded/harmless/<name>/.

usage: harmless_eval.py <PROP> <patch.diff> <demo file> --name H-C04-1 [--all]
"""
import argparse
import glob
import json
import os
import re
import shutil
import subprocess
import sys
import tempfile
import time

VERIF = os.path.dirname(os.path.dirname(os.path.abspath(__file__)))
sys.path.insert(0, os.path.join(VERIF, 'tools'))
from seeded_eval import sh, demo_cmd      # noqa: E402


def anchored(files):
    import fnmatch
    props = set()
    for l in open(os.path.join(VERIF, 'properties.jsonl')):
        d = json.loads(l)
        for a in d['anchors']['files']:
            a = a.split(' (')[0]
            for f in files:
                if f == a or fnmatch.fnmatch(f, a):
                    props.add(d['id'])
    return props


def main():
    ap = argparse.ArgumentParser()
    ap.add_argument('prop')
    ap.add_argument('patch')
    ap.add_argument('demo')
    ap.add_argument('--name', required=True)
    ap.add_argument('--all', action='store_true')
    ap.add_argument('--demo-cmd', default='')
    ap.add_argument('--props', default='')
    ap.add_argument('--exclude', default='')
    ap.add_argument('--isolate', action='store_true', help='run the check on a private copy of lean/ and build/ (parallel-safe)')
    a = ap.parse_args()
    files = re.findall(r'^\+\+\+ b/(\S+)', open(a.patch).read(), re.M)
    props = sorted(anchored(files) | {a.prop}) if not a.all else ['C%02d' % i for i in range(1, 21)]
    if a.props:
        props = a.props.split(',')
    props = [p for p in props if p not in a.exclude.split(',')]
    wt = tempfile.mkdtemp(prefix='harmless_wt_')
    os.rmdir(wt)
    rc, out = sh('git -C /repo worktree add -q --detach %s HEAD' % wt)
    assert rc == 0, out
    env = {}
    iso = None
    meta = {'kind': 'behaviour-preserving change', 'written_for': a.prop, 'touches': files, 'checks_run': props, 'ran': []}
    try:
        dcmd = demo_cmd(os.path.abspath(a.demo), wt, a.demo_cmd)
        rc0, o0 = sh(dcmd)
        if rc0 != 0 and a.demo.endswith('.py'):
            for alt in ('cd %s && PYTHONPATH=%s/python /venv/bin/python %s %s' % (wt, wt, os.path.abspath(a.demo), wt),
                        'cd %s && PYTHONPATH=%s/python /venv/bin/python %s %s' % (os.path.dirname(os.path.abspath(a.demo)), wt,
                                                                                  os.path.abspath(a.demo), wt)):
                rc0, o0 = sh(alt)
                if rc0 == 0:
                    dcmd = alt
                    break
        meta['ran'].append({'cmd': 'demo on unchanged tree', 'exit': rc0, 'tail': o0.strip()[-200:] if rc0 else ''})
        rc, out = sh('git -C %s apply %s' % (wt, os.path.abspath(a.patch)))
        if rc != 0:      # /repo has moved on since the change was written (later fix: commits): merge
            rc, out = sh('git -C %s apply -3 %s && git -C %s reset -q' % (wt, os.path.abspath(a.patch), wt))
            meta['ran'].append({'cmd': 'git apply -3 (the base of the change is older than /repo HEAD)', 'exit': rc})
        assert rc == 0, 'patch does not apply: ' + out
        rc1, o1 = sh('cd %s && PYTHONPATH=%s/python /venv/bin/python -m pytest -q -p no:cacheprovider python/tests 2>&1 | tail -1' % (wt, wt))
        meta['ran'].append({'cmd': 'pytest python/tests with the change', 'result': o1.strip()[-80:]})
        rc2, o2 = sh(dcmd)
        meta['ran'].append({'cmd': 'demo with the change', 'exit': rc2, 'tail': o2.strip()[-300:] if rc2 else ''})
        meta['confirmed_harmless_by_demo_and_tests'] = (rc0 == 0 and rc2 == 0 and '152 passed' in o1)
        env = dict(os.environ, FE_REPO=wt, FE_EVIDENCE=os.path.join(tempfile.gettempdir(), 'seeded_evidence'),
                   FE_BUILD=tempfile.mkdtemp(prefix='harmless_build_'))
        if a.isolate:
            iso = tempfile.mkdtemp(prefix='harmless_iso_')
            sh('cp -a %s %s/lean' % (os.path.join(VERIF, 'lean'), iso))
            env.update(FE_LEAN=iso + '/lean', FE_EVIDENCE=iso + '/evidence')
        os.makedirs(env['FE_EVIDENCE'], exist_ok=True)
        meta['checks'] = {}
        for p in props:
            t = time.time()
            rc3, o3 = sh('cd %s && ./check %s --tier quick' % (VERIF, p), env=env, timeout=3600)
            lines = [l for l in o3.split('\n') if 'VIOLATION' in l or l.startswith(p + '/') or 'no longer checks' in l
                     or 'correspondence failure' in l or 'KNOWN-FINDING' in l]
            meta['checks'][p] = {'exit': rc3, 'seconds': round(time.time() - t, 1), 'output': lines[:8]}
            if rc3 != 0:
                meta['checks'][p]['tail'] = o3.strip()[-1500:]
        meta['quiet'] = all(c['exit'] == 0 and not any('VIOLATION' in l for l in c['output']) for c in meta['checks'].values())
        print(json.dumps(meta, indent=1))
    finally:
        sh('git -C /repo worktree remove --force %s' % wt)
        shutil.rmtree(env.get('FE_BUILD', '/nonexistent'), ignore_errors=True)
        if a.isolate:
            shutil.rmtree(iso, ignore_errors=True)
        for p in ([] if a.isolate else props):     # translators rewrite lean/FeVerif/Generated/* from the tree they are pointed at: regenerate from /repo
            if glob.glob(os.path.join(VERIF, 'lean', 'FeVerif', 'Generated', p + '*')) or p in ('C01', 'C02', 'C03', 'C14', 'C16', 'C17'):
                sh('cd %s && ./check %s --tier quick' % (VERIF, p),
                   env=dict(os.environ, FE_EVIDENCE=os.path.join(tempfile.gettempdir(), 'seeded_evidence')), timeout=3600)
    d = os.path.join(VERIF, 'seeded', 'harmless', a.name)
    os.makedirs(d, exist_ok=True)
    for src, dst in ((a.patch, os.path.join(d, 'patch.diff')), (a.demo, os.path.join(d, os.path.basename(a.demo)))):
        if os.path.abspath(src) != os.path.abspath(dst):
            shutil.copy(src, dst)
    with open(os.path.join(d, 'meta.json'), 'w') as f:
        json.dump(meta, f, indent=1)
    print('filed under', d)
    return 0 if meta.get('quiet') else 1


if __name__ == '__main__':
    sys.exit(main())
