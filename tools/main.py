import argparse
import importlib
import logging
import os
import sys
import traceback

import fv


def main():
    ap = argparse.ArgumentParser()
    ap.add_argument('prop')
    ap.add_argument('--tier', default=os.environ.get('VERIF_TIER', 'quick'))
    ap.add_argument('--replay')
    a = ap.parse_args()
    seed = int(os.environ.get('VERIF_SEED', '0'))
    logging.disable(logging.CRITICAL)
    try:
        fv.require_repo_package()
        mod = importlib.import_module('props.' + a.prop.lower())
        ctx = fv.Ctx(a.prop, a.tier, seed)
        if a.replay:
            sys.exit(mod.replay(ctx, a.replay))
        code = mod.check(ctx)
        sys.exit(code)
    except fv.InfraError as e:
        print('INFRA-ERROR: %s' % e)
        sys.exit(2)
    except SystemExit:
        raise
    except BaseException:
        traceback.print_exc()
        sys.exit(2)


main()
