"""Writes MANIFEST.json from the table below (kept in one place so the file is always valid)."""
import json
import os

HERE = os.path.dirname(os.path.dirname(os.path.abspath(__file__)))

CHECKS = {
    'C04': dict(
        text='Lean 4 theorems (unbounded in stream length, chunk count and chunk sizes) that the model of '
             'FusionEngineDecoder.on_data returns exactly the messages of the left-to-right scan, conserves bytes and '
             'bounds its buffer; the model is tied to decoder.py on every run by comparing per-call results and internal '
             'state on generated streams, and the scan spec is run as oracle against the decoder.',
        ref='4 C04', technique='Lean 4 refinement proof (decoder loop -> scan spec) + model/implementation correspondence',
        note='Trusted: Lean kernel; axioms propext, Classical.choice, Quot.sound; the correspondence harness; zlib.crc32 = the '
             'bit-serial CRC-32 of Model/Crc32.lean (tested in C06). Payload deserialisation is outside the framing model '
             '(it cannot influence framing after the fix commits; checked by the oracle).'),
    'C05': dict(
        text='Lean 4 theorem that any two partitions of a stream give identical results and identical final decoder state '
             '(corollary of the C04 refinement and the append law of the scan), plus the delivery-time theorem; tied to the '
             'code as C04, with payload field values compared on the implementation across chunkings.',
        ref='4 C05', technique='Lean 4 proof of the append law of the scan + refinement; correspondence on chunkings',
        note='As C04. Decoded payload field values are compared implementation-vs-implementation (the model carries '
             'offsets, lengths and decoder state).'),
}

CHECKS['C08'] = dict(
    text='Lean 4 theorem C08_index_eq_scan: for every file, every even read size, every overlap >= 24 and every worker count the '
         'model of fast_generate_index (block allocation, per-block candidate search, block-local CRC validation, sequential pass) '
         'equals the sequential scan of the file, given that no acceptable message exceeds the overlap; corollaries: independence of '
         'workers and of blocking; every entry CRC-valid without any hypothesis. Model tied to fast_indexer.py by correspondence with '
         'rebound block constants and 1..16 workers; scan spec run as oracle.',
    ref='4 C08', technique='Lean 4 refinement proof (parallel block search + sequential pass -> sequential scan) + correspondence',
    note='Trusted: Lean kernel + 3 standard axioms; harness; Pool.starmap = ordered map; file reads and numpy sync-word search as '
         'modelled; P1 time/type of entries checked against the payload class\'s own unpack (not in the Lean model).')

CHECKS['C09'] = dict(
    text='Lean 4 theorems on the model of FileIndex.save/load: a saved index loads back identically against the unchanged data '
         'file; with the complete index on disk any change of the data size is refused with the error that triggers re-indexing and the stale index file is deleted; '
         'for EVERY truncation length of the index file (crash during save) and any later append/truncate of the data file, whatever '
         'load accepts lists exactly the messages of a fresh sequential scan of the current data. Tied to file_index.py by '
         'correspondence over every truncation length of real .p1i files; MixedLogReader compared with a fresh scan.',
    ref='4 C09', technique='Lean 4 proof (codec round trip, prefix-decoding lemma, scan-of-truncated-file lemma) + correspondence',
    note='Trusted: Lean kernel + 3 standard axioms; harness; file system modelled (np.fromfile = whole records, crash = any prefix of '
         'the written bytes); data-file changes limited to append/truncate (the property\'s history alphabet; replacement, shrink-to-junk-and-regrow and same-size rewrites are exercised by scripted histories on the implementation); entries of type INVALID(0) excluded by hypothesis of the codec theorem (a type-0 last entry makes the index marker-less: refused and rebuilt, exercised); P1 times >= 2^32-1 s are stored as "no time" since repair b7ff1d5.')

CHECKS['C20'] = dict(
    text='Lean 4 theorems over a bounds-checked NUL-terminated-buffer model of FromString/strtol, ToString and the six operators: '
         'round trip for every version, no read beyond the terminator for every string, result = grammar <0-255>.<0-65535> (else '
         'invalid), operators = lexicographic total order; model tied to the compiled code under ASan+UBSan on exhaustive short '
         'strings, boundary/random strings, all versions (thorough) and operator grids, repeated under in-process digit-grouping locales and stream flags and on objects copied out of wire bytes with every kind of reserved byte.',
    ref='4 C20', technique='Lean 4 proof on an executable model + model/compiled-code correspondence under AddressSanitizer',
    note='Full after fix a4e1937 and e22c057 (operator<< independent of the stream\'s locale and flags). Trusted: Lean kernel; propext/Classical.choice/Quot.sound; strtol modelled by contract (checked '
         'against libc each run); ASan validates the memory model on generated inputs; leading zeros admitted; 255.65535 is the '
         'invalid version.')

CHECKS['C19'] = dict(
    text='Lean 4 theorems over exact rationals, about the very definitions the driver executes (core Rat = Mathlib Q): heading in '
         '[0,360) and congruent to 90-yaw, yaw in [-180,180) and congruent to 90-heading, mutual inverse (mod 360, exact on the '
         'ranges), periodicity, radian = degree variant for any half-turn H>0, array = map of scalar; additionally range preservation '
         'when every +/- is rounded by any monotone rounding exact on representables (binary64 spacing fact proved). Tied to defs.py '
         'on every run: exact model vs double within 4 ulp modulo a turn, rounded model vs double exactly, property oracle on the '
         'real functions.',
    ref='4 C19', technique='Lean 4 algebraic proofs over Q (floor/trunc, linarith/ring) + exact-rational and rounded-model correspondence',
    note='PARTIAL at the float layer: that NumPy binary64 satisfies the Rounding hypotheses (and the radian spacing fact) is not '
         'proved; covered by boundary inputs (multiples of 45 +-1..3 ulp, tiny values, far wrap points) and bit-exact '
         'model/implementation equality. Trusted: Lean kernel; propext, Classical.choice, Quot.sound; np.fmod = exact C fmod (tested).')

CHECKS['C03'] = dict(
    text='Translators on both sides regenerate Nat-coded finite tables on every run (C++ values printed by a compiler-built probe '
         'against the real headers; Python values from the imported working tree cross-checked with ast.parse); 45 kernel-decided '
         'theorems over them: one per enum pair, pairing completeness on both sides, sentinel justification, command/response '
         'classification for every MessageType value through every declared C++ call form, registry bijection with equal versions, every access path to a named value (attribute, E[name], E(name), from_string, by number, iteration) in two enumeration orders, no mutation site of the classification tables anywhere in the package. C++ tables are generated under the repository\'s own CMAKE_CXX_STANDARD and every later standard is re-judged; the registry relation is re-observed in a fresh interpreter after each exercised entry point. A table diff yields the concrete '
         'witness when a theorem stops checking.',
    ref='4 C03', technique='translators + Lean 4 `decide +kernel` over regenerated finite tables',
    note='Full over the regenerated tables. Trusted: translators as readers of names (completeness checked by compiler '
         'switch-exhaustiveness and grep counts), the hand-written pairing/sentinel/exemption tables in Spec/C03.lean; Python '
         'protocol enum = class X(IntEnum) in messages/*.py minus UpdateAction, SignalType; bitmask-derived classes not compared.')

CHECKS['C10'] = dict(
    text='Lean 4 theorem C10_read_eq_filterSpec: for every log and every combination of type, source, time-range and byte-limit '
         'criteria the model of the reader (constructor index slicing + read loop with its two max_bytes cuts) returns exactly the '
         'messages of the unfiltered read satisfying every criterion, in file order (refusing exactly when the spec refuses); '
         'combined criteria = conjunction of the single ones; for logs with non-decreasing P1 times the positional time test on a timed '
         'message is start <= t < end exactly for whole-second bounds, and within +-1 s otherwise; a range after the log selects '
         'nothing. Model tied to mixed_log_reader.py/file_index.py by correspondence; spec run as oracle; all return_* combinations '
         'checked for mutual consistency on the implementation.',
    ref='4 C10', technique='Lean 4 refinement proof (index slicing + read loop -> List.filter spec) + correspondence',
    note='Trusted: Lean kernel + 3 standard axioms; harness. Time arithmetic over integer nanoseconds (generated times are multiples of '
         '0.25 s so the float arithmetic of the code is exact); relative ranges use the index\'s whole-second t0 as in the code; a time '
         'range on a log without any P1 time raises IndexError in code, model and spec alike (treated as explicit refusal); '
         'consistency of returned header/payload/bytes/offset/index is tested on the implementation, not modelled.')
CHECKS['C15'] = dict(
    text='Lean 4 theorems, for any number of message types and any time lists (unsorted, repeated, NaN) and any message_types, that '
         'the literal model of DataLoader.time_align_data never raises and equals the specification: aligned types end with '
         'equal-length, pairwise-equal, strictly ascending times = the sorted set of the intersection (DROP) / union (INSERT); every '
         'result entry is the first input message with that time or (INSERT only) a fabricated default carrying the slot time; '
         'unselected types are unchanged. Tied to data_loader.py on every run by bounded-exhaustive and random correspondence (object '
         'identity via id(), content via a deep snapshot), including through read(time_align=...), histories of alignments on one dictionary (theorem C15_history_refines_spec) and histories of read() calls on one loader.',
    ref='4 C15', technique='Lean 4 refinement proof (index-based numpy re-indexing -> set-algebra spec) + correspondence + direct oracle',
    note='Trusted: Lean kernel; propext, Classical.choice, Quot.sound; the harness; np.unique / np.intersect1d modelled by documented '
         'semantics and compared with numpy each run; the Lean model is over abstract ordered times - the direct-call stages use exactly representable floats, the file-based stages write wire timestamps on 0.1 s / 1 ms / 1 ns grids and judge by the wire value for every discovered timestamp decoder family; unchanged content and '
         'default-valuedness of inserted objects are tested, not proved.')
CHECKS['C16'] = dict(
    text='Lean 4: decided over the table extracted from every to_numpy classmethod on each run that every same-named key reads its '
         'own field; universally quantified theorems (any number of messages) that each converted array has one entry per message '
         'with entry i = field of message i (ints/enums/timestamps value-preserving, .T included), that time-independent outputs '
         'hold the first message\'s value, and that NaN-time removal restricts every time-dependent array to one common kept-index '
         'list; table and models tied to the Python code on every run by bit-exact evaluation on real objects with pairwise distinct '
         'field values, plus the property statement run directly as oracle.',
    ref='4 C16', technique='ast translator -> generated Lean table + decide; structural induction; correspondence + direct oracle',
    note='Trusted: Lean kernel, 3 axioms, translator as reader of names/shapes (cross-checked), attribute encoder of the harness, NumPy. '
         'A to_numpy the AST reader cannot express is read by probing the running class (entries accepted only if they reproduce the real output bit for bit on every probe; marked in the generated file and the evidence). MessageData.to_numpy as a whole and the DataLoader.to_numpy dictionary loop are modelled (mdToNumpy, loaderToNumpy) and driven through operation sequences. Opaque entries (listed in evidence) decided by running only. Open findings: CalibrationStatus leading-UNKNOWN trimming; MeasurementDetails p1_time fill-in (both characterised by _partial theorems); the conversion cache of MessageData.to_numpy is a heuristic (same count, same end times) and members of an earlier conversion are never removed.')
CHECKS['C02'] = dict(
    text='A probe program compiled with the real headers yields sizeof/alignof/offsetof/kinds for all 68 structs '
         '(Generated/C02CxxLayout.lean, regenerated each run); Lean 4 theorems: every struct is packed (members tile [0,sizeof), '
         'sizeof % 4 = 0), the fixed-layout codec descriptor equals the compiler table, parsing reads member i from exactly '
         '[offsetof, offsetof+sizeof), and field isolation / parse-build round trip hold generically by induction over the descriptor. '
         'The Python classes are tied to the compiler-derived descriptor by exhaustive member probing (every leaf member, several '
         'bit patterns, both directions, total size).',
    ref='4 C02', technique='compiler-probe translator + Lean 4 decide over the layout table + generic codec proofs; exhaustive member probing',
    note='That the Python classes implement the descriptor is established by exhaustive member probing, not by a theorem. Float-valued '
         'codecs probed at exactly representable values only. Trusted: Lean kernel + 3 axioms; g++/clang++ on x86-64; header reader for '
         'member names; the hand-written name map tools/c02_namemap.py (a wrong entry produces a violation, never a silent pass).')

CHECKS['C14'] = dict(
    text='Lean 4 refinement of a literal state-machine model of rtcm_framer.cc (OnByte/Resync/OnData, well-founded Resync loop) to '
         'the shared framing scan Cfg.run cfgRtcm: callbacks = the scan\'s frames for any stream, chunking, buffer kind and capacity, '
         'return values = dispatched sizes, decoded count = callbacks (mod 2^32), chunking independence, inductive memory-safety '
         'invariant with an explicit out-of-bounds flag, CRC-24Q table literals (regenerated from the source) = table recomputed from '
         'polynomial 0x1864CFB. Tied to the compiled framer by per-call trace equality under ASan/UBSan with exact-size misaligned '
         'buffers; the scan serves as oracle.',
    ref='4 C14', technique='Lean 4 refinement proof (literal framer model -> scan spec) + ASan/UBSan correspondence harness',
    note='Memory safety of the compiled code is validated by ASan on the correspondence inputs, not proved. CRC-24Q is defined '
         'table-driven from polynomial 0x1864CFB (bit-serial equivalence tested, not proved). Trusted: Lean kernel + 3 axioms; harness; '
         'operator new 4-byte aligned; uint32 counters mod 2^32.')

CHECKS['C11'] = dict(
    text='Lean 4 simulation proof (C11_cursor_refines): for every log and every sequence of read/filter(types, time range, index '
         'slice, remove-untimed)/clear/rewind/seek/seek-to-eof operations, every answer of the reader model (next_index_elem '
         'bookkeeping, filtered index, remembered last-consumed offset, argmax repositioning) equals the answer of the abstract '
         'cursor: first selected message after the last one returned or sought; iteration ends exactly when none remains. Tied to '
         'mixed_log_reader.py by random and bounded-exhaustive operation scripts; abstract cursor run as oracle.',
    ref='4 C11', technique='Lean 4 simulation/invariant proof over operation histories + correspondence on operation scripts',
    note='Trusted: Lean kernel + 3 standard axioms; harness. Source filter / max_bytes are not part of cursor scripts (C10). '
         'History independence (no hidden state or timing) is tied to the code by the correspondence, the model being a pure function.')

CHECKS['C18'] = dict(
    text='Lean 4 theorems on the model of extract_fusion_engine_log: the output is the concatenation of the raw bytes of the '
         'messages the sequential scan accepts and the count is their number; scanning the output afresh finds exactly those '
         'messages at the offsets the index builder recorded (scan-of-concatenation lemma); extracting the output again gives the '
         'same bytes and count; no message => no output file. Tied to utils/log.py and the p1_extract entry point by '
         'correspondence (output bytes, count, written .p1i vs the .p1i of a fresh indexing of the output, second extraction - also in place under the default output name, through p1_extract with the same stem, and through a symlink / hard link / symlinked directory - the locate_log entry point, files of an earlier extraction at the output path, per-type counts).',
    ref='4 C18', technique='Lean 4 proof (scan of a concatenation of whole messages; idempotence) + correspondence',
    note='Inherits C08 (the reader iterates the index = sequential scan, messages within the indexer size limit). P1 times/types in '
         'the written index are compared with a fresh indexing on the implementation (not in the Lean model). File system modelled.')
CHECKS['C12'] = dict(
    text='Lean 4: full cache transparency (C12_cache_transparent: for every registry with disjoint P1/system-time types, every '
         'reader, log, call history of any length and final call, the final call returns what a fresh loader returns) and the '
         'fresh-read specification (first/last N across requested types in file order, exact file order for return_in_order), proved '
         'on an executable model of DataLoader._read by cache-invariant induction; the unrepaired code is shown non-transparent by '
         'concrete histories. Tied to data_loader.py by correspondence on generated call histories; oracle = same call on a fresh loader.',
    ref='4 C12', technique='Lean 4 invariant induction over call histories + refinement of one read to a closed form; correspondence',
    note='The reader, time alignment and numpy conversion internals are parameters of the model, measured from the real code on every '
         'run. Restricted to max_bytes=None and return_bytes=False; the source-id discovery hypothesis is needed only for max_messages < 0. Ten repository defects repaired; open findings: last-N with an undiscovered source id, require_system_time for types carrying measurement details (see KNOWN_FINDINGS.txt). Histories include reads that raise, open() on a used loader, argument objects shared between calls, loaders and logs, and logs larger than the prefix open() probes.')
CHECKS['C01'] = dict(
    text='Lean 4 layout language with executable parse/build/sizeOf; generic theorems by induction over layouts (parse-build round '
         'trip, second serialisation reproduces the bytes, sizes agree, offset independence, buildInto frame) under a decidable '
         'well-formedness predicate decided for all 92 descriptors regenerated from the Python classes on every run; Stable proved '
         'for all non-float codecs. Descriptors tied to the classes by correspondence (unpack/pack/calcsize/pack-into vs '
         'parseAt/build/sizeOf/buildInto, floats bit-exact); the property statement runs as oracle over all 52 registered classes, '
         'header, Timestamp, MeasurementDetails and all sub-payloads.',
    ref='4 C01', technique='Lean 4 induction over a layout language + translator (construct walker) + correspondence + property oracle',
    note='PARTIAL: stability of float-arithmetic value codecs (Timestamp sec+ns, FixedPointAdapter, sentinel scalings) is a '
         'hypothesis of the per-class theorem, tested exhaustively at 16 bits and on grids. Ten repository defects repaired; four '
         'open findings (header reserved zeroing; Timestamp ns>=1e9 and sec>=2^32-1 encodings).')

CHECKS['C06'] = dict(
    text='Lean 4 theorems for every buffer, initial value, payload and call sequence: crc.cc\'s table algorithm = bit-serial CRC-32; '
         'incremental computation at every split point and Python two-step CRC = C++ CalculateCRC(message); every in-range '
         'encode_message output has the payload\'s type/version, given source, payload size, consecutive sequence numbers mod 2^32 '
         'and is accepted by validate_crc, the Python decoder, IsValid and the framer\'s CRC compare; affine law; every burst <= 32 '
         'bits, every alteration of the CRC field and every two altered bits at any distance (polynomial period 2^32-1 proved) are '
         'rejected by all validators and by the stream decoder, for alterations that leave payload_size_bytes intact. Model tied to '
         'zlib, the Python classes and the ASan-compiled crc.cc/framer each run.',
    ref='4 C06', technique='Lean 4 algebraic proof (GF(2) linearity, kernel-evaluated 32x32 bit-matrix powers + Mathlib minimalPeriod) + three-way correspondence',
    note='Full after fix commits 8878bb6, bf1f3ea. The clause "any altered message is rejected" is false when the alteration hits '
         'payload_size_bytes (theorem C06_size_field_flip_accepted, open finding C06/size-field-alteration-reframes-a-crc-valid-message); '
         'such alterations are tested, not proved. Burst = inside one region. zlib.crc32 = CRC-32 is tested, not proved.')

CHECKS['C13'] = dict(
    text='Lean 4 theorems, for message sequences of any length, that the latch machine of TimeRange.is_in_range (model literal to '
         'time_range.py) returns exactly the verdicts of the interval specification on every sequence with non-decreasing P1 times, '
         'that restart() re-establishes this with the origin retained, and that make_absolute, intersect (pointwise conjunction of '
         'accepted sets, incl. untimed messages, under agreeing origins) and parse yield the described intervals; the model is tied '
         'to the code on every run (bounded-exhaustive sequences x constructor grid x restart, all range pairs, parse strings: '
         'verdicts and all attributes), and the Lean spec is run as oracle against TimeRange. Messages are real objects of every payload class classified from their documented fields (get_p1_time / get_system_time_ns modelled, theorem C13_is_in_range_on_messages); every constructor argument in every spelling; two-object operation scripts; caller-owned objects mutated in place between and after calls.',
    ref='4 C13', technique='Lean 4 refinement proof (latch state machine -> interval predicate, invariant induction) + correspondence',
    note='Trusted: Lean kernel; propext, Classical.choice, Quot.sound; harness tools/props/c13.py. Times modelled as integers (harness '
         'uses 0.25 s multiples where float arithmetic is exact); NaN/-inf bounds and out-of-order P1 times excluded; float() external '
         'to parse; intersect equation under hypothesis Compatible (same relative origin). Two defects fixed in /repo (bd1cbd4, 54efc03).')

CHECKS['C07'] = dict(
    text='Literal executable Lean model of OnByte/Resync/OnData/SetBuffer (termination of the Resync loop proved on a lexicographic '
         'measure) shown equal to the shared scan Cfg.run (cfgCxx capacity): callbacks = the scan\'s messages for any stream, chunking, '
         'capacity and after Reset; OnData returns the summed dispatched sizes; chunking independence incl. internal state; every '
         'buffer index accessed in any reachable state is below capacity_bytes_, the buffer address is 4-aligned and inside the '
         'caller\'s storage; same messages as the Python decoder with max payload capacity-24 (capacity <= 24+2^24). The C++ harness '
         'is compiled from src/ on every run under ASan/UBSan with exact-size misaligned buffers and compared per call with the Lean '
         'driver; oracles: the scan and the real Python decoder. SetBuffer on a live framer is an operation of model, reachability and the whole-history theorem C07_history; several framer objects are kept alive and fed alternately; single messages around the 2^24 limit are judged by a Python rendering of the scan that is cross-checked against the Lean scan on every run.',
    ref='4 C07', technique='Lean 4 refinement proof (literal framer model -> re-feed machine -> scan spec) + inductive safety invariant; ASan/UBSan correspondence',
    note='Memory safety is a theorem on the model\'s explicit indices; the compiled code is validated under ASan/UBSan on the '
         'correspondence inputs. Two heap overflows fixed in /repo (c9bc15e, 51c058c). Trusted: Lean kernel + 3 axioms; harness; '
         'operator new[] 4-byte aligned; CRC-32 as in Model/Crc32.lean.')

CHECKS['C17'] = dict(
    text='Lean 4 theorems over arbitrary histories of integer conversions (induction; reachable state = fresh class plus one hidden '
         'member per unknown value): lenient conversion preserves the value and flags it iff undefined, strict conversion of an '
         'undefined value is refused in every reachable state, iteration/length/defined-name and ordinary-name lookups are '
         'history-independent (the only lookup that can change is of a hidden name _U_<v>), bit-mask set->mask->set round trip for '
         'distinct values >= offset; instantiated for every IntEnum subclass and mask class of the package through tables '
         'regenerated from the working tree and re-decided per run; the model is tied to enum_utils.py/aenum by comparing every '
         'answer of operation scripts on the real classes in fresh processes.',
    ref='4 C17', technique='Lean 4 invariant proof over conversion histories + kernel-decided per-class facts + correspondence on forked real classes',
    note='Trusted: Lean kernel; propext, Classical.choice, Quot.sound; translator as reader of names/ints (AST cross-check); harness. '
         'Histories exclude the lenient *string* conversion, which adds a visible member by design (compared, not proved stable). '
         'Hidden-name lookups (E[\'_U_3\'] after a lenient 3) are not counted as name lookups of the enumeration. ASCII names; masks '
         'are naturals. Quick tier samples the 16-bit range; thorough enumerates it on the real classes.')

NOT_APPLICABLE = []



# additions made by the later rounds of strengthening (appended to the level texts)
EXTRA = {
    'C17': 'The members / iteration / length clause incl. alias names, reversed() and `in` is stated directly '
           '(C17_members_iteration_length); adapter objects created in every order and form are judged by their own strictness '
           'flag; mask helpers are exercised under caller edits of returned lists and after lenient conversions of the same '
           'integers by the enumeration and by its mask class in eight orders.',
    'C19': 'Every call form of the unit flag (model Angle.UnitArg, theorem C19_call_forms_agree) and input type, element orders '
           'and layouts; results of earlier calls are kept and re-read; array lengths around powers of two and common block '
           'sizes; every function x unit x argument kind as the first conversion of a fresh interpreter.',
    'C06': 'The encoder is driven through call histories on one and several encoder objects (source given / omitted / refused, '
           'every ordered pair of payload classes; theorems C06_encoder_call_fields, C06_encoder_labels_independent_of_history); '
           'altered messages go through every way of writing MessageHeader.unpack(); the C++ routines are also called during '
           'static initialisation in both link orders.',
    'C01': 'The oracle also runs every pack/unpack call form (library / caller buffers at non-zero offsets with guard bytes, '
           'header+payload in one call), bit-set sweeps of integer fields and re-use of one object for several encodings '
           '(incl. after refused parses); every bytes/text member is filled with structured-looking contents (sync bytes, framed '
           'messages, NULs, non-UTF-8) crossed with defined and unrecognised raw values of every enumeration field.',
    'C02': 'Every encoding is also decoded told the C++ struct\'s MESSAGE_VERSION (three unpack call forms, the stream decoder, '
           'MixedLogReader sequentially and by index entry). '
           'The caller\'s buffer must keep its length when a message is packed into it at an offset.',
    'C04': 'Data is handed over in nine forms (bytes, fresh / re-used / wiped bytearray, memoryviews, a recv_into-style view) with the '
           'caller\'s objects compared after every call; add_callback histories while the decoder is in use (typed and catch-all, '
           'between calls and from inside a callback; theorem C04_late_observer). '
           'Streams in which a message is followed by near-copies of itself (same header, changed payload; exact copy; cut copy).',
    'C08': 'Messages of every registered class in every P1-time configuration; the time column is also judged against the wire '
           'bytes by a hand-written per-type table.',
    'C09': 'Every library writer of .p1i files (reader, fast indexer, FileIndexBuilder, extraction in four output forms, locate_log, '
           'load+save) is run on captures with junk between messages; the written index is compared with a fresh one and every '
           'read through it with the index-ignored read (fractional seconds across [0,1)). '
           'Histories of a log still being written: indexed while its last message lacks 1-3 (.. 25) bytes, opened again when they arrive.',
    'C10': 'Generated logs draw their base P1 time from magnitudes 0 .. 2^24 .. GPS-like .. 2^31 .. 2^32-2 with whole-second bounds '
           'around message times. '
           'Criteria objects (TimeRange, type list, source list) built once and used for several logs, via the constructor and via filter_in_place(). '
           'The filter_in_place() route has its own literal model (Reader.constructThenFilterTime = the cursor model\'s filterTime step on the '
           'type-filtered index; C10_filter_in_place_route_no_types_spec: without a type filter it meets the specification). PARTIAL for '
           'that route with a type filter: open finding C10/filter-in-place-time-range-on-type-filtered-reader (untimed messages placed '
           'among the selected types only; Lean witnesses C10_filter_in_place_after_types_open / _after_untimed_types_open, directed '
           'corpus cases run first on every run).',
    'C11': 'Every filter operation also in its replacing form (clear_existing=True = clear-then-filter); histories applying one '
           'type set to different sub-indexes of pattern logs that share first entry, last entry and size. '
           'Stepped index slices index[i:j:k] (Op.filterStride in model, specification and simulation proof); C11_forward_only: between rewinds / seeks the position never moves back, so no message is returned twice.',
    'C12': 'Histories "across-types read of T / reads of strict subsets of T with other arguments / the first read again". '
           'Every earlier read() result is kept and re-read after every later call: it must still be what it was when returned.',
    'C15': 'Boundary sizes: union / common / per-type epoch counts at 2^k-1 .. 2^k+2 (k = 7, 8; thorough also 15, 16). '
           'An inserted entry owns its p1_time object (no sharing with any other entry of the result).',
    'C03': 'Fresh-interpreter sweeps in which an application first defines and uses its own enum / mask classes under the names of '
           'all protocol enumerations (same and different sizes, modules, qualnames) before the protocol enumerations are asked.',
    'C05': 'Results are caller-owned values: every returned header / payload / raw-bytes object is snapshotted at return, re-read '
           'after every later call, and may not be handed out twice; chunk ends at, before and after every message end under '
           'every return_bytes / return_offset setting; messages of 4096 / 65536 bytes +- 1. '
           'C05_calls_compose: a session of on_data calls composes from any decoder state.',
    'C07': 'The Python decoder is given 60 s on the 16 MB cases and the question is otherwise repeated at small scale.',
    'C14': 'Long runs of one framer object (70 000 .. 2^17 + 70 000 frames generated in the harness from a seed) reported around '
           '2^8, 2^15, 2^16, 2^17, with and without Reset(), judged window by window by the Lean scan.',
    'C18': 'Inputs with messages of every registered class in every P1-time configuration, each extracted with an index request.',
    'C19': 'Histories pass the caller\'s own argument array again: as it is, refilled in place, after the caller edited the earlier result.',
}
for _k, _v in EXTRA.items():
    if _v not in CHECKS[_k]['text']:
        CHECKS[_k]['text'] += ' ' + _v

def main():
    checks = []
    for pid in sorted(CHECKS):
        c = CHECKS[pid]
        checks.append({
            'property_id': pid,
            'quick_cmd': './check %s --tier quick' % pid,
            'thorough_cmd': './check %s --tier thorough' % pid,
            'evidence_file': 'evidence/%s.json' % pid,
            'replay_cmd_template': './check %s --replay {path}' % pid,
            'engine': 'lean4-fe',
            'level_claimed': {'category': c.get('category', 'proof'), 'text': c['text'], 'design_ref': 'DESIGN.md ' + c['ref']},
            'level_note': c['note'],
            'technique': c['technique'],
        })
    claimed = set(CHECKS)
    props = [json.loads(l)['id'] for l in open(os.path.join(HERE, 'properties.jsonl'))]
    na = [x for x in NOT_APPLICABLE]
    na_ids = {x['property_id'] for x in na}
    for p in props:
        if p not in claimed and p not in na_ids:
            na.append({'property_id': p, 'reason': 'not yet built in this round: no check is registered for it yet (planned, see DESIGN.md section 4)'})
    m = {
        'version': 1,
        'setup_cmd': 'cd lean && lake build',
        'hooks': {'guard': 'FE_CLIENT_VERIF', 'enable': 'no hooks: the checks use the repository unmodified',
                  'baseline_off_cmd': 'cd /repo && /venv/bin/python -m pytest -ra -q -p no:cacheprovider --timeout=900 --continue-on-collection-errors',
                  'source_commits': [], 'add_only': True},
        'engines': [{'name': 'lean4-fe', 'path': 'lean', 'serves_properties': sorted(claimed),
                     'kind_free_text': 'Lean 4 models + theorems (lean/FeVerif), native line-protocol driver (lean/Driver.lean), '
                                       'Python correspondence harnesses and translators (tools/)'}],
        'checks': checks,
        'notes': 'Every check: (A) regenerate tables from /repo where the model is a table, (B) lake build of the property theorems + '
                 'axiom audit, (C) implementation vs Lean model on generated inputs, (D) Lean spec as oracle, (E) failing-input search '
                 'when B or C breaks. KNOWN_FINDINGS.txt lists fixed and open findings.',
        'not_applicable': na,
    }
    with open(os.path.join(HERE, 'MANIFEST.json'), 'w') as f:
        json.dump(m, f, indent=1)


main()
