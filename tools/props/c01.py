"""C01 - message payloads survive serialize/parse unchanged, with consistent sizes.

Stage A  tools/c01_py_extract.py regenerates lean/FeVerif/Generated/C01Layouts.lean from the working tree.
Stage B  lake build FeVerif.Props.C01 (generic round-trip theorems over the layout language, WF of every
         generated descriptor by `decide`), axiom audit.
Stage C  correspondence, for every class with a descriptor: the real unpack()/pack()/calcsize() against the
         model's parseAt/build/sizeOf/buildInto (driver command `layrt`) on valid encodings, byte-wise mutations
         of the fixed part, at offsets 0,1,3,8 with random prefix/suffix; every attribute compared through the
         descriptor's attribute table (floats bit-exact).
Stage D  oracle = the property itself on the real code, for ALL classes (descriptor or not): tools/c01_oracle.py
         (every pack()/unpack() call form, MessageHeader.pack(payload=) for every class; integer fields enumerated as
         bit sets at the offsets int_fields() reads from the descriptors; bytes / text members with structured-looking
         contents x defined and unrecognized raw values of every enumeration field (O.structured); re-used objects: unpack into an object that
         has parsed / refused other encodings before must equal a new object, chains and shape-class pairs).
         + the float-codec hypotheses of the theorems tested directly on the implementation (all 65 536 raw values
         of every 16-bit scaled field, Timestamp on a grid, three cycles).
"""
import json
import multiprocessing
import os
import struct
import zlib

import fv
import c01_oracle as O
import c01_py_extract as X

MODULES = ['FeVerif.Props.C01']


# ---------------------------------------------------------------------------------------------------------
# stage A
def translate(ctx):
    try:
        layouts, ext, notes = X.extract()
        text = X.emit(layouts, ext)
    except Exception as e:
        ctx.proof_failures.append('translator failed: %s: %s' % (type(e).__name__, e))
        return None, None
    probs = X.validate_against_source(layouts)
    for p in probs:
        ctx.proof_failures.append('translator self-check: ' + p)
    path = os.path.join(fv.LEAN, 'FeVerif', 'Generated', 'C01Layouts.lean')
    with fv.LeanLock():
        changed = X.write_if_changed(path, text)
    ctx.cov['generated_changed'] = bool(changed)
    ctx.cov['descriptors'] = sorted(layouts)
    ctx.cov['translator_notes'] = notes
    return layouts, ext


# ---------------------------------------------------------------------------------------------------------
# value trees
def parse_value(s):
    pos = [0]

    def rec():
        c = s[pos[0]]
        if c == '[':
            pos[0] += 1
            out = []
            if s[pos[0]] == ']':
                pos[0] += 1
                return out
            while True:
                out.append(rec())
                if s[pos[0]] == ',':
                    pos[0] += 1
                else:
                    assert s[pos[0]] == ']'
                    pos[0] += 1
                    return out
        j = pos[0]
        while j < len(s) and s[j] not in ',]':
            j += 1
        tok = s[pos[0]:j]
        pos[0] = j
        if tok == 'nan':
            return 'nan'
        if tok.startswith('x'):
            return bytes.fromhex(tok[1:])
        return int(tok)
    v = rec()
    assert pos[0] == len(s)
    return v


CALLS = {
    'system_time_cs': lambda o: o.system_time_ns // 10 ** 7,
    'subtype': lambda o: int(o.config_object.GetSubtype()),
    'config_type': lambda o: int(o.config_object.GetType()),
    'fault_type': lambda o: int(o.payload.GetType()),
}


def get(obj, attr):
    if attr is None:
        return obj
    if isinstance(attr, tuple):
        if attr[0] == 'call':
            return CALLS[attr[1]](obj)
        base = get(obj, attr[0])
        if hasattr(base, 'flat'):
            return base.flat[attr[1]]
        return base[attr[1]]
    if isinstance(obj, dict):
        return obj[attr]
    return getattr(obj, attr)


def fbits(v, fmt):
    f = float(v)
    if f != f:
        return 'nan'
    return int.from_bytes(struct.pack(fmt, f), 'little')


def cmp_field(it, mv, obj, out, path):
    attr = it['attr']
    if attr == 'skip':
        return
    try:
        pv = get(obj, attr)
    except Exception as e:
        out.append('%s: attribute %r missing (%s)' % (path, attr, type(e).__name__))
        return
    c = it['codec'][0]
    if it.get('py') == 'timestamp':
        pv = pv.seconds
    if c in ('ext', 'f64'):
        exp = fbits(pv, '<d')
    elif c == 'f32':
        exp = fbits(pv, '<f')
    elif c == 'discard':
        exp = 'nan' if float(pv) != float(pv) else ('not-nan', pv)
    elif c == 'bool':
        exp = int(bool(pv))
    elif c == 'raw':
        exp = bytes(pv)
    else:
        exp = int(pv)
    if exp != mv:
        out.append('%s: impl %r model %r' % (path, exp, mv))


def cmp_items(items, vals, obj, out, path, tags):
    vi = 0
    for it in items:
        k = it['k']
        if k in ('pad', 'count'):
            continue
        if vi >= len(vals):
            out.append('%s: model value list too short' % path)
            return
        mv = vals[vi]
        vi += 1
        p = '%s.%s' % (path, it.get('name'))
        if k == 'field':
            if isinstance(mv, int) and not isinstance(mv, bool):
                tags[it['name']] = mv
            cmp_field(it, mv, obj, out, p)
        elif k == 'struct':
            try:
                sub = get(obj, it['attr'])
            except Exception:
                out.append('%s: attribute missing' % p)
                continue
            cmp_items(it['items'], mv, sub, out, p, {})
        elif k == 'array':
            seq = get(obj, it['attr'])
            if len(seq) != len(mv):
                out.append('%s: impl %d elements, model %d' % (p, len(seq), len(mv)))
                continue
            for i, (e, ev) in enumerate(zip(list(seq), mv)):
                cmp_items(it['items'], ev, e, out, '%s[%d]' % (p, i), {})
        elif k in ('bytes', 'greedy'):
            pv = get(obj, it['attr'])
            if isinstance(pv, str):
                pv = pv.encode('utf8')
            if bytes(pv) != mv:
                out.append('%s: impl %r model %r' % (p, bytes(pv)[:40], mv[:40]))
        elif k == 'lenpref':
            cmp_items(it['items'], mv, get(obj, it['attr']), out, p, tags)
        elif k == 'switch':
            t = tags.get(it['tag'])
            body = None
            for ct, b in it['cases']:
                if ct == t:
                    body = b
                    break
            if body is None:
                body = it['dflt']
                if it.get('dflt_attr_none') and getattr(obj, it['dflt_attr_none'], None) is not None:
                    out.append('%s: impl has a value where the model took the default case' % p)
            if body is None:
                out.append('%s: model parsed an unknown tag %r' % (p, t))
                continue
            cmp_items(body, mv, get(obj, it['attr']), out, p, tags)
    if vi != len(vals):
        out.append('%s: model has %d extra values' % (path, len(vals) - vi))


def has_str(items):
    for it in items:
        if it['k'] == 'bytes' and it['str']:
            return True
        for key in ('items',):
            if key in it and has_str(it[key]):
                return True
        if it['k'] == 'switch':
            for _, b in it['cases']:
                if has_str(b):
                    return True
    return False


def skip_case(name, o1, b0):
    """inputs on which the Python class does something the layout language does not express (documented)"""
    if name == 'EventNotificationMessage':
        d = bytes(b0[24:26])
        if int(o1.event_type) in (3, 4) and d == b'/2':
            return 'event-description-sync-unescape'
    if name == 'SetConfigMessage' and (int(o1.flags) & 2):
        return 'revert-to-default-flag'
    if name in ('SetConfigMessage', 'ConfigResponseMessage') and getattr(o1, 'config_object', 1) is None:
        return 'content-not-understood'
    if name == 'MessageHeader' and int(o1.reserved) != 0:
        return 'reserved-nonzero(open finding)'
    return None


# ---------------------------------------------------------------------------------------------------------
# stage C
def correspond(ctx, layouts):
    rng = ctx.rng
    subs = {s.name: s for s in O.all_subjects()}
    names = [n for n in sorted(layouts) if n in subs]
    ctx.cov['classes_with_descriptor'] = names
    ctx.cov['classes_without_descriptor'] = sorted(set(subs) - set(names))
    budget = 160 if ctx.thorough else 36
    lines, meta = [], []
    for name in names:
        subj = subs[name]
        srng = O.random.Random(zlib.crc32(name.encode()) + 77 * ctx.seed)
        encs = O.encodings(subj, srng, ctx.thorough, budget, int_fields(layouts[name]), content_hints(layouts[name]))
        if len(encs) > budget * 2:
            head = encs[:budget]
            tail = encs[budget:]
            srng.shuffle(tail)
            encs = head + tail[:budget]
        for i, b0 in enumerate(encs):
            offs = O.OFFSETS if (ctx.thorough or i % 5 == 0) else (srng.choice(O.OFFSETS),)
            post = b'' if subj.greedy else O.rbytes(srng, srng.choice([0, 0, 6, 30]))
            for off in offs:
                buf = O.rbytes(srng, off) + b0 + post
                lines.append('layrt %s %d %s' % (name, off, buf.hex() or '-'))
                meta.append((name, off, buf, b0))
    outs = ctx.driver(lines)
    skipped = {}
    receivers = {}
    for (name, off, buf, b0), line, ans in zip(meta, lines, outs):
        subj = subs[name]
        items = layouts[name]
        replay = {'kind': 'correspondence', 'class': name, 'off': off, 'buf': buf.hex(), 'request': line[:80]}
        try:
            o1, n = subj.unpack(buf, off)
            impl_ok = True
        except Exception as e:
            impl_ok, err = False, type(e).__name__
        # the model is a function of the bytes alone: ONE long-lived object per class is taken through every request of
        # the class as well (refused ones included) and must show the model's value after each parse, like a new object
        if name not in receivers:
            receivers[name] = subj.receiver()
        try:
            o1r, nr = subj.unpack_with(receivers[name], buf, off)
        except Exception as e:
            o1r, nr = None, type(e).__name__
        ctx.count('corr_' + ('parsed' if impl_ok else 'rejected'))
        ctx.case(line, nontrivial=impl_ok)
        if ans in ('bad-args', 'bad-op'):
            raise fv.InfraError('driver: %s for %s' % (ans, line[:100]))
        if ans == 'none':
            if impl_ok:
                w0 = skip_case(name, o1, b0)
                if w0 in ('content-not-understood', 'revert-to-default-flag'):
                    skipped[w0] = skipped.get(w0, 0) + 1
                    continue
                if has_str(items) and any(x >= 0x80 for x in b0):
                    skipped['non-ascii-text'] = skipped.get('non-ascii-text', 0) + 1
                    continue
                ctx.disagree('%s: impl parses (%d bytes) where the model rejects, offset %d' % (name, n, off), replay)
            continue
        if not impl_ok:
            ctx.disagree('%s: impl raises %s where the model parses, offset %d' % (name, err, off), replay)
            continue
        parts = ans.split(' ')
        m_n, m_val, m_build, m_size, m_into, m_re = int(parts[0]), parse_value(parts[1]), parts[2], int(parts[3]), parts[4], parts[5]
        why = skip_case(name, o1, b0)
        if n != m_n:
            ctx.disagree('%s: consumed impl %d model %d (offset %d)' % (name, n, m_n, off), replay)
            continue
        if why == 'content-not-understood':
            skipped[why] = skipped.get(why, 0) + 1
            continue
        diffs = []
        try:
            cmp_items(items, m_val, o1, diffs, name, {})
        except Exception as e:
            diffs.append('attribute walk failed: %s: %s' % (type(e).__name__, e))
        if diffs and why not in ('revert-to-default-flag', 'event-description-sync-unescape'):
            ctx.disagree('%s: attributes differ (offset %d): %s' % (name, off, '; '.join(diffs[:4])), replay)
            continue
        ctx.cov['traces_validated_against_impl'] += 1
        if why not in ('revert-to-default-flag', 'event-description-sync-unescape'):
            diffs = []
            if o1r is None or nr != m_n:
                diffs.append('unpack -> %s, model consumes %d' % (nr, m_n))
            else:
                try:
                    cmp_items(items, m_val, o1r, diffs, name, {})
                except Exception as e:
                    diffs.append('attribute walk failed: %s: %s' % (type(e).__name__, e))
            ctx.count('corr_reused_receiver')
            if diffs:
                ctx.disagree('%s: a re-used object differs from the model after unpack (offset %d; a new object agrees): %s' % (
                    name, off, '; '.join(diffs[:4])), replay)
                receivers.pop(name)
                continue
        if why:
            skipped[why] = skipped.get(why, 0) + 1
            continue
        # serialisation
        try:
            b1 = subj.pack(o1)
        except Exception as e:
            if m_build != 'none':
                ctx.disagree('%s: impl pack() raises %s, model builds' % (name, type(e).__name__), replay)
            continue
        m_b = b'' if m_build == '-' else (None if m_build == 'none' else bytes.fromhex(m_build))
        if m_b is not None and m_b != b1 and len(m_b) == len(b1):
            # the model writes the canonical quiet NaN, Python keeps the NaN payload: equal iff the model reads
            # pack()'s bytes as the same value tree
            again = ctx.driver(['layparse %s 0 %s' % (name, b1.hex() or '-')])[0]
            if again == '%d %s' % (len(b1), parts[1]) and 'nan' in parts[1]:
                skipped['nan-payload-kept-by-impl'] = skipped.get('nan-payload-kept-by-impl', 0) + 1
                m_b = b1
        if m_b is None or m_b != b1:
            ctx.disagree('%s: pack() %s != build %s' % (name, b1.hex()[:80], m_build[:80]), replay)
            continue
        try:
            cs = subj.calcsize(o1)
        except Exception as e:
            cs = 'raises ' + type(e).__name__
        if cs != m_size:
            ctx.disagree('%s: calcsize() %s != sizeOf %d' % (name, cs, m_size), replay)
            continue
        if subj.into:
            buf2 = bytearray(buf)
            fits = off + len(b1) <= len(buf)
            try:
                r = subj.pack_into(o1, buf2, off)
                ok = True
            except Exception as e:
                ok = False
            if fits:
                exp = bytes.fromhex(m_into) if m_into not in ('none', '-') else None
                if exp is not None and len(exp) == len(buf):     # same NaN-payload allowance as above
                    exp = exp[:off] + b1 + exp[off + len(b1):] if bytes.fromhex(m_build if m_build not in ('-', 'none') else '') != b1 else exp
                if not ok or r != len(b1) or exp is None or bytes(buf2) != exp:
                    ctx.disagree('%s: pack(buffer, %d, return_buffer=False) -> %s differs from buildInto' % (
                        name, off, r if ok else 'raises'), replay)
                    continue
        if m_re != 'same:%d' % len(b1):
            # the model predicts that this input breaks the round trip (a float codec is not stable here):
            # the oracle must see it on the implementation too
            res = O.roundtrip(subj, b0, (0,), O.random.Random(5))
            if not res[1]:
                ctx.disagree('%s: model re-parse of its own serialisation: %s, but the implementation round-trips' % (name, m_re), replay)
            for v in res[1]:
                ctx.violation(O.signature(v[3] if len(v) > 3 else name, v[0], v[1]), v[2], {'subject': name, 'b0': b0.hex(), 'offsets': [0]})
            ctx.count('corr_model_predicts_violation')
            continue
        ctx.count('corr_full')
        if len(ctx.cov['samples']) < 3 and len(buf) < 60:
            ctx.sample({'request': line, 'model': ans[:200]})
    ctx.cov['correspondence_skipped'] = skipped


# ---------------------------------------------------------------------------------------------------------
# float-codec hypotheses, tested directly on the implementation
def scaled_fields(items, base=0):
    """(byte offset, width, ext id, name) of scaled-integer fields at static offsets of a fixed-size item list"""
    res = []
    off = base
    for it in items:
        k = it['k']
        if k == 'field':
            if it['codec'][0] == 'ext' and it['codec'][1] != 0:
                res.append((off, it['w'], it['codec'][1], it['name']))
            off += it['w']
        elif k == 'count':
            off += it['w']
        elif k == 'pad':
            off += it['n']
        elif k == 'struct':
            s = X.static_size(it['items'])
            if s is None:
                return res
            res += scaled_fields(it['items'], off)
            off += s
        elif k == 'array' and it['cnt'][0] == 'fixed':
            s = X.static_size(it['items'])
            if s is None:
                return res
            for i in range(it['cnt'][1]):
                res += scaled_fields(it['items'], off + i * s)
            off += s * it['cnt'][1]
        else:
            return res
    return res


def int_fields(items, base=0):
    """(byte offset, width, codec kind) of the integer-valued fields (plain unsigned / signed, enumerations, booleans)
    at static offsets of a layout: everything before the first variable-length item.  Feeds the oracle's generator
    (fields as bit sets / boundary values, O.field_sweeps); the oracle itself does not depend on the descriptor."""
    res = []
    off = base
    for it in items:
        k = it['k']
        if k == 'field':
            c = it['codec'][0]
            if c in ('uint', 'sint', 'lenient', 'strict', 'bool'):
                res.append((off, it['w'], 'uint' if c == 'uint' else c))
            off += it['w']
        elif k == 'count':
            off += it['w']
        elif k == 'pad':
            off += it['n']
        elif k == 'struct':
            s = X.static_size(it['items'])
            res += int_fields(it['items'], off)
            if s is None:
                return res
            off += s
        elif k == 'array' and it['cnt'][0] == 'fixed':
            s = X.static_size(it['items'])
            if s is None:
                return res + int_fields(it['items'], off)
            for i in range(it['cnt'][1]):
                res += int_fields(it['items'], off + i * s)
            off += s * it['cnt'][1]
        elif k == 'bytes' and it['cnt'][0] == 'fixed':
            off += it['cnt'][1]
        else:
            return res
    return res


def content_hints(items, base=0):
    """for the oracle's structured-content generator (O.structured): the enumeration-typed fields at static offsets
    with their defined raw values, and the fixed-length bytes / text members at static offsets."""
    enums, segs = [], []
    off = base
    for it in items:
        k = it['k']
        if k == 'field':
            c = it['codec']
            if c[0] in ('lenient', 'strict'):
                enums.append((off, it['w'], c[0], tuple(int(m) for m in c[2])))
            elif c[0] == 'raw':
                segs.append((off, it['w']))
            off += it['w']
        elif k == 'count':
            off += it['w']
        elif k == 'pad':
            off += it['n']
        elif k == 'struct':
            s = X.static_size(it['items'])
            h = content_hints(it['items'], off)
            enums += h['enums']
            segs += h['segments']
            if s is None:
                break
            off += s
        elif k == 'array' and it['cnt'][0] == 'fixed':
            s = X.static_size(it['items'])
            h = content_hints(it['items'], off)
            enums += h['enums']
            segs += h['segments']
            if s is None:
                break
            off += s * it['cnt'][1]
        elif k == 'bytes' and it['cnt'][0] == 'fixed':
            segs.append((off, it['cnt'][1]))
            off += it['cnt'][1]
        else:
            break
    return {'enums': enums, 'segments': segs}


def field_table(layouts):
    return {n: int_fields(items) for n, items in (layouts or {}).items()}


def hint_table(layouts):
    return {n: content_hints(items) for n, items in (layouts or {}).items()}


def sweep_work(args):
    """all raw values of one small scaled field of one class, three cycles, on the implementation"""
    name, off, w, fname, lo, hi, base_hex = args
    subj = O.subject_by_name(name)
    base = bytearray(bytes.fromhex(base_hex))
    bad = []
    n = 0
    for raw in range(lo, hi):
        base[off:off + w] = raw.to_bytes(w, 'little')
        b0 = bytes(base)
        try:
            o1, _ = subj.unpack(b0, 0)
        except Exception:
            continue
        n += 1
        try:
            c1 = O.cval(o1)
            b1 = subj.pack(o1)
            o2, _ = subj.unpack(b1, 0)
            b2 = subj.pack(o2)
            o3, _ = subj.unpack(b2, 0)
            b3 = subj.pack(o3)
            if O.cval(o2) != c1 or b2 != b1 or b3 != b2 or O.cval(o3) != c1:
                bad.append((raw, 'value-drift' if O.cval(o2) != c1 else 'bytes-differ'))
        except Exception as e:
            bad.append((raw, 'cannot-pack'))
        if len(bad) > 5:
            break
    return name, fname, off, w, n, bad, base_hex


def timestamp_grid(ctx):
    from fusion_engine_client.messages import Timestamp
    rng = ctx.rng
    secs = [0, 1, 2, 59, 3682, 4999, (1 << 21) - 1, 1 << 21, (1 << 22) - 1, 1 << 22, (1 << 22) + 1, (1 << 23) - 1, 1 << 23, (1 << 23) + 1,
            (1 << 24) - 1, 1 << 24, 1 << 26, 1 << 30, 1300000000, 1400000000, 1454000000, 1 << 31, (1 << 32) - 3]
    secs += [rng.randrange(1 << 22, 1 << 24) for _ in range(30 if ctx.thorough else 8)]
    secs += [rng.randrange(0, 1 << 32 - 1) for _ in range(30 if ctx.thorough else 8)]
    nss = [0, 1, 2, 3, 499999999, 500000000, 500000001, 999999997, 999999998, 999999999]
    nss += [rng.randrange(10 ** 9) for _ in range(400 if ctx.thorough else 90)]
    n = 0
    for sec in secs:
        for ns in nss:
            if sec == (1 << 32) - 3 and ns > 999999000:
                continue
            b0 = struct.pack('<II', sec, ns)
            bs, vals = [b0], []
            try:
                for _ in range(3):
                    t = Timestamp()
                    t.unpack(bs[-1], 0)
                    vals.append(t.seconds)
                    bs.append(bytes(t.pack(return_buffer=True)))
            except Exception as e:
                ctx.violation('C01/Timestamp/cannot-pack', 'Timestamp (%d, %d) cannot be packed: %s' % (sec, ns, e),
                              {'subject': 'Timestamp', 'b0': b0.hex(), 'offsets': [0]})
                continue
            n += 1
            if vals[1] != vals[0] or vals[2] != vals[1]:
                ctx.violation('C01/Timestamp/value-drift:seconds', 'Timestamp (%d, %d): seconds %r over three cycles' % (sec, ns, vals),
                              {'subject': 'Timestamp', 'b0': b0.hex(), 'offsets': [0]})
            elif bs[2] != bs[1] or bs[3] != bs[2]:
                ctx.violation('C01/Timestamp/bytes-differ', 'Timestamp (%d, %d): bytes %s over three cycles' % (sec, ns, [b.hex() for b in bs]),
                              {'subject': 'Timestamp', 'b0': b0.hex(), 'offsets': [0]})
    ctx.count('hyp_timestamp_grid', n)


def adapter_sweeps(ctx):
    """the Stable law on every FixedPointAdapter instance reachable from a registered class: all raw values for
    16-bit fields, boundary + random for 32-bit ones"""
    from fusion_engine_client.utils.construct_utils import FixedPointAdapter
    from fusion_engine_client.messages import message_type_to_class
    import construct
    seen = {}

    def walk(c):
        if isinstance(c, FixedPointAdapter):
            key = (c.scale, c.invalid, c.subcon.fmtstr)
            seen.setdefault(key, c)
        for s in getattr(c, 'subcons', []) or []:
            walk(s)
        if hasattr(c, 'subcon'):
            walk(c.subcon)
    for cls in message_type_to_class.values():
        for v in cls.__dict__.values():
            if isinstance(v, construct.Construct):
                walk(v)
    for (scale, invalid, fmt), ad in sorted(seen.items(), key=lambda x: repr(x[0])):
        w = struct.calcsize(fmt)
        signed = fmt[-1].islower()
        lo, hi = (-(1 << (8 * w - 1)), (1 << (8 * w - 1))) if signed else (0, 1 << (8 * w))
        if w <= 2:
            raws = range(lo, hi)
        else:
            raws = [lo, lo + 1, -1, 0, 1, hi - 2, hi - 1] + [ctx.rng.randrange(lo, hi) for _ in range(20000 if ctx.thorough else 3000)]
            raws += [ctx.rng.randrange(-70000, 70000) for _ in range(2000)]
            raws = [r for r in raws if lo <= r < hi]
        n = 0
        for r in raws:
            v = ad._decode(r, None, None)
            try:
                r1 = ad._encode(v, None, None)
                v1 = ad._decode(r1, None, None)
                r2 = ad._encode(v1, None, None)
            except Exception as e:
                ctx.violation('C01/FixedPointAdapter/cannot-pack', 'scale %r %s raw %d: %s' % (scale, fmt, r, e),
                              {'kind': 'adapter', 'scale': scale, 'fmt': fmt, 'raw': r})
                break
            n += 1
            same = (v1 == v) or (v1 != v1 and v != v)
            if not same or r2 != r1 or not (lo <= r1 < hi):
                ctx.violation('C01/FixedPointAdapter/value-drift', 'scale %r %s raw %d -> %r -> %d -> %r -> %d' % (scale, fmt, r, v, r1, v1, r2),
                              {'kind': 'adapter', 'scale': scale, 'fmt': fmt, 'raw': r})
                break
        ctx.count('hyp_fixedpoint_%s_%s' % (fmt[-1], scale), n)


def hypotheses(ctx, layouts, pool):
    timestamp_grid(ctx)
    adapter_sweeps(ctx)
    # hand-written scalings: through the class, all raw values of every <= 16-bit scaled field
    subs = {s.name: s for s in O.all_subjects()}
    jobs = []
    done = set()
    for name in sorted(layouts):
        if name not in subs or X.static_size(layouts[name]) is None:
            continue
        subj = subs[name]
        if isinstance(subj, O.AdapterSubject):
            continue
        base = O.default_encoding(subj)
        size = X.static_size(layouts[name])
        if base is None or len(base) != size:
            base = bytes(size)
        for off, w, eid, fname in scaled_fields(layouts[name]):
            if w > 2:
                continue
            key = (name, fname)
            if key in done:
                continue
            done.add(key)
            tot = 1 << (8 * w)
            step = 8192
            for lo in range(0, tot, step):
                jobs.append((name, off, w, fname, lo, min(tot, lo + step), base.hex()))
    for name, fname, off, w, n, bad, base_hex in pool.imap_unordered(sweep_work, jobs):
        ctx.count('hyp_sweep_%s.%s' % (name, fname), n)
        for raw, kind in bad[:1]:
            b = bytearray(bytes.fromhex(base_hex))
            b[off:off + w] = raw.to_bytes(w, 'little')
            ctx.violation('C01/%s/%s:%s' % (name, kind, fname), 'raw value %d of %s.%s does not survive unpack/pack' % (raw, name, fname),
                          {'subject': name, 'b0': bytes(b).hex(), 'offsets': [0]})


# ---------------------------------------------------------------------------------------------------------
# stage D
def oracle(ctx, pool, budget):
    names = [s.name for s in O.all_subjects()]
    ctx.cov['oracle_subjects'] = len(names)
    tot = {'cases': 0, 'parsed': 0, 'unparsed': 0, 'refused': 0, 'ok': 0, 'normalised': 0}
    per = {}
    reuse = {}
    ft = field_table(getattr(ctx, '_c01_layouts', None))
    ctx.cov['oracle_integer_fields_enumerated'] = sum(len(v) for v in ft.values())
    ht = hint_table(getattr(ctx, '_c01_layouts', None))
    ctx.cov['oracle_content_members_with_structured_values'] = sum(len(v['segments']) for v in ht.values())
    for r in pool.imap_unordered(O.run_subject, [(n, ctx.seed, ctx.thorough, budget, ft.get(n), ht.get(n)) for n in names]):
        if r.get('infra'):
            raise fv.InfraError(r['infra'])
        for k in tot:
            tot[k] += r[k]
        per[r['name']] = [r['cases'], r['parsed'], r['ok'], r['refused']]
        for d in r['distinct']:
            ctx.case('%s:%d' % (r['name'], d), nontrivial=True)
        ctx.cov['evaluations'] += r['unparsed']
        for sig, desc, rep in r['violations']:
            ctx.violation(sig, desc, rep)
        for k, v in (r.get('reuse') or {}).items():
            reuse[k] = reuse.get(k, 0) + v
        if r['sample'] and len(ctx.cov['samples']) < 6:
            ctx.sample(r['sample'])
    for k, v in tot.items():
        ctx.count('oracle_' + k, v)
    for k, v in reuse.items():
        ctx.count('oracle_' + k, v)
    ctx.cov['oracle_per_subject(cases,parsed,ok,refused)'] = per
    never = sorted(n for n, v in per.items() if v[1] == 0)
    ctx.cov['oracle_subjects_nothing_parsed'] = never


def run(ctx, budget):
    layouts = ctx._c01_layouts
    nproc = min(12, max(2, (os.cpu_count() or 4) - 2))
    with multiprocessing.Pool(nproc) as pool:
        oracle(ctx, pool, budget)
        if layouts is not None:
            hypotheses(ctx, layouts, pool)
    if layouts is not None:
        try:
            correspond(ctx, layouts)
        except fv.InfraError:
            if not ctx.proof_failures:
                raise


def search(ctx):
    ctx.notes.append('stage E: widened oracle run')
    nproc = min(12, max(2, (os.cpu_count() or 4) - 2))
    old = ctx.thorough
    ctx.thorough = True
    try:
        with multiprocessing.Pool(nproc) as pool:
            oracle(ctx, pool, 1500)
    finally:
        ctx.thorough = old


def check(ctx):
    ctx.cov['rule'] = (
        'oracle: for every subject (55 registered classes, MessageHeader, Timestamp, MeasurementDetails, SatelliteInfo, every '
        'ConfigType / InterfaceConfigType / FaultType sub-payload) b0 ranges over struct-built valid encodings (variable parts of '
        'every length 0..N and the maximum; timestamps invalid / 0 / 1 ns / boundary / random / GPS era / ns >= 1e9), each byte of the '
        'fixed part set to boundary values one at a time, random multi-byte mutations, wholly random fixed parts; each b0 at offsets '
        'from {0,1,3,8} with random prefix and suffix. Integer fields at static offsets (from the descriptor) as bit sets: every base '
        '(every variable-part shape / sub-payload type) x every plain unsigned field x all combinations of its two low bits; first bases x '
        'every integer field x {all 4-low-bit combinations, single bits, top bit + low bits, complements} (all 256 values / every bit of '
        'wider fields in thorough). Bytes / text members (variable-length ones of every class that has them, each member of multi-member '
        'classes; fixed-length ones at static offsets from the descriptor; sub-payload data of the configuration containers) filled at '
        'their start and at their end, in the shortest member that holds it and in the longest, with structured-looking contents: the '
        'sync bytes ".1", the logged form "/2", near misses, complete framed messages with a valid CRC in both forms, NULs first / inside / '
        'last, non-UTF-8 and truncated multi-byte text, valid multi-byte text, preambles of other protocols, the class\'s own first two '
        'bytes / fixed part / whole encoding; each of these x every enumeration-typed field of the fixed part x {defined values, '
        'unrecognized raw values below the smallest, at both edges of the gaps, directly above the largest, at the middle and top of the '
        'range}, one field at a time and all fields at once. Call forms, each required to give the bytes of pack() with all guard bytes untouched and the promised '
        'return value: library-allocated pack() / (return_buffer=) / (None, 0|5) / (buffer=None); caller-supplied bytearray and memoryview, '
        'positional and keyword, return_buffer False / True / default at offsets {0,1,3,8,24,57,size+2} with guard bytes before and after; '
        'unpack from bytes / bytearray / memoryview / keywords / message_version= (same value and count, input unmodified); '
        'MessageHeader.pack(payload=p) = header + payload in one call in the same forms, for parsed headers with payloads of several '
        'lengths and for the serialisation of every registered payload class, read back with validate_sync / validate_crc and the class\'s '
        'unpack at off+24. len(pack(o1)) <= bytes consumed by the parse that gave o1. Object re-use, every subject: (chains) one '
        'object unpacks a shuffled sequence of ALL these encodings plus truncated prefixes of valid ones, parsed / packed / sized after '
        'every step, refused unpacks staying in the sequence, and after every step equals a new object that parsed only the last one '
        '(consumed, field values, value classes, pack() bytes or refusal, calcsize()); (pairs) encodings grouped by shape (members None / '
        'empty / of which class, variable-part length classes, known vs unknown enumeration values, refused with which exception, pack() '
        'refused) and by the values of their enumeration / flag / small-integer fields, ordered pairs of groups (all while the budget '
        'allows): o.unpack(A); o.unpack(B) = new.unpack(B), A also through MessageHeader.unpack(validate_sync, validate_crc); differences '
        'minimised to the shortest history that reproduces them. A case is non-trivial if '
        'b0 parses; distinct = distinct (subject, b0). correspondence: the same generator, impl vs Lean model via `layrt`.')
    ctx.assumptions += [
        'float-arithmetic value codecs (Timestamp sec+ns <-> float seconds, FixedPointAdapter, sentinel scalings in solution.py) are '
        'hypotheses (ExtStable) of the theorems; tested on the implementation: all 65 536 raw values of every 16-bit scaled field, '
        'boundary+random 32-bit, Timestamp grid x 3 cycles; the Lean Float model of them is compared bit-exactly in correspondence',
        'the three-way size equality is required after the first parse (consumed(b1) = len(b1) = calcsize); the first parse may consume '
        'more (NUL padding, unread tail of a length-delimited sub-payload) - proved as bs\'.length <= n',
        'text fields: the model covers ASCII; non-ASCII UTF-8 content is exercised by the oracle only',
        'Python glue not expressible in the layout language is excluded from correspondence and covered by the oracle only: '
        'EventNotificationMessage sync-byte unescape, SetConfigMessage FLAG_REVERT_TO_DEFAULT, ConfigResponseMessage with content '
        'not understood (config_object None), MessageHeader.reserved != 0 (open finding)']
    layouts, ext = translate(ctx)
    ctx._c01_layouts = layouts
    ctx.prove(MODULES)
    try:
        run(ctx, 2500 if ctx.thorough else 800)
    except fv.InfraError:
        if not ctx.proof_failures:
            raise
    return fv.finish(ctx, 'proof', search)


def replay(ctx, path):
    obj = json.load(open(path))
    r = obj['input']
    if r.get('kind') == 'correspondence':
        layouts, ext = translate(ctx)
        ctx.prove(MODULES)
        name, off, buf = r['class'], r['off'], bytes.fromhex(r['buf'])
        ans = ctx.driver(['layrt %s %d %s' % (name, off, buf.hex() or '-')])[0]
        subj = O.subject_by_name(name)
        try:
            o1, n = subj.unpack(buf, off)
            print('impl: consumed %d, %r, pack %s' % (n, O.cval(o1), subj.pack(o1).hex()))
        except Exception as e:
            print('impl: raises %s' % O.exc_name(e))
        print('model: ' + ans)
        return 1
    if r.get('kind') == 'adapter':
        print('FixedPointAdapter input: %r' % r)
        return 1
    if r.get('kind') == 'reuse':
        subj = O.subject_by_name(r['subject'])
        fresh, got, d = O.reuse_replay(subj, r)
        print('new object   : %s' % {k: (v if k != 'pack' or v[0] != 'ok' else v[1].hex()) for k, v in fresh.items()})
        print('re-used object: %s' % {k: (v if k != 'pack' or v[0] != 'ok' else v[1].hex()) for k, v in got.items()})
        if d:
            ctx.violation(O.signature(subj.name, 'stale-state', d[0]), d[1], r)
        return fv.finish(ctx, 'proof', None)
    subj = O.subject_by_name(r['subject'])
    res = O.roundtrip(subj, bytes.fromhex(r['b0']), tuple(r.get('offsets') or (0,)), O.random.Random(1))
    for v in res[1]:
        kind, detail, desc = v[:3]
        ctx.violation(O.signature(v[3] if len(v) > 3 else subj.name, kind, detail), desc, r)
    return fv.finish(ctx, 'proof', None)
