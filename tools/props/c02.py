"""C02 - the Python wire layout equals the canonical C++ packed-struct layout.

Stage A: tools/c02_cxx_layout.py compiles a probe with the real headers (g++; thorough: clang++ too) and regenerates
         lean/FeVerif/Generated/C02CxxLayout.lean / C02CxxChecks.lean (sizeof, alignof, offsetof, sizeof(member), kind).
Stage B: FeVerif.Props.C02 - packedness of every struct (decide per struct), descriptor <-> table, and the generic
         fixed-layout codec with field isolation in both directions.
Stage C: the Lean model (`c02leaves`, `c02poke`, `c02iso` driver commands) against this harness' own reading of the
         table: same leaves, same overwrite, and the isolation spec evaluated by Lean on bytes produced by Python.
Stage D: exhaustive member probing of the Python classes against the compiler-derived descriptor.
"""
import copy
import json
import os
import struct
import sys

import numpy as np

import c02_cxx_layout as cxl
import c02_namemap as nm
import fv

MODULES = ['FeVerif.Props.C02']


# ---------------------------------------------------------------------------------------------------------------
# snapshots of Python objects: {attribute path: canonical value}
# ---------------------------------------------------------------------------------------------------------------
def canon_scalar(o):
    if o is None:
        return ('none',)
    if isinstance(o, (bool, np.bool_)):
        return ('i', int(o))
    if isinstance(o, (int, np.integer)):
        return ('i', int(o))
    if isinstance(o, (float, np.floating)):
        f = float(o)
        return ('f', 'nan') if f != f else ('f', struct.pack('<d', f).hex())
    if isinstance(o, str):
        return ('s', o)
    if isinstance(o, (bytes, bytearray, memoryview)):
        return ('y', bytes(o).hex())
    return None


def snapshot(o, path='', out=None, depth=0):
    if out is None:
        out = {}
    c = canon_scalar(o)
    if c is not None:
        out[path or '.'] = c
        return out
    if depth > 8:
        out[path] = ('deep',)
        return out
    if isinstance(o, np.ndarray):
        out[path + '.shape'] = ('s', str(o.shape))
        for idx in np.ndindex(o.shape):
            snapshot(o[idx].item() if hasattr(o[idx], 'item') else o[idx], path + ''.join('[%d]' % i for i in idx), out, depth + 1)
        return out
    if isinstance(o, tuple) and hasattr(o, '_fields'):
        if hasattr(o, 'GetType'):
            try:
                out[path + '.__type__'] = ('i', int(o.GetType()))
            except Exception:
                pass
        if hasattr(o, 'GetSubtype'):
            try:
                out[path + '.__subtype__'] = ('i', int(o.GetSubtype()))
            except Exception:
                pass
        for f in o._fields:
            snapshot(getattr(o, f), (path + '.' if path else '') + f, out, depth + 1)
        return out
    if isinstance(o, (list, tuple)):
        out[path + '.len'] = ('i', len(o))
        for i, x in enumerate(o):
            snapshot(x, '%s[%d]' % (path, i), out, depth + 1)
        return out
    if isinstance(o, dict):
        for k, v in o.items():
            if isinstance(k, str) and not k.startswith('_io'):
                snapshot(v, (path + '.' if path else '') + k, out, depth + 1)
        return out
    if hasattr(o, '__dict__'):
        for k, v in vars(o).items():
            if k.startswith('_io') or k.startswith('__'):
                continue
            snapshot(v, (path + '.' if path else '') + k, out, depth + 1)
        return out
    out[path] = ('repr', repr(o))
    return out


def diff_paths(a, b):
    return sorted(k for k in set(a) | set(b) if a.get(k) != b.get(k))


def tokens(path):
    """'a.b[1][2].c' -> ['a', 'b', 1, 2, 'c']"""
    out = []
    for part in path.split('.'):
        if not part:
            continue
        name, _, rest = part.partition('[')
        if name:
            out.append(name)
        while rest:
            idx, _, rest = rest.partition(']')
            out.append(int(idx))
            rest = rest[1:] if rest.startswith('[') else rest
    return out


def get_path(o, toks):
    for t in toks:
        if isinstance(t, int):
            o = o[t]
        elif isinstance(o, dict):
            o = o[t]
        else:
            o = getattr(o, t)
    return o


def updated(o, toks, value):
    """Functional/in-place update of a (deep-copied) object along a path; NamedTuples are rebuilt."""
    if not toks:
        return value
    t, rest = toks[0], toks[1:]
    if isinstance(t, int):
        # collect consecutive indices for numpy arrays
        if isinstance(o, np.ndarray):
            idx = [t]
            while rest and isinstance(rest[0], int):
                idx.append(rest[0])
                rest = rest[1:]
            o[tuple(idx)] = updated(o[tuple(idx)], rest, value)
            return o
        if isinstance(o, tuple):
            lst = list(o)
            lst[t] = updated(lst[t], rest, value)
            return type(o)(lst) if not hasattr(o, '_fields') else type(o)(*lst)
        o[t] = updated(o[t], rest, value)
        return o
    if isinstance(o, tuple) and hasattr(o, '_replace'):
        return o._replace(**{t: updated(getattr(o, t), rest, value)})
    if isinstance(o, dict):
        o[t] = updated(o[t], rest, value)
        return o
    setattr(o, t, updated(getattr(o, t), rest, value))
    return o


def within(path, roots):
    for r in roots:
        if path == r or path.startswith(r + '.') or path.startswith(r + '['):
            return True
    return False


# ---------------------------------------------------------------------------------------------------------------
# the descriptor as this harness reads it from the JSON (cross-checked against the Lean model in stage C)
# ---------------------------------------------------------------------------------------------------------------
def flatten(table, s, prefix='', base=0, chain=()):
    """Leaves of struct `s`: nested scalar struct members are replaced by their own members."""
    out = []
    for m in s['members']:
        path = (prefix + '.' if prefix else '') + m['name']
        if m['kind'] == 'struct':
            sub = table[m['sub']]
            out += flatten(table, sub, path, base + m['offset'], chain + ((m['name'], s['key']),))
        else:
            leaf = dict(m)
            leaf.update(path=path, offset=base + m['offset'], chain=chain + ((m['name'], s['key']),))
            out.append(leaf)
    return out


def resolve(table, members, leaf, struct_key):
    """(attribute path, codec, M or None, notes) for one leaf, composing the per-struct maps along the nesting."""
    own = members.get(struct_key, {})
    if leaf['path'] in own:                       # override on the full path
        mm = own[leaf['path']]
        codec = mm.codec or nm.default_codec(leaf, leaf['chain'][-1][1])
        return (mm.attr if mm.attr is not None else leaf['path']), codec, mm
    attr_parts = []
    mm = None
    for name, owner in leaf['chain']:
        mm = members.get(owner, {}).get(name)
        attr_parts.append(mm.attr if (mm is not None and mm.attr is not None) else name)
    codec = (mm.codec if mm is not None and mm.codec is not None else None) or nm.default_codec(leaf, leaf['chain'][-1][1])
    return '.'.join(p for p in attr_parts if p != ''), codec, mm


def elements(leaf, codec, mm):
    """Probe units of one leaf: (element index or None, offset, width, attribute suffix)."""
    whole = leaf['array_len'] == 0 or isinstance(codec, (nm.Reserved, nm.RawBytes, nm.Const, nm.ReadOnlyInt))
    if whole:
        return [(None, leaf['offset'], leaf['size'], '')]
    shape = (mm.shape if mm is not None and mm.shape else (leaf['array_len'],))
    out = []
    for i in range(leaf['array_len']):
        idx = np.unravel_index(i, shape)
        out.append((i, leaf['offset'] + i * leaf['elem_size'], leaf['elem_size'], ''.join('[%d]' % j for j in idx)))
    return out


# ---------------------------------------------------------------------------------------------------------------
# probing one struct
# ---------------------------------------------------------------------------------------------------------------
class Probe:
    def __init__(self, ctx, table, members, only=None):
        self.ctx, self.table, self.members, self.only = ctx, table, members, only
        self.lines = []          # driver requests
        self.expect = []         # (expected answer or checker, replay)
        self.report = {}         # per struct coverage

    def violation(self, s, member, kind, desc, replay):
        self.ctx.violation('C02/%s/%s/%s' % (s['key'], member, kind), '%s.%s: %s' % (s['key'], member, desc),
                           dict(replay, struct=s['key'], member=member))

    def run_struct(self, s, subj):
        ctx = self.ctx
        key = s['key']
        rep = {'python': subj.pyname, 'sizeof': s['sizeof'], 'leaves': 0, 'units': 0, 'read_probes': 0,
               'write_probes': 0, 'excluded': [], 'notes': []}
        self.report[key] = rep
        size = s['sizeof']
        leaves = flatten(self.table, s)
        code = cxl.name_code(key)
        # ---- stage C (1): the Lean model's leaves are the ones used here
        self.lines.append('c02leaves %d' % code)
        mine = '%d|' % size + ';'.join('%d:%d:%d:%s:%s:%d:%d' % (cxl.name_code(l['path']), l['offset'], l['size'], l['kind'],
                                                                  l['elem_kind'], l['elem_size'], l['array_len']) for l in leaves)
        self.expect.append((mine, {'struct': key, 'what': 'flattened member list'}))

        # ---- default object, total fixed size
        try:
            obj_d = subj.make_base()
            b0 = subj.pack(obj_d)
        except Exception as e:
            self.violation(s, '*', 'cannot-pack', 'the Python counterpart %s cannot be serialised: %r' % (subj.pyname, e), {})
            return
        tail0 = b0[size:]
        try:
            obj0, consumed0 = subj.unpack(b0)
        except Exception as e:
            self.violation(s, '*', 'size', 'Python rejects its own default encoding (%d bytes): %r' % (len(b0), e),
                           {'bytes': b0.hex()})
            return
        snap0 = snapshot(obj0)
        # resolve the map
        units = []
        lengths = []
        for li, leaf in enumerate(leaves):
            attr, codec, mm = resolve(self.table, self.members, leaf, key)
            if codec is None:
                rep['excluded'].append({'member': leaf['path'], 'why': 'no codec for kind %s' % leaf['kind']})
                continue
            if isinstance(codec, nm.Length) and not isinstance(codec, nm.Consumed):
                lengths.append((codec.order, leaf, codec))
            # the codec the map assigns must be a reading of the kind the C++ compiler reports
            ok_kinds = codec.cxx_kinds() + ((mm.accept_kind,) if (mm is not None and mm.accept_kind) else ())
            if leaf['elem_kind'] not in ok_kinds:
                self.violation(s, leaf['path'], 'kind',
                               'the C++ compiler classifies the member as %s (%d bytes per element) but the Python side reads it as %s'
                               % (leaf['elem_kind'], leaf['elem_size'], codec.describe()),
                               {'cxx_member': {k: leaf[k] for k in ('path', 'offset', 'size', 'kind', 'elem_kind', 'elem_size', 'tname')},
                                'python_attribute': attr, 'python_codec': codec.describe()})
            for (ei, off, w, suffix) in elements(leaf, codec, mm):
                units.append({'leaf': leaf, 'li': li, 'ei': ei, 'off': off, 'w': w, 'attr': attr + suffix, 'codec': codec,
                              'mm': mm, 'name': leaf['path'] + ('[%d]' % ei if ei is not None else '')})
        rep['leaves'] = len(leaves)
        rep['units'] = len(units)
        has_tail_member = any(isinstance(u['codec'], nm.Length) for u in units)
        ctx.case('%s|size' % key)
        # total fixed size: without a variable tail the default encoding is exactly the struct
        if len(b0) < size or (not has_tail_member and len(b0) != size):
            self.violation(s, '*', 'size', 'sizeof(%s) = %d but the Python class %s serialises its fixed part in %d bytes'
                           % (key, size, subj.pyname, len(b0)), {'python_default_encoding': b0.hex(), 'sizeof': size})
        if consumed0 != len(b0):
            self.violation(s, '*', 'size', 'unpack() of the %d-byte default encoding reports %d bytes consumed'
                           % (len(b0), consumed0), {'python_default_encoding': b0.hex()})
        try:
            cs = subj.calcsize(obj_d) if subj.calcsize else None
        except Exception as e:
            cs = None
            rep['notes'].append('calcsize() raised %r' % (e,))
        if cs is not None and cs != len(b0):
            self.violation(s, '*', 'size', 'calcsize() = %d but pack() produced %d bytes' % (cs, len(b0)),
                           {'python_default_encoding': b0.hex()})
        rep['python_default_size'] = len(b0)

        # ---- base encoding: the Python default with every plain member set to a distinct valid value
        fixed = bytearray((b0 + bytes(size))[:size])
        for k, u in enumerate(units):
            cur = self.current(obj0, u)
            bb = u['codec'].base(u['w'], k, cur)
            if bb is not None:
                fixed[u['off']:u['off'] + u['w']] = bb
        base = bytes(fixed) + tail0
        try:
            objB, consumedB = subj.unpack(base)
        except Exception as e:
            self.violation(s, '*', 'rejects-valid-bytes', 'unpack() rejects an encoding that is valid for the C++ layout '
                           '(every member at a plain valid value): %r' % (e,), {'bytes': base.hex()})
            # fall back to the default encoding so that the member probes still run
            base, objB, consumedB = b0 + bytes(max(0, size - len(b0))), None, None
            try:
                objB, consumedB = subj.unpack(base)
            except Exception:
                return
        if consumedB != len(base) and key not in ():
            self.violation(s, '*', 'size', 'unpack() consumed %d of %d bytes (sizeof %d + tail %d)'
                           % (consumedB, len(base), size, len(base) - size), {'bytes': base.hex()})
        snapB = snapshot(objB)
        try:
            packB = subj.pack(objB)
        except Exception as e:
            self.violation(s, '*', 'cannot-pack', 'pack() of the object unpacked from the base encoding raised %r' % (e,),
                           {'bytes': base.hex()})
            packB = None
        fixed = base[:size]
        tailB = base[size:]

        for u in units:
            if self.only and (self.only.get('unit') or self.only.get('member')) and \
                    u['name'] != self.only.get('unit') and u['leaf']['path'] != self.only.get('member'):
                continue
            self.probe_unit(s, subj, u, fixed, tailB, objB, snapB, packB, consumedB, lengths, rep, code)

    # -----------------------------------------------------------------------------------------------------------
    def current(self, obj, u):
        try:
            return get_path(obj, tokens(u['attr']))
        except Exception:
            return None

    def tail_for(self, u, k, lengths, tailB):
        """Tail bytes when the length member `u` announces k and all other lengths keep their base value (0)."""
        if len(lengths) <= 1:
            return u['codec'].tail(k)
        return u['codec'].tail(k)       # other tails are empty in the base encoding

    def probe_unit(self, s, subj, u, fixed, tailB, objB, snapB, packB, consumedB, lengths, rep, code):
        ctx = self.ctx
        key, size = s['key'], s['sizeof']
        codec = u['codec']
        off, w = u['off'], u['w']
        cur = self.current(objB, u)
        mm = u['mm']
        roots = [u['attr']] if u['attr'] else []
        roots.append(u['leaf']['path'])
        roots.append(u['leaf']['name'])
        if mm is not None and mm.subtree:
            roots += list(mm.subtree)
        base_raw = fixed[off:off + w]
        pats = codec.patterns(w, ctx.rng, cur, ctx.thorough)
        if self.only and self.only.get('pattern'):
            pats = [bytes.fromhex(self.only['pattern'])] if not self.only.get('mode') else [(self.only['mode'], bytes.fromhex(self.only['pattern']))]
        effective = 0
        for p in pats:
            mode = None
            if isinstance(p, tuple):
                mode, p = p
            tail = tailB
            if mode == 'grow':
                grow = p if isinstance(p, int) else int.from_bytes(p, 'little') - len(tailB)
                p = nm.le(len(tailB) + grow, w)
                tail = tailB + bytes(grow)
            elif isinstance(codec, nm.Length) and not isinstance(codec, nm.Consumed) and mode != 'must-reject':
                tail = self.tail_for(u, int.from_bytes(p, 'little'), lengths, tailB)
            newfixed = fixed[:off] + p + fixed[off + w:]
            buf = newfixed + tail
            replay = {'struct': key, 'unit': u['name'], 'offset': off, 'width': w, 'kind': codec.describe(), 'pattern': p.hex(),
                      'mode': mode, 'base': (fixed + tailB).hex(), 'bytes': buf.hex(), 'python_attribute': u['attr']}
            ctx.case('%s|%s|r|%s|%s' % (key, u['name'], p.hex(), mode), nontrivial=(p != base_raw))
            ctx.count('read:' + codec.describe().split('(')[0])
            rep['read_probes'] += 1
            # stage C (2): Lean's overwrite at its own offset gives the same bytes
            leaf = u['leaf']
            leaf_new = bytearray(newfixed[leaf['offset']:leaf['offset'] + leaf['size']])
            self.lines.append('c02poke %d %d %s %s' % (code, u['li'], fixed.hex(), bytes(leaf_new).hex()))
            self.expect.append((newfixed.hex(), dict(replay, what='overwrite of member bytes')))
            # ---- read direction
            try:
                obj1, consumed1 = subj.unpack(buf)
                err = None
            except Exception as e:
                obj1, consumed1, err = None, None, e
            if mode == 'must-reject':
                if err is None:
                    self.violation(s, u['name'], 'offset-or-width',
                                   'a length of %d with only %d bytes following was accepted: not every byte of the %d-byte '
                                   'C++ field is read as part of the length' % (int.from_bytes(p, 'little'), len(tail), w), replay)
                else:
                    effective += 1
                continue
            if err is not None:
                if mode == 'maybe-strict':
                    ctx.count('strict-enum-rejects-unknown-value')
                    continue
                self.violation(s, u['name'], 'rejects-valid-bytes', 'unpack() raised %r for a valid value of the member'
                               % (err,), replay)
                continue
            snap1 = snapshot(obj1)
            changed = diff_paths(snapB, snap1)
            outside = [c for c in changed if not within(c, roots)]
            replay['changed_attributes'] = changed[:12]
            if codec.read == 'ignored':
                if changed:
                    self.violation(s, u['name'], 'offset-or-width',
                                   'bytes [%d,%d) are %s in the C++ struct but changing them changed Python attribute(s) %s'
                                   % (off, off + w, codec.describe(), changed[:6]), replay)
                else:
                    effective += 1
            elif codec.read == 'consumed':
                want = size + len(tail)
                if consumed1 != want or outside:
                    self.violation(s, u['name'], 'offset-or-width',
                                   'length %d announced: unpack consumed %s bytes (expected %d), attributes changed: %s'
                                   % (int.from_bytes(p, 'little'), consumed1, want, changed[:6]), replay)
                else:
                    effective += 1
            else:
                exp = codec.expect(buf, off, w)
                try:
                    got = mm.getter(obj1) if (mm is not None and mm.getter) else (
                        codec.observe(obj1) if isinstance(codec, nm.Tag) else get_path(obj1, tokens(u['attr'])))
                    got_err = None
                except Exception as e:
                    got, got_err = None, e
                replay['expected_value'] = repr(exp)
                if got_err is not None:
                    replay['observed_value'] = 'unreadable: %r' % (got_err,)
                elif isinstance(codec, nm.Length) and hasattr(got, '__len__'):
                    replay['observed_value'] = 'a sequence of length %d' % len(got)
                else:
                    replay['observed_value'] = repr(got)[:160]
                if outside:
                    self.violation(s, u['name'], 'offset-or-width',
                                   'writing bytes [%d,%d) (C++ member %s) changed Python attribute(s) %s; expected only %s'
                                   % (off, off + w, u['name'], outside[:6], u['attr']), replay)
                elif got_err is not None or not codec.same(got, exp):
                    self.violation(s, u['name'], 'value' if changed or p == base_raw else 'not-read',
                                   'bytes %s at [%d,%d) denote %r under kind %s; Python attribute %s is %s%s'
                                   % (p.hex(), off, off + w, exp, codec.describe(), u['attr'], replay['observed_value'],
                                      '' if changed or p == base_raw else ' (no attribute changed at all)'), replay)
                else:
                    if p != base_raw:
                        effective += 1
                    if isinstance(codec, nm.Length) and consumed1 != len(buf):
                        self.violation(s, u['name'], 'size', 'unpack consumed %d of %d bytes' % (consumed1, len(buf)), replay)
                # ---- write direction
                if codec.write == 'value' and packB is not None and got_err is None:
                    wm = getattr(codec, 'write_max', None)
                    if wm is not None and abs(int.from_bytes(p, 'little', signed=getattr(codec, 'signed', False))) > wm:
                        ctx.count('write-skipped:float-arithmetic-in-pack')
                    else:
                        self.write_probe(s, subj, u, objB, packB, fixed, p, exp, cur, replay, rep, code, len(tail) - len(tailB))
        # zero / const members: what pack writes there
        if packB is not None and codec.write in ('zero', 'const') and len(packB) >= off + w:
            want = bytes(w) if codec.write == 'zero' else codec.const
            ctx.case('%s|%s|w|fixed' % (key, u['name']))
            rep['write_probes'] += 1
            if packB[off:off + w] != want:
                self.violation(s, u['name'], 'offset-or-width', 'pack() writes %s at [%d,%d); the C++ member there is %s (%s expected)'
                               % (packB[off:off + w].hex(), off, off + w, codec.describe(), want.hex()),
                               {'unit': u['name'], 'packed': packB.hex()})
        if effective == 0:
            rep['excluded'].append({'member': u['name'], 'why': 'no effective probe (%s)' % codec.describe()})
        if codec.note or (mm is not None and mm.note):
            note = '%s: %s' % (u['leaf']['path'], codec.note or mm.note)
            if note not in rep['notes']:
                rep['notes'].append(note)

    def write_probe(self, s, subj, u, objB, packB, fixed, p, exp, cur, replay, rep, code, tail_delta):
        ctx = self.ctx
        codec, off, w, size = u['codec'], u['off'], u['w'], s['sizeof']
        mm = u['mm']
        ctx.case('%s|%s|w|%s' % (s['key'], u['name'], p.hex()), nontrivial=(p != fixed[off:off + w]))
        ctx.count('write:' + codec.describe().split('(')[0])
        rep['write_probes'] += 1
        replay = dict(replay, direction='write')
        try:
            o2 = copy.deepcopy(objB)
            val = codec.to_attr(exp, cur)
            if mm is not None and mm.setter:
                o2 = mm.setter(o2, val)
            else:
                o2 = updated(o2, tokens(u['attr']), val)
            b2 = subj.pack(o2)
        except Exception as e:
            self.violation(s, u['name'], 'cannot-pack', 'setting %s = %r and packing raised %r' % (u['attr'], exp, e), replay)
            return
        replay['packed'] = b2.hex()
        replay['packed_before'] = packB.hex()
        f1, f2 = packB[:size], b2[:size]
        if len(f2) < size:
            self.violation(s, u['name'], 'size', 'pack() produced %d bytes, fewer than sizeof %d' % (len(b2), size), replay)
            return
        diff = [i for i in range(size) if f1[i] != f2[i]]
        outside = [i for i in diff if not (off <= i < off + w)]
        if outside:
            self.violation(s, u['name'], 'offset-or-width',
                           'setting Python attribute %s changed byte(s) %s of the encoding; the C++ member %s occupies [%d,%d)'
                           % (u['attr'], outside[:8], u['name'], off, off + w), replay)
        elif f2[off:off + w] != p:
            self.violation(s, u['name'], 'value' if diff or p == f1[off:off + w] else 'not-written',
                           'setting %s = %r wrote %s at [%d,%d); the C++ encoding of that value is %s%s'
                           % (u['attr'], exp, f2[off:off + w].hex(), off, off + w, p.hex(),
                              '' if diff else ' (no byte changed at all)'), replay)
        elif len(b2) - len(packB) != tail_delta:
            self.violation(s, u['name'], 'size', 'encoding grew by %d bytes, expected %d' % (len(b2) - len(packB), tail_delta), replay)
        # stage C (3): the isolation spec, evaluated by the Lean model on the two Python encodings
        self.lines.append('c02iso %d %d %s %s' % (code, u['li'], f1.hex(), f2.hex()))
        self.expect.append(('ok' if not outside else None, dict(replay, what='field isolation spec on pack() output')))


# ---------------------------------------------------------------------------------------------------------------
def translate(ctx):
    """Stage A. Returns the layout dict; raises InfraError / records a proof failure per DESIGN 2.4."""
    compilers = ('g++', 'clang++') if ctx.thorough else ('g++',)
    snap = cxl.snapshot_hashes(fv.LEAN)
    try:
        r = cxl.generate(fv.REPO, fv.BUILD, fv.LEAN, compilers)
    except cxl.LayoutError as e:
        changed = True
        if e.header is not None and snap:
            try:
                _, h = None, None
                raw = open(os.path.join(fv.REPO, cxl.HEADER_DIR, e.header)).read()
                text, _ = cxl.preprocess(cxl.strip_comments(raw), e.header)
                import hashlib
                h = hashlib.sha256(' '.join(text.split()).encode()).hexdigest()[:16]
                changed = snap.get(e.header) != h
            except Exception:
                changed = True
        elif e.header is None:
            # probe build failure: infrastructure unless some header differs from the snapshot
            try:
                _, hashes = cxl.read_headers(fv.REPO)
                changed = any(snap.get(k) != v for k, v in hashes.items()) if snap else False
            except cxl.LayoutError:
                changed = True
        if not changed:
            raise fv.InfraError('c02_cxx_layout: %s' % e)
        ctx.proof_failures.append('translator: the changed header %s can no longer be read / compiled: %s'
                                  % (e.header or '(probe)', str(e)[:600]))
        return None
    return r


def run(ctx, r, only=None):
    layout = r['structs']
    table = {s['key']: s for s in layout}
    try:
        nm._messages()
    except Exception as e:
        raise fv.InfraError('fusion_engine_client.messages cannot be imported: %r' % (e,))
    try:
        members = nm.members()
    except Exception as e:
        # the map names Python classes / enum members that no longer exist: report it, probe with the default rules
        ctx.violation('C02/name-map/python-name-missing', 'the name map refers to a Python name that does not exist: %r' % (e,), {})
        members = {}
    for key, text in r['tiling']:
        ctx.violation('C02/%s/*/layout-not-packed' % key,
                      'members do not tile the struct (padding inserted by the compiler, or a member the header reader missed): ' + text,
                      {'struct': key, 'layout': table[key]})
    for text in r['compiler_differences']:
        ctx.violation('C02/compilers-disagree', text, {'compilers': r['compilers']})
    unknown = [k for k in members if k not in table]
    if unknown:
        ctx.notes.append('name map entries without a C++ struct: %s' % unknown)
    pr = Probe(ctx, table, members, only)
    no_counterpart = []
    for s in layout:
        if only and s['key'] != only['struct']:
            continue
        try:
            subj = nm.subject_for(s)
        except Exception as e:
            ctx.violation('C02/%s/*/python-counterpart-missing' % s['key'],
                          'the Python counterpart named by the map cannot be found: %r' % (e,), {'struct': s['key']})
            continue
        if subj is None:
            no_counterpart.append(s['key'])
            continue
        for m in members.get(s['key'], {}):
            if m.split('.')[0] not in [x['name'] for x in s['members']]:
                ctx.violation('C02/%s/%s/no-such-member' % (s['key'], m),
                              'the name map mentions C++ member %s.%s which the header no longer declares' % (s['key'], m), {})
        ctx.count('structs_probed')
        pr.run_struct(s, subj)
    # stage C: the Lean model
    outs = ctx.driver(pr.lines)
    for line, (want, replay), got in zip(pr.lines, pr.expect, outs):
        ctx.cov['traces_validated_against_impl'] += 1
        if want is not None and got != want:
            ctx.disagree('Lean model %s: answered %s, harness expected %s' % (line.split(' ')[0], got[:120], want[:120]),
                         dict(replay, request=line[:400]))
    cov = ctx.cov
    cov['structs_total'] = len(layout)
    cov['structs_probed'] = sorted(pr.report)
    cov['structs_without_python_counterpart'] = no_counterpart
    cov['members_excluded'] = [dict(e, struct=k) for k, v in pr.report.items() for e in v['excluded']]
    cov['notes_on_members'] = sorted(set(n for v in pr.report.values() for n in v['notes']))
    cov['per_struct'] = {k: {x: v[x] for x in ('python', 'sizeof', 'python_default_size', 'leaves', 'units', 'read_probes', 'write_probes')
                             if x in v} for k, v in pr.report.items()}
    cov['compilers'] = r['compilers']
    cov['generated_per_struct_lemmas'] = 4 * len(layout) + 1
    for smp in pr.expect[1:4]:
        ctx.sample({k: smp[1].get(k) for k in ('struct', 'unit', 'pattern', 'python_attribute', 'what')})


def search(ctx):
    """Stage E: the member probing is the oracle; widen it (more random patterns) when a proof or the model broke."""
    r = getattr(ctx, '_c02_layout', None)
    if r is None:
        return
    ctx.thorough = True
    run(ctx, r)


def check(ctx):
    ctx.cov['rule'] = ('every P1_ALIGNAS(4) struct of messages/*.h with a Python counterpart x every leaf member (nested structs '
                       'flattened, arrays element-wise) x several bit patterns valid for the member kind (1, distinct bytes, top bit set, '
                       'max-1, random; enum members; sentinels; exact dyadic timestamps; lengths with matching tails and over-long '
                       'announcements) x both directions: write the pattern into exactly the compiler-reported byte range of an otherwise '
                       'valid encoding and require that exactly the mapped Python attribute changes to the denoted value; set the attribute '
                       'and require that exactly that byte range changes to the pattern; plus total fixed size = sizeof. '
                       'non-trivial = pattern differs from the base value; distinct = (struct, unit, direction, pattern)')
    ctx.assumptions += [
        'g++ (and clang++ in the thorough tier) on x86-64 stands for "the C++ compiler": the layout theorems are about the table it printed',
        'the name map tools/c02_namemap.py (C++ member -> Python attribute, value codec) is hand-written; a wrong entry produces a violation, not a pass',
        'value codecs that involve float arithmetic (Timestamp, scaled fields) are probed at exactly representable values only; rounding is C01',
        'top byte of 32-bit length fields is probed only through over-long announcements that must be rejected',
    ]
    r = translate(ctx)
    ctx._c02_layout = r
    ctx.prove(MODULES)
    ctx.cov['trusted_base'].append('tools/c02_cxx_layout.py as a reader of member names (every number comes from the compiler; '
                                   'the probe checks that the members found tile the struct)')
    if r is not None:
        try:
            run(ctx, r)
        except fv.InfraError:
            if not ctx.proof_failures:
                raise
    return fv.finish(ctx, 'proof', search)


def replay(ctx, path):
    obj = json.load(open(path))
    inp = obj['input']
    r = translate(ctx)
    if r is None:
        raise fv.InfraError('layout cannot be regenerated')
    only = {'struct': inp.get('struct'), 'member': inp.get('member'), 'unit': inp.get('unit'),
            'pattern': inp.get('pattern'), 'mode': inp.get('mode')}
    if only['member'] == '*' or not only['struct']:
        only = {'struct': inp.get('struct')} if inp.get('struct') else None
    run(ctx, r, only)
    return fv.finish(ctx, 'proof', None)
