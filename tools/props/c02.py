"""C02 - the Python wire layout equals the canonical C++ packed-struct layout.

Stage A: tools/c02_cxx_layout.py compiles a probe with the real headers (g++; thorough: clang++ too) and regenerates
         lean/FeVerif/Generated/C02CxxLayout.lean / C02CxxChecks.lean (sizeof, alignof, offsetof, sizeof(member), kind).
Stage B: FeVerif.Props.C02 - packedness of every struct (decide per struct), descriptor <-> table, and the generic
         fixed-layout codec with field isolation in both directions.
Stage C: the Lean model (`c02leaves`, `c02poke`, `c02iso` driver commands) against this harness' own reading of the
         table: same leaves, same overwrite, and the isolation spec evaluated by Lean on bytes produced by Python.
Stage D: exhaustive member probing of the Python classes against the compiler-derived descriptor, in every call form:
         pack() / pack(buffer, offset) into caller-supplied buffers at zero and non-zero offsets, unpack(buffer) /
         unpack(buffer, offset), and array members given in every equivalent spelling of one logical value.
         Value classes behind a type tag (configuration values, fault payloads): every class x values shared between
         classes of one field shape x several orders in this one process, through every carrier message, against the
         C++ image for that class (payload size as documented per tag in the header, struct sizes from the compiler).
         Entry points that are told the message version: every encoding the member probes unpack is also decoded with
         unpack(buffer, offset, message_version = the C++ struct's MESSAGE_VERSION, from the compiler), framed with a header
         carrying that version and decoded by FusionEngineDecoder, and written to a log file read by MixedLogReader
         (sequentially and through its index); at the current C++ version every member's bytes must land as without it.
"""
import copy
import json
import os
import shutil
import struct
import sys
import tempfile

import numpy as np

import c02_cxx_layout as cxl
import c02_namemap as nm
import fv

MODULES = ['FeVerif.Props.C02']


# ---------------------------------------------------------------------------------------------------------------
# snapshots of Python objects: {attribute path: canonical value}
# ---------------------------------------------------------------------------------------------------------------
def canon_scalar(o):
    if o is None:
        return ('none',)
    if isinstance(o, (bool, np.bool_)):
        return ('i', int(o))
    if isinstance(o, (int, np.integer)):
        return ('i', int(o))
    if isinstance(o, (float, np.floating)):
        f = float(o)
        return ('f', 'nan') if f != f else ('f', struct.pack('<d', f).hex())
    if isinstance(o, str):
        return ('s', o)
    if isinstance(o, (bytes, bytearray, memoryview)):
        return ('y', bytes(o).hex())
    return None


def snapshot(o, path='', out=None, depth=0):
    if out is None:
        out = {}
    c = canon_scalar(o)
    if c is not None:
        out[path or '.'] = c
        return out
    if depth > 8:
        out[path] = ('deep',)
        return out
    if isinstance(o, np.ndarray):
        out[path + '.shape'] = ('s', str(o.shape))
        for idx in np.ndindex(o.shape):
            snapshot(o[idx].item() if hasattr(o[idx], 'item') else o[idx], path + ''.join('[%d]' % i for i in idx), out, depth + 1)
        return out
    if isinstance(o, tuple) and hasattr(o, '_fields'):
        if hasattr(o, 'GetType'):
            try:
                out[path + '.__type__'] = ('i', int(o.GetType()))
            except Exception:
                pass
        if hasattr(o, 'GetSubtype'):
            try:
                out[path + '.__subtype__'] = ('i', int(o.GetSubtype()))
            except Exception:
                pass
        for f in o._fields:
            snapshot(getattr(o, f), (path + '.' if path else '') + f, out, depth + 1)
        return out
    if isinstance(o, (list, tuple)):
        out[path + '.len'] = ('i', len(o))
        for i, x in enumerate(o):
            snapshot(x, '%s[%d]' % (path, i), out, depth + 1)
        return out
    if isinstance(o, dict):
        for k, v in o.items():
            if isinstance(k, str) and not k.startswith('_io'):
                snapshot(v, (path + '.' if path else '') + k, out, depth + 1)
        return out
    if hasattr(o, '__dict__'):
        for k, v in vars(o).items():
            if k.startswith('_io') or k.startswith('__'):
                continue
            snapshot(v, (path + '.' if path else '') + k, out, depth + 1)
        return out
    out[path] = ('repr', repr(o))
    return out


def diff_paths(a, b):
    return sorted(k for k in set(a) | set(b) if a.get(k) != b.get(k))


def tokens(path):
    """'a.b[1][2].c' -> ['a', 'b', 1, 2, 'c']"""
    out = []
    for part in path.split('.'):
        if not part:
            continue
        name, _, rest = part.partition('[')
        if name:
            out.append(name)
        while rest:
            idx, _, rest = rest.partition(']')
            out.append(int(idx))
            rest = rest[1:] if rest.startswith('[') else rest
    return out


def get_path(o, toks):
    for t in toks:
        if isinstance(t, int):
            o = o[t]
        elif isinstance(o, dict):
            o = o[t]
        else:
            o = getattr(o, t)
    return o


def updated(o, toks, value):
    """Functional/in-place update of a (deep-copied) object along a path; NamedTuples are rebuilt."""
    if not toks:
        return value
    t, rest = toks[0], toks[1:]
    if isinstance(t, int):
        # collect consecutive indices for numpy arrays
        if isinstance(o, np.ndarray):
            idx = [t]
            while rest and isinstance(rest[0], int):
                idx.append(rest[0])
                rest = rest[1:]
            o[tuple(idx)] = updated(o[tuple(idx)], rest, value)
            return o
        if isinstance(o, tuple):
            lst = list(o)
            lst[t] = updated(lst[t], rest, value)
            return type(o)(lst) if not hasattr(o, '_fields') else type(o)(*lst)
        o[t] = updated(o[t], rest, value)
        return o
    if isinstance(o, tuple) and hasattr(o, '_replace'):
        return o._replace(**{t: updated(getattr(o, t), rest, value)})
    if isinstance(o, dict):
        o[t] = updated(o[t], rest, value)
        return o
    setattr(o, t, updated(getattr(o, t), rest, value))
    return o


def within(path, roots):
    for r in roots:
        if path == r or path.startswith(r + '.') or path.startswith(r + '['):
            return True
    return False


# ---------------------------------------------------------------------------------------------------------------
# the descriptor as this harness reads it from the JSON (cross-checked against the Lean model in stage C)
# ---------------------------------------------------------------------------------------------------------------
def flatten(table, s, prefix='', base=0, chain=()):
    """Leaves of struct `s`: nested scalar struct members are replaced by their own members."""
    out = []
    for m in s['members']:
        path = (prefix + '.' if prefix else '') + m['name']
        if m['kind'] == 'struct':
            sub = table[m['sub']]
            out += flatten(table, sub, path, base + m['offset'], chain + ((m['name'], s['key']),))
        else:
            leaf = dict(m)
            leaf.update(path=path, offset=base + m['offset'], chain=chain + ((m['name'], s['key']),))
            out.append(leaf)
    return out


def resolve(table, members, leaf, struct_key):
    """(attribute path, codec, M or None, notes) for one leaf, composing the per-struct maps along the nesting."""
    own = members.get(struct_key, {})
    if leaf['path'] in own:                       # override on the full path
        mm = own[leaf['path']]
        codec = mm.codec or nm.default_codec(leaf, leaf['chain'][-1][1])
        return (mm.attr if mm.attr is not None else leaf['path']), codec, mm
    attr_parts = []
    mm = None
    for name, owner in leaf['chain']:
        mm = members.get(owner, {}).get(name)
        attr_parts.append(mm.attr if (mm is not None and mm.attr is not None) else name)
    codec = (mm.codec if mm is not None and mm.codec is not None else None) or nm.default_codec(leaf, leaf['chain'][-1][1])
    return '.'.join(p for p in attr_parts if p != ''), codec, mm


def elements(leaf, codec, mm):
    """Probe units of one leaf: (element index or None, offset, width, attribute suffix)."""
    whole = leaf['array_len'] == 0 or isinstance(codec, (nm.Reserved, nm.RawBytes, nm.Const, nm.ReadOnlyInt))
    if whole:
        return [(None, leaf['offset'], leaf['size'], '')]
    shape = (mm.shape if mm is not None and mm.shape else (leaf['array_len'],))
    out = []
    for i in range(leaf['array_len']):
        idx = np.unravel_index(i, shape)
        out.append((i, leaf['offset'] + i * leaf['elem_size'], leaf['elem_size'], ''.join('[%d]' % j for j in idx)))
    return out


# ---------------------------------------------------------------------------------------------------------------
# probing one struct
# ---------------------------------------------------------------------------------------------------------------
class Probe:
    def __init__(self, ctx, table, members, only=None):
        self.ctx, self.table, self.members, self.only = ctx, table, members, only
        self.lines = []          # driver requests
        self.expect = []         # (expected answer or checker, replay)
        self.report = {}         # per struct coverage

    def violation(self, s, member, kind, desc, replay):
        self.ctx.violation('C02/%s/%s/%s' % (s['key'], member, kind), '%s.%s: %s' % (s['key'], member, desc),
                           dict(replay, struct=s['key'], member=member))

    def run_struct(self, s, subj):
        ctx = self.ctx
        key = s['key']
        rep = {'python': subj.pyname, 'sizeof': s['sizeof'], 'leaves': 0, 'units': 0, 'read_probes': 0,
               'write_probes': 0, 'excluded': [], 'notes': []}
        self.report[key] = rep
        size = s['sizeof']
        leaves = flatten(self.table, s)
        code = cxl.name_code(key)
        # ---- stage C (1): the Lean model's leaves are the ones used here
        self.lines.append('c02leaves %d' % code)
        mine = '%d|' % size + ';'.join('%d:%d:%d:%s:%s:%d:%d' % (cxl.name_code(l['path']), l['offset'], l['size'], l['kind'],
                                                                  l['elem_kind'], l['elem_size'], l['array_len']) for l in leaves)
        self.expect.append((mine, {'struct': key, 'what': 'flattened member list'}))

        # ---- default object, total fixed size
        try:
            obj_d = subj.make_base()
            b0 = subj.pack(obj_d)
        except Exception as e:
            self.violation(s, '*', 'cannot-pack', 'the Python counterpart %s cannot be serialised: %r' % (subj.pyname, e), {})
            return
        tail0 = b0[size:]
        try:
            obj0, consumed0 = subj.unpack(b0)
        except Exception as e:
            self.violation(s, '*', 'size', 'Python rejects its own default encoding (%d bytes): %r' % (len(b0), e),
                           {'bytes': b0.hex()})
            return
        snap0 = snapshot(obj0)
        # resolve the map
        units = []
        lengths = []
        for li, leaf in enumerate(leaves):
            attr, codec, mm = resolve(self.table, self.members, leaf, key)
            if codec is None:
                rep['excluded'].append({'member': leaf['path'], 'why': 'no codec for kind %s' % leaf['kind']})
                continue
            if isinstance(codec, nm.Length) and not isinstance(codec, nm.Consumed):
                lengths.append((codec.order, leaf, codec))
            # the codec the map assigns must be a reading of the kind the C++ compiler reports
            ok_kinds = codec.cxx_kinds() + ((mm.accept_kind,) if (mm is not None and mm.accept_kind) else ())
            if leaf['elem_kind'] not in ok_kinds:
                self.violation(s, leaf['path'], 'kind',
                               'the C++ compiler classifies the member as %s (%d bytes per element) but the Python side reads it as %s'
                               % (leaf['elem_kind'], leaf['elem_size'], codec.describe()),
                               {'cxx_member': {k: leaf[k] for k in ('path', 'offset', 'size', 'kind', 'elem_kind', 'elem_size', 'tname')},
                                'python_attribute': attr, 'python_codec': codec.describe()})
            for (ei, off, w, suffix) in elements(leaf, codec, mm):
                units.append({'leaf': leaf, 'li': li, 'ei': ei, 'off': off, 'w': w, 'attr': attr + suffix, 'codec': codec,
                              'mm': mm, 'name': leaf['path'] + ('[%d]' % ei if ei is not None else '')})
        rep['leaves'] = len(leaves)
        rep['units'] = len(units)
        has_tail_member = any(isinstance(u['codec'], nm.Length) for u in units)
        ctx.case('%s|size' % key)
        # total fixed size: without a variable tail the default encoding is exactly the struct
        if len(b0) < size or (not has_tail_member and len(b0) != size):
            self.violation(s, '*', 'size', 'sizeof(%s) = %d but the Python class %s serialises its fixed part in %d bytes'
                           % (key, size, subj.pyname, len(b0)), {'python_default_encoding': b0.hex(), 'sizeof': size})
        if consumed0 != len(b0):
            self.violation(s, '*', 'size', 'unpack() of the %d-byte default encoding reports %d bytes consumed'
                           % (len(b0), consumed0), {'python_default_encoding': b0.hex()})
        try:
            cs = subj.calcsize(obj_d) if subj.calcsize else None
        except Exception as e:
            cs = None
            rep['notes'].append('calcsize() raised %r' % (e,))
        if cs is not None and cs != len(b0):
            self.violation(s, '*', 'size', 'calcsize() = %d but pack() produced %d bytes' % (cs, len(b0)),
                           {'python_default_encoding': b0.hex()})
        rep['python_default_size'] = len(b0)

        # ---- base encoding: the Python default with every plain member set to a distinct valid value
        fixed = bytearray((b0 + bytes(size))[:size])
        for k, u in enumerate(units):
            cur = self.current(obj0, u)
            bb = u['codec'].base(u['w'], k, cur)
            if bb is not None:
                fixed[u['off']:u['off'] + u['w']] = bb
        base = bytes(fixed) + tail0
        try:
            objB, consumedB = subj.unpack(base)
        except Exception as e:
            self.violation(s, '*', 'rejects-valid-bytes', 'unpack() rejects an encoding that is valid for the C++ layout '
                           '(every member at a plain valid value): %r' % (e,), {'bytes': base.hex()})
            # fall back to the default encoding so that the member probes still run
            base, objB, consumedB = b0 + bytes(max(0, size - len(b0))), None, None
            try:
                objB, consumedB = subj.unpack(base)
            except Exception:
                return
        if consumedB != len(base) and key not in ():
            self.violation(s, '*', 'size', 'unpack() consumed %d of %d bytes (sizeof %d + tail %d)'
                           % (consumedB, len(base), size, len(base) - size), {'bytes': base.hex()})
        snapB = snapshot(objB)
        try:
            packB = subj.pack(objB)
        except Exception as e:
            self.violation(s, '*', 'cannot-pack', 'pack() of the object unpacked from the base encoding raised %r' % (e,),
                           {'bytes': base.hex()})
            packB = None
        fixed = base[:size]
        tailB = base[size:]
        self.units_of = units
        self.leaves_of = leaves
        rep['buffer_probes'] = 0
        rep['buffer_read_probes'] = 0
        rep['array_probes'] = 0
        rep['version_probes'] = 0
        self.vcases = []

        # ---- every call form of pack(): the object unpacked from the base encoding (every member distinct) serialised
        #      into caller-supplied buffers at several offsets
        if packB is not None:
            n = len(packB)
            offs = [0, 1, 4, 24, size, n + 3, ctx.rng.randrange(2, 200)]
            offs += sorted(set(u['off'] for u in units if 0 < u['off']))[:: (1 if ctx.thorough else 3)]
            if ctx.thorough:
                offs += [ctx.rng.randrange(1, 4096) for _ in range(4)]
            for k, off in enumerate(dict.fromkeys(offs)):
                self.buffer_form(s, subj, objB, packB, off, k, rep, code, {'object': 'unpacked from the base encoding', 'base': base.hex()})

            if objB is not None and consumedB is not None:
                for k, off in enumerate(dict.fromkeys(offs)):
                    if off:
                        self.buffer_read_form(s, subj, base, off, k, snapB, consumedB, rep, {'bytes': base.hex()})

        for u in units:
            if self.only and (self.only.get('unit') or self.only.get('member')) and \
                    u['name'] != self.only.get('unit') and u['leaf']['path'] != self.only.get('member'):
                continue
            self.probe_unit(s, subj, u, fixed, tailB, objB, snapB, packB, consumedB, lengths, rep, code)

        # ---- the entry points that are told the message version (the header's), at the current C++ version
        self.version_forms(s, subj, base, snapB, rep)

        # ---- array members as a whole: equivalent spellings of one logical value must give the C++ element order
        if packB is not None:
            by_leaf = {}
            for u in units:
                if u['ei'] is not None:
                    by_leaf.setdefault(u['li'], []).append(u)
            for li, us in by_leaf.items():
                if self.only and (self.only.get('unit') or self.only.get('member')) and \
                        us[0]['leaf']['path'] != self.only.get('member') and \
                        not {self.only.get('unit'), self.only.get('member')} & set(u['name'] for u in us):
                    continue
                self.array_probe(s, subj, us, obj_d, objB, packB, rep, code)

    # -----------------------------------------------------------------------------------------------------------
    def current(self, obj, u):
        try:
            return get_path(obj, tokens(u['attr']))
        except Exception:
            return None

    def tail_for(self, u, k, lengths, tailB):
        """Tail bytes when the length member `u` announces k and all other lengths keep their base value (0)."""
        if len(lengths) <= 1:
            return u['codec'].tail(k)
        return u['codec'].tail(k)       # other tails are empty in the base encoding

    def probe_unit(self, s, subj, u, fixed, tailB, objB, snapB, packB, consumedB, lengths, rep, code):
        ctx = self.ctx
        key, size = s['key'], s['sizeof']
        codec = u['codec']
        off, w = u['off'], u['w']
        cur = self.current(objB, u)
        mm = u['mm']
        roots = [u['attr']] if u['attr'] else []
        roots.append(u['leaf']['path'])
        roots.append(u['leaf']['name'])
        if mm is not None and mm.subtree:
            roots += list(mm.subtree)
        base_raw = fixed[off:off + w]
        pats = codec.patterns(w, ctx.rng, cur, ctx.thorough)
        if self.only and self.only.get('pattern'):
            pats = [bytes.fromhex(self.only['pattern'])] if not self.only.get('mode') else [(self.only['mode'], bytes.fromhex(self.only['pattern']))]
        effective = 0
        for p in pats:
            mode = None
            if isinstance(p, tuple):
                mode, p = p
            tail = tailB
            if mode == 'grow':
                grow = p if isinstance(p, int) else int.from_bytes(p, 'little') - len(tailB)
                p = nm.le(len(tailB) + grow, w)
                tail = tailB + bytes(grow)
            elif isinstance(codec, nm.Length) and not isinstance(codec, nm.Consumed) and mode != 'must-reject':
                tail = self.tail_for(u, int.from_bytes(p, 'little'), lengths, tailB)
            newfixed = fixed[:off] + p + fixed[off + w:]
            buf = newfixed + tail
            replay = {'struct': key, 'unit': u['name'], 'offset': off, 'width': w, 'kind': codec.describe(), 'pattern': p.hex(),
                      'mode': mode, 'base': (fixed + tailB).hex(), 'bytes': buf.hex(), 'python_attribute': u['attr']}
            ctx.case('%s|%s|r|%s|%s' % (key, u['name'], p.hex(), mode), nontrivial=(p != base_raw))
            ctx.count('read:' + codec.describe().split('(')[0])
            rep['read_probes'] += 1
            # stage C (2): Lean's overwrite at its own offset gives the same bytes
            leaf = u['leaf']
            leaf_new = bytearray(newfixed[leaf['offset']:leaf['offset'] + leaf['size']])
            self.lines.append('c02poke %d %d %s %s' % (code, u['li'], fixed.hex(), bytes(leaf_new).hex()))
            self.expect.append((newfixed.hex(), dict(replay, what='overwrite of member bytes')))
            # ---- read direction
            try:
                obj1, consumed1 = subj.unpack(buf)
                err = None
            except Exception as e:
                obj1, consumed1, err = None, None, e
            if mode == 'must-reject':
                if err is None:
                    self.violation(s, u['name'], 'offset-or-width',
                                   'a length of %d with only %d bytes following was accepted: not every byte of the %d-byte '
                                   'C++ field is read as part of the length' % (int.from_bytes(p, 'little'), len(tail), w), replay)
                else:
                    effective += 1
                continue
            if err is not None:
                if mode == 'maybe-strict':
                    ctx.count('strict-enum-rejects-unknown-value')
                    continue
                self.violation(s, u['name'], 'rejects-valid-bytes', 'unpack() raised %r for a valid value of the member'
                               % (err,), replay)
                continue
            snap1 = snapshot(obj1)
            self.vcases.append({'u': u, 'p': p, 'mode': mode, 'buf': buf, 'snap': snap1, 'consumed': consumed1, 'replay': replay,
                                'moved': p != base_raw,
                                'want': None if codec.read in ('ignored', 'consumed') else codec.expect(buf, off, w)})
            self.nrforms = getattr(self, 'nrforms', 0) + 1
            self.buffer_read_form(s, subj, buf, (4, 1, 24, 7, 20, size, 2 + ctx.rng.randrange(250))[self.nrforms % 7], self.nrforms,
                                  snap1, consumed1, rep, {'unit': u['name'], 'pattern': p.hex(), 'mode': mode, 'bytes': buf.hex(),
                                                          'base': replay['base']})
            changed = diff_paths(snapB, snap1)
            outside = [c for c in changed if not within(c, roots)]
            replay['changed_attributes'] = changed[:12]
            if codec.read == 'ignored':
                if changed:
                    self.violation(s, u['name'], 'offset-or-width',
                                   'bytes [%d,%d) are %s in the C++ struct but changing them changed Python attribute(s) %s'
                                   % (off, off + w, codec.describe(), changed[:6]), replay)
                else:
                    effective += 1
            elif codec.read == 'consumed':
                want = size + len(tail)
                if consumed1 != want or outside:
                    self.violation(s, u['name'], 'offset-or-width',
                                   'length %d announced: unpack consumed %s bytes (expected %d), attributes changed: %s'
                                   % (int.from_bytes(p, 'little'), consumed1, want, changed[:6]), replay)
                else:
                    effective += 1
            else:
                exp = codec.expect(buf, off, w)
                try:
                    got = mm.getter(obj1) if (mm is not None and mm.getter) else (
                        codec.observe(obj1) if isinstance(codec, nm.Tag) else get_path(obj1, tokens(u['attr'])))
                    got_err = None
                except Exception as e:
                    got, got_err = None, e
                replay['expected_value'] = repr(exp)
                if got_err is not None:
                    replay['observed_value'] = 'unreadable: %r' % (got_err,)
                elif isinstance(codec, nm.Length) and hasattr(got, '__len__'):
                    replay['observed_value'] = 'a sequence of length %d' % len(got)
                else:
                    replay['observed_value'] = repr(got)[:160]
                if outside:
                    self.violation(s, u['name'], 'offset-or-width',
                                   'writing bytes [%d,%d) (C++ member %s) changed Python attribute(s) %s; expected only %s'
                                   % (off, off + w, u['name'], outside[:6], u['attr']), replay)
                elif got_err is not None or not codec.same(got, exp):
                    self.violation(s, u['name'], 'value' if changed or p == base_raw else 'not-read',
                                   'bytes %s at [%d,%d) denote %r under kind %s; Python attribute %s is %s%s'
                                   % (p.hex(), off, off + w, exp, codec.describe(), u['attr'], replay['observed_value'],
                                      '' if changed or p == base_raw else ' (no attribute changed at all)'), replay)
                else:
                    if p != base_raw:
                        effective += 1
                    if isinstance(codec, nm.Length) and consumed1 != len(buf):
                        self.violation(s, u['name'], 'size', 'unpack consumed %d of %d bytes' % (consumed1, len(buf)), replay)
                # ---- write direction
                if codec.write == 'value' and packB is not None and got_err is None:
                    wm = getattr(codec, 'write_max', None)
                    if wm is not None and abs(int.from_bytes(p, 'little', signed=getattr(codec, 'signed', False))) > wm:
                        ctx.count('write-skipped:float-arithmetic-in-pack')
                    else:
                        self.write_probe(s, subj, u, objB, packB, fixed, p, exp, cur, replay, rep, code, len(tail) - len(tailB))
        # zero / const members: what pack writes there
        if packB is not None and codec.write in ('zero', 'const') and len(packB) >= off + w:
            want = bytes(w) if codec.write == 'zero' else codec.const
            ctx.case('%s|%s|w|fixed' % (key, u['name']))
            rep['write_probes'] += 1
            if packB[off:off + w] != want:
                self.violation(s, u['name'], 'offset-or-width', 'pack() writes %s at [%d,%d); the C++ member there is %s (%s expected)'
                               % (packB[off:off + w].hex(), off, off + w, codec.describe(), want.hex()),
                               {'unit': u['name'], 'packed': packB.hex()})
        if effective == 0:
            rep['excluded'].append({'member': u['name'], 'why': 'no effective probe (%s)' % codec.describe()})
        if codec.note or (mm is not None and mm.note):
            note = '%s: %s' % (u['leaf']['path'], codec.note or mm.note)
            if note not in rep['notes']:
                rep['notes'].append(note)

    def write_probe(self, s, subj, u, objB, packB, fixed, p, exp, cur, replay, rep, code, tail_delta):
        ctx = self.ctx
        codec, off, w, size = u['codec'], u['off'], u['w'], s['sizeof']
        mm = u['mm']
        ctx.case('%s|%s|w|%s' % (s['key'], u['name'], p.hex()), nontrivial=(p != fixed[off:off + w]))
        ctx.count('write:' + codec.describe().split('(')[0])
        rep['write_probes'] += 1
        replay = dict(replay, direction='write')
        try:
            o2 = copy.deepcopy(objB)
            val = codec.to_attr(exp, cur)
            if mm is not None and mm.setter:
                o2 = mm.setter(o2, val)
            else:
                o2 = updated(o2, tokens(u['attr']), val)
            b2 = subj.pack(o2)
        except Exception as e:
            self.violation(s, u['name'], 'cannot-pack', 'setting %s = %r and packing raised %r' % (u['attr'], exp, e), replay)
            return
        replay['packed'] = b2.hex()
        replay['packed_before'] = packB.hex()
        f1, f2 = packB[:size], b2[:size]
        if len(f2) < size or len(f1) < size:
            self.violation(s, u['name'], 'size', 'pack() produced %d bytes, fewer than sizeof %d' % (min(len(b2), len(packB)), size), replay)
            return
        diff = [i for i in range(size) if f1[i] != f2[i]]
        outside = [i for i in diff if not (off <= i < off + w)]
        if outside:
            self.violation(s, u['name'], 'offset-or-width',
                           'setting Python attribute %s changed byte(s) %s of the encoding; the C++ member %s occupies [%d,%d)'
                           % (u['attr'], outside[:8], u['name'], off, off + w), replay)
        elif f2[off:off + w] != p:
            self.violation(s, u['name'], 'value' if diff or p == f1[off:off + w] else 'not-written',
                           'setting %s = %r wrote %s at [%d,%d); the C++ encoding of that value is %s%s'
                           % (u['attr'], exp, f2[off:off + w].hex(), off, off + w, p.hex(),
                              '' if diff else ' (no byte changed at all)'), replay)
        elif len(b2) - len(packB) != tail_delta:
            self.violation(s, u['name'], 'size', 'encoding grew by %d bytes, expected %d' % (len(b2) - len(packB), tail_delta), replay)
        # the same object through the caller-supplied-buffer call form, at a rotating non-zero offset
        self.nforms = getattr(self, 'nforms', 0) + 1
        off_b = (4, 1, 24, 7, 20, size, 2 + ctx.rng.randrange(250))[self.nforms % 7]
        self.buffer_form(s, subj, o2, b2, off_b, self.nforms, rep, code,
                         {'object': 'base object with %s = %r' % (u['attr'], exp), 'unit': u['name'], 'pattern': p.hex(),
                          'mode': replay.get('mode'), 'base': replay.get('base')})
        # stage C (3): the isolation spec, evaluated by the Lean model on the two Python encodings
        self.lines.append('c02iso %d %d %s %s' % (code, u['li'], f1.hex(), f2.hex()))
        self.expect.append(('ok' if not outside else None, dict(replay, what='field isolation spec on pack() output')))


    # -----------------------------------------------------------------------------------------------------------
    def version_forms(self, s, subj, base, snapB, rep):
        """Entry points that hand unpack() a message version. The C++ struct `s` IS the layout of version
        S::MESSAGE_VERSION (printed by the compiler), so a decode that is told exactly that version must place the bytes of
        every member in the mapped attribute: the value the member's kind denotes (same oracle as the plain read probe), and
        otherwise the same object as unpack() without a version gives (which the member probes tie to the C++ table).
        Entry points: unpack(buffer, offset, message_version) in three call forms; the message framed with a header that
        carries the version, decoded by FusionEngineDecoder, by MixedLogReader reading a log file sequentially, and by
        MixedLogReader.parse_entry_at_index(). Older versions (0 .. current-1) describe layouts the headers no longer
        contain: they are decoded once and the attributes they withhold are listed in the coverage report, not judged."""
        cases, self.vcases = self.vcases, []
        V = s.get('message_version')
        if subj.unpack_version is None or subj.cls is None or V is None or s['message_type'] is None:
            return
        ctx = self.ctx
        key, size = s['key'], s['sizeof']
        rep['cxx_message_version'] = V
        pyV = getattr(subj.cls, 'MESSAGE_VERSION', None)
        if pyV != V:
            rep['notes'].append('MESSAGE_VERSION: C++ %r, Python %r' % (V, pyV))
        # older versions: listed, not judged
        older = {}
        for v in range(V):
            try:
                o, _ = subj.unpack_version(base, 0, v, 1)
                older[str(v)] = diff_paths(snapB, snapshot(o))[:12]
            except Exception as e:
                older[str(v)] = 'raised %r' % (e,)
        if older:
            rep['attributes_withheld_at_older_versions'] = older
        if not cases:
            return
        from fusion_engine_client.messages import defs
        from fusion_engine_client.parsers import FusionEngineDecoder
        from fusion_engine_client.parsers.mixed_log_reader import MixedLogReader

        def judge(entry, call, c, obj, consumed, err):
            u = c['u']
            codec, off, w, mm = u['codec'], u['off'], u['w'], u['mm']
            replay = dict(c['replay'], direction='read', entry_point=entry, call=call, message_version=V)
            ctx.case('%s|%s|v%d|%s|%s|%s' % (key, u['name'], V, entry, c['p'].hex(), c['mode']), nontrivial=c['moved'])
            ctx.count('read:version-entry:' + entry)
            rep['version_probes'] += 1
            if err is not None or obj is None or isinstance(obj, (bytes, bytearray)):
                self.violation(s, u['name'], 'rejects-valid-bytes',
                               '%s at message version %d (the C++ MESSAGE_VERSION) did not decode an encoding that unpack() without a '
                               'version accepts: %s' % (call, V, repr(err) if err is not None else 'no payload object returned'), replay)
                return
            if c['want'] is not None:
                try:
                    got = mm.getter(obj) if (mm is not None and mm.getter) else (
                        codec.observe(obj) if isinstance(codec, nm.Tag) else get_path(obj, tokens(u['attr'])))
                    ok = codec.same(got, c['want'])
                    shown = ('a sequence of length %d' % len(got)) if (isinstance(codec, nm.Length) and hasattr(got, '__len__')) \
                        else repr(got)[:160]
                except Exception as e:
                    ok, shown = False, 'unreadable: %r' % (e,)
                if not ok:
                    replay.update(expected_value=repr(c['want']), observed_value=shown)
                    self.violation(s, u['name'], 'current-version-read',
                                   'bytes %s at [%d,%d) (C++ member %s of the version-%d struct) denote %r under kind %s; %s, told '
                                   'message version %d, gives attribute %s = %s'
                                   % (c['p'].hex(), off, off + w, u['name'], V, c['want'], codec.describe(), call, V, u['attr'], shown),
                                   replay)
                    return
            changed = diff_paths(c['snap'], snapshot(obj))
            if changed:
                name, owner = u['name'], None
                for cand in self.units_of:
                    if cand['attr'] and within(changed[0], [cand['attr']]):
                        name, owner = cand['name'], cand
                        break
                where = ' (C++ member %s, bytes [%d,%d))' % (name, owner['off'], owner['off'] + owner['w']) if owner is not None else ''
                self.violation(s, name, 'current-version-read',
                               '%s, told message version %d (the C++ MESSAGE_VERSION): attribute(s) %s%s differ from what unpack() '
                               'of the same bytes without a version yields' % (call, V, changed[:6], where),
                               dict(replay, changed_attributes=changed[:12]) if (owner is None or owner is u) else
                               # the attribute belongs to another member than the one being probed: the replay probes the owner
                               dict(replay, changed_attributes=changed[:12], unit=name, pattern=None, mode=None,
                                    python_attribute=owner['attr'], offset=owner['off'], width=owner['w'],
                                    kind=owner['codec'].describe(), seen_while_probing=u['name'], probe_pattern=c['p'].hex()))
            if consumed is not None and consumed != c['consumed']:
                self.violation(s, '*', 'size', '%s at message version %d reports %r bytes consumed; %r without a version'
                               % (call, V, consumed, c['consumed']), replay)

        # ---- (1) unpack(buffer, offset, message_version): positional / keyword; at offset 0 and inside a larger buffer
        for i, c in enumerate(cases):
            form = i % 3
            off = (0, (4, 1, 24, 7)[(i // 3) % 4], 0)[form]
            buf = guard_bytes(off, i) + bytes(c['buf'])
            call = 'unpack(%s)' % (('buffer, %d, %d', 'buffer, %d, message_version=%d',
                                    'buffer=, offset=%d, message_version=%d')[form] % (off, V))
            try:
                obj, consumed = subj.unpack_version(buf, off, V, form)
                err = None
            except Exception as e:
                obj, consumed, err = None, None, e
            judge('unpack', call, c, obj, consumed, err)

        # ---- (2) framed messages whose header carries the version: stream decoder and log file readers.
        #      quick tier: per member the first two patterns that move the value (and the base pattern); thorough: all
        if ctx.thorough or self.only:
            framed_cases = list(cases)
        else:
            seen, framed_cases = {}, []
            for c in cases:
                k = (c['u']['name'], c['moved'])
                seen[k] = seen.get(k, 0) + 1
                if seen[k] <= (2 if c['moved'] else 1):
                    framed_cases.append(c)
        try:
            mtype = defs.MessageType(s['message_type'])
        except ValueError:
            return
        stream = bytearray()
        spans = []
        for i, c in enumerate(framed_cases):
            h = defs.MessageHeader(mtype)
            h.message_version = V
            h.sequence_number = i
            m = bytes(h.pack(payload=bytes(c['buf'])))
            spans.append((len(stream), len(m)))
            stream += m

        def collect(entry, call, pairs, err_all=None):
            got = {}
            for hdr, payload in pairs:
                if getattr(hdr, 'message_type', None) == mtype and getattr(hdr, 'message_version', None) == V:
                    got.setdefault(hdr.sequence_number, payload)
            for i, c in enumerate(framed_cases):
                judge(entry, call, c, got.get(i), None, err_all)

        try:
            res, err = FusionEngineDecoder(max_payload_len_bytes=max(1 << 24, len(stream)), warn_on_error='none').on_data(bytes(stream)), None
        except Exception as e:
            res, err = [], e
        collect('decoder', 'FusionEngineDecoder.on_data(header with message_version=%d + payload)' % V, [(r[0], r[1]) for r in res], err)

        d = tempfile.mkdtemp(prefix='c02_log_')
        try:
            path = os.path.join(d, 'c02.p1log')
            with open(path, 'wb') as f:
                f.write(stream)
            reader = None
            try:
                reader = MixedLogReader(path, save_index=False, ignore_index=True, num_threads=1)
                res, err = [(e[0], e[1]) for e in reader], None
            except Exception as e:
                res, err = [], e
            collect('log-reader', 'MixedLogReader(file of header with message_version=%d + payload)' % V, res, err)
            index = getattr(reader, 'index', None) if reader is not None else None
            if index is not None and hasattr(reader, 'parse_entry_at_index'):
                res, err = [], None
                try:
                    for entry in index:             # FileIndexEntry (time, type, offset, message_index)
                        res.append(tuple(reader.parse_entry_at_index(entry))[:2])
                except Exception as e:
                    err = e
                collect('log-index', 'MixedLogReader.parse_entry_at_index(header with message_version=%d + payload)' % V, res, err)
        finally:
            shutil.rmtree(d, ignore_errors=True)

    # -----------------------------------------------------------------------------------------------------------
    def member_at(self, s, i):
        """Name of the C++ member (probe unit) that owns byte i of the encoding."""
        if i >= s['sizeof']:
            return '*tail'
        for u in self.units_of:
            if u['off'] <= i < u['off'] + u['w']:
                return u['name']
        return '*'

    def buffer_form(self, s, subj, obj, ref, off, k, rep, code, extra):
        """pack(buffer, offset) into a caller-supplied buffer: the C++ struct starts at `offset`, so every member sits at
        offset + offsetof(member); `ref` (the encoding pack() allocated itself, which the member probes tie to the C++
        table) must appear at [offset, offset + len) and no other byte of the caller's buffer may change; the size
        reported with return_buffer=False is the size of the encoding."""
        if subj.pack_into is None:
            return
        ctx = self.ctx
        key, size, n = s['key'], s['sizeof'], len(ref)
        form = ('positional, return_buffer=False', 'keywords, return_buffer=True', 'keywords, return_buffer=False')[k % 3]
        before = guard_bytes(off + n + 16, k)
        buf = bytearray(before)
        replay = dict(extra, struct=key, direction='write', call='pack(buffer, offset=%d) [%s]' % (off, form), buffer_offset=off,
                      buffer_before=before.hex(), expected_at_offset=ref.hex())
        ctx.case('%s|buf|%d|%d|%s' % (key, off, k % 3, ref.hex()), nontrivial=(off != 0))
        ctx.count('write:caller-buffer')
        rep['buffer_probes'] += 1
        try:
            ret = subj.pack_into(obj, buf, off, k % 3)
        except Exception as e:
            self.violation(s, '*', 'cannot-pack', 'pack() into a caller-supplied %d-byte buffer at offset %d raised %r (pack() '
                           'without a buffer produced %d bytes)' % (len(buf), off, e, n), replay)
            return
        after = bytes(buf)
        replay['buffer_after'] = after.hex()
        region = after[off:off + n]
        bad = [i for i in range(n) if region[i] != ref[i]]
        # a byte that is no longer there, or one that was not there before, is a modified byte too: the caller's buffer
        # must keep its length (what follows the message in it - the next struct of a C++ memcpy - stays where it was)
        stray = [i for i in range(max(len(after), len(before))) if not (off <= i < off + n) and
                 (i >= len(after) or i >= len(before) or after[i] != before[i])]
        if bad:
            i0 = bad[0]
            name = self.member_at(s, i0)
            u = next((u for u in self.units_of if u['name'] == name), None)
            lo, w = (u['off'], u['w']) if u is not None else (i0, 1)
            self.violation(s, name, 'offset-in-caller-buffer',
                           'pack(buffer, offset=%d): the C++ member %s occupies [%d,%d) of the struct, i.e. buffer[%d:%d]; pack() '
                           'without a buffer writes %s there, the buffer form left %s (bytes %s of the message differ, members %s%s)'
                           % (off, name, lo, lo + w, off + lo, off + lo + w, ref[lo:lo + w].hex(), region[lo:lo + w].hex(),
                              bad[:8], list(dict.fromkeys(self.member_at(s, i) for i in bad))[:8], '; buffer bytes outside the message modified: %s' % stray[:8] if stray else ''), replay)
        elif stray:
            self.violation(s, '*', 'writes-outside-message',
                           'pack(buffer, offset=%d) of a %d-byte message modified buffer byte(s) %s outside [%d,%d)'
                           % (off, n, stray[:8], off, off + n), replay)
        if k % 3 != 1:
            if isinstance(ret, bool) or not isinstance(ret, (int, np.integer)) or int(ret) != n:
                self.violation(s, '*', 'size', 'pack(buffer, offset=%d, return_buffer=False) reports %r; the encoding is %d bytes '
                               '(sizeof %d + tail %d)' % (off, ret, n, size, n - size), replay)
        # the Lean isolation spec on (pack() output, that region of the caller's buffer) for a rotating member: parse(region) must
        # be parse(pack()) with that member taken from the region, i.e. no other member may differ
        if len(region) >= size and len(ref) >= size and self.leaves_of:
            li = k % len(self.leaves_of)
            lf = self.leaves_of[li]
            self.lines.append('c02iso %d %d %s %s' % (code, li, ref[:size].hex(), region[:size].hex()))
            self.expect.append(('ok' if not [i for i in bad if i < size and not (lf['offset'] <= i < lf['offset'] + lf['size'])] else None,
                                dict(replay, what='field isolation spec on the caller-supplied-buffer form')))

    def buffer_read_form(self, s, subj, msg, off, k, snap_ref, consumed_ref, rep, extra):
        """unpack(buffer, offset) of a message that starts at `offset` of a larger buffer: the C++ struct starts there, so
        every member is read from offset + offsetof(member); the object must equal the one unpack() builds from the
        message alone (which the member probes tie to the C++ table) and the same number of bytes must be consumed."""
        if subj.unpack_at is None:
            return
        ctx = self.ctx
        key = s['key']
        lead = guard_bytes(off, k)
        buf = lead + bytes(msg)
        replay = dict(extra, struct=key, direction='read', call='unpack(buffer, offset=%d) [%s]' % (off, ('positional', 'keywords')[k % 2]),
                      buffer_offset=off, buffer=buf.hex())
        ctx.case('%s|rbuf|%d|%d|%s' % (key, off, k % 2, bytes(msg).hex()))
        ctx.count('read:caller-buffer')
        rep['buffer_read_probes'] += 1
        try:
            obj, consumed = subj.unpack_at(buf, off, k % 2)
        except Exception as e:
            self.violation(s, '*', 'rejects-valid-bytes', 'unpack(buffer, offset=%d) raised %r for a message that unpack() accepts '
                           'when it starts at offset 0' % (off, e), replay)
            return
        changed = diff_paths(snap_ref, snapshot(obj))
        if changed:
            name, u = '*', None
            for cand in self.units_of:
                if cand['attr'] and within(changed[0], [cand['attr']]):
                    name, u = cand['name'], cand
                    break
            where = ' (C++ member %s, struct bytes [%d,%d), buffer[%d:%d])' % (name, u['off'], u['off'] + u['w'], off + u['off'],
                                                                              off + u['off'] + u['w']) if u is not None else ''
            self.violation(s, name, 'offset-in-caller-buffer',
                           'unpack(buffer, offset=%d): attribute(s) %s%s differ from what unpack() of the same message at offset 0 yields'
                           % (off, changed[:6], where), dict(replay, changed_attributes=changed[:12]))
        if consumed != consumed_ref:
            self.violation(s, '*', 'size', 'unpack(buffer, offset=%d) reports %r bytes consumed; %r at offset 0'
                           % (off, consumed, consumed_ref), replay)

    # -----------------------------------------------------------------------------------------------------------
    def array_probe(self, s, subj, us, obj_d, objB, packB, rep, code):
        """One array member set as a whole. C++ stores element [i] (row-major for matrices) at offset + i * elem_size;
        the same logical value in every spelling Python accepts must produce exactly those bytes."""
        ctx = self.ctx
        key, size = s['key'], s['sizeof']
        leaf, codec, mm, li = us[0]['leaf'], us[0]['codec'], us[0]['mm'], us[0]['li']
        if codec.write != 'value' or (mm is not None and (mm.setter or mm.getter)):
            return
        attr = us[0]['attr'][:len(us[0]['attr']) - len(''.join('[%d]' % j for j in np.unravel_index(0, self.shape_of(leaf, mm))))]
        shape = self.shape_of(leaf, mm)
        toks = tokens(attr)
        try:
            cur = get_path(objB, toks)
        except Exception:
            return
        try:
            proto = get_path(obj_d, toks)
        except Exception:
            proto = cur
        w = us[0]['w']
        lo, hi = leaf['offset'], leaf['offset'] + leaf['size']
        nsets = 4 if ctx.thorough else 2
        wm = getattr(codec, 'write_max', None)
        for j in range(nsets):
            pats = []
            for i, u in enumerate(us):
                cur_i = self.current(objB, u)
                p = None
                if j % 2 == 1:
                    cands = [q for q in codec.patterns(w, ctx.rng, cur_i, ctx.thorough) if not isinstance(q, tuple)]
                    if wm is not None:
                        cands = [q for q in cands if abs(int.from_bytes(q, 'little', signed=getattr(codec, 'signed', False))) <= wm]
                    if cands:
                        p = cands[(i + j // 2) % len(cands)] if i % 2 else cands[-1]
                if p is None:
                    p = codec.base(w, 11 + 3 * i + 5 * j, cur_i)
                if p is None:
                    p = bytes(packB[u['off']:u['off'] + w])
                pats.append(p)
            newleaf = b''.join(pats)
            f1 = packB[:size]
            want = f1[:lo] + newleaf + f1[hi:]
            if want == f1:
                continue
            try:
                vals = [codec.to_attr(codec.expect(want, u['off'], w), self.current(objB, u)) for u in us]
            except Exception:
                continue
            # the Lean model's overwrite at the member's C++ offset is the expected encoding
            self.lines.append('c02poke %d %d %s %s' % (code, li, f1.hex(), newleaf.hex()))
            self.expect.append((want.hex(), {'struct': key, 'member': leaf['path'], 'what': 'overwrite of a whole array member'}))
            for sk, (sname, value, strict) in enumerate(spellings(vals, shape, cur, proto, ctx.rng)):
                replay = {'struct': key, 'member': leaf['path'], 'direction': 'write', 'python_attribute': attr, 'spelling': sname,
                          'logical_value': repr(vals), 'shape': list(shape), 'offset': lo, 'elem_size': w,
                          'expected_member_bytes': newleaf.hex(), 'packed_before': packB.hex()}
                ctx.case('%s|%s|arr|%s|%s' % (key, leaf['path'], sname, newleaf.hex()))
                ctx.count('write:array-spelling:' + sname)
                rep['array_probes'] += 1
                try:
                    o2 = updated(copy.deepcopy(objB), toks, value)
                    b2 = subj.pack(o2)
                except Exception as e:
                    if strict:
                        self.violation(s, leaf['path'], 'cannot-pack', 'setting %s to the %s spelling of %r and packing raised %r'
                                       % (attr, sname, vals, e), replay)
                    else:
                        ctx.count('array-spelling-not-accepted:' + sname)
                    continue
                replay['packed'] = b2.hex()
                f2 = b2[:size]
                if len(f2) < size or len(b2) != len(packB):
                    self.violation(s, leaf['path'], 'size', 'pack() produced %d bytes with %s given as %s; %d expected'
                                   % (len(b2), attr, sname, len(packB)), replay)
                    continue
                bad = [i for i in range(size) if f2[i] != want[i]]
                if bad:
                    i0 = bad[0]
                    if lo <= i0 < hi:
                        e0 = (i0 - lo) // w
                        idx = ''.join('[%d]' % t for t in np.unravel_index(e0, shape))
                        o = lo + e0 * w
                        self.violation(s, '%s[%d]' % (leaf['path'], e0), 'array-element-order',
                                       '%s given as %s with logical value %r: C++ element %s%s is at [%d,%d) and must hold %s (= %r); '
                                       'pack() wrote %s there (elements %s differ)'
                                       % (attr, sname, vals, leaf['path'], idx, o, o + w, want[o:o + w].hex(), vals[e0],
                                          f2[o:o + w].hex(), sorted(set((i - lo) // w for i in bad if lo <= i < hi))[:9]), replay)
                    else:
                        self.violation(s, self.member_at(s, i0), 'offset-or-width',
                                       'setting %s (as %s) changed byte(s) %s of the encoding; the C++ member %s occupies [%d,%d)'
                                       % (attr, sname, bad[:8], leaf['path'], lo, hi), replay)
                self.lines.append('c02iso %d %d %s %s' % (code, li, f1.hex(), f2.hex()))
                self.expect.append(('ok' if not [i for i in bad if not (lo <= i < hi)] else None,
                                    dict(replay, what='field isolation spec on pack() output (whole array member)')))
                # and the same spelling through the caller-supplied-buffer form
                if not bad:
                    self.nforms = getattr(self, 'nforms', 0) + 1
                    self.buffer_form(s, subj, o2, b2, (8, 1, 24, 5, 20, size, 2 + ctx.rng.randrange(250))[self.nforms % 7], self.nforms,
                                     rep, code, {'object': 'base object with %s = %s spelling of %r' % (attr, sname, vals),
                                                 'member': leaf['path']})

    @staticmethod
    def shape_of(leaf, mm):
        return tuple(mm.shape) if (mm is not None and mm.shape) else (leaf['array_len'],)

    # -----------------------------------------------------------------------------------------------------------
    # families of value classes carried behind a type tag (configuration values, fault payloads): every class of the
    # family x values shared between classes of the same field shape x several orders inside this one process. Every
    # message must be the C++ image for ITS class - fixed part with tag and length at the compiler's offsets, optional
    # sub-header struct, payload of the size the header documents for that tag - whatever was serialised before.
    # -----------------------------------------------------------------------------------------------------------
    FAMILY_SCALARS = [0, 1, 2, 3, 4, 5, 7, 18, 54, 255, 256, 4800, 9600, 38400, 115200, 460800, 65535, 65536,
                      2 ** 31 - 1, -1, -2]
    FAMILY_STRINGS = ['', 'A', 'fusion-engine']

    @staticmethod
    def _same_fields(a, b):
        try:
            if len(a) != len(b):
                return False
            for x, y in zip(a, b):
                if isinstance(x, str) != isinstance(y, str):
                    return False
                if not (x == y or (x != x and y != y)):
                    return False
            return True
        except Exception:
            return False

    def family_values(self, cls, adapter):
        """Instances of one value class: its default plus the shared pool converted to the class's own field types;
        kept when the class's construct serialises them and reads the same fields back (a value OF that class)."""
        import enum
        arity = len(getattr(cls, '_fields', ()))
        try:
            d = cls()
        except Exception:
            d = None
        if arity == 0:
            raw = [()]
        elif arity == 1:
            raw = [(v,) for v in self.FAMILY_SCALARS + self.FAMILY_STRINGS]
        else:
            raw = [tuple(range(1, arity + 1)), (0,) * arity, (1,) * arity, (2,) * arity,
                   tuple((2, 1, 0)[i % 3] for i in range(arity)), tuple(i + 0.5 for i in range(arity))]
        out = []
        if d is not None and arity:
            raw = [tuple(d)] + raw
        for k, t in enumerate(raw):
            fields = []
            for i, v in enumerate(t):
                if d is None:
                    fields.append(v)
                    continue
                dv = d[i]
                try:
                    if isinstance(v, type(dv)) and type(v) is type(dv):
                        fields.append(v)
                    elif isinstance(dv, enum.Enum):
                        if isinstance(v, (str, float)):
                            raise ValueError
                        fields.append(type(dv)(v))
                    elif isinstance(dv, bool):
                        if isinstance(v, str) or v not in (0, 1):
                            raise ValueError
                        fields.append(bool(v))
                    elif isinstance(dv, float):
                        if isinstance(v, str):
                            raise ValueError
                        fields.append(float(v))
                    elif isinstance(dv, str):
                        if not isinstance(v, str):
                            raise ValueError
                        fields.append(v)
                    else:
                        if isinstance(v, (str, float)):
                            raise ValueError
                        fields.append(v)
                except Exception:
                    fields = None
                    break
            if fields is None:
                continue
            try:
                obj = cls(*fields)
                own = bytes(adapter.build(obj))
                back = adapter.parse(own)
            except Exception:
                continue
            if type(back) is not cls or not self._same_fields(tuple(back), tuple(obj)):
                continue
            if any(self._same_fields(tuple(o), tuple(obj)) and [type(x) for x in o] == [type(x) for x in obj] for o, _ in out):
                continue
            out.append((obj, own))
        return out

    def value_families(self):
        ctx = self.ctx
        try:
            families = nm.value_families()
        except Exception as e:
            ctx.violation('C02/name-map/python-name-missing', 'the value-class registries named by the map cannot be read: %r' % (e,), {})
            return
        fam_cov = ctx.cov.setdefault('value_families', {})
        for fam in families:
            self.value_family(fam, fam_cov)

    def value_family(self, fam, fam_cov):
        ctx, table = self.ctx, self.table
        seen = set()

        def report(s, cls, kind, desc, replay):
            k = (s['key'], cls.__name__, kind)
            if k in seen:
                return
            seen.add(k)
            self.violation(s, 'value:' + cls.__name__, kind, desc, dict(replay, mode='value-family', family=fam['name']))

        docs = {}
        carriers = []
        for c in fam['carriers']:
            s = table.get(c['struct'])
            if s is None:
                continue
            leaves = {l['path']: l for l in flatten(table, s)}
            if c['tag'] not in leaves or c['length'] not in leaves:
                self.violation(s, c['tag'] if c['tag'] not in leaves else c['length'], 'no-such-member',
                               'the carrier member named by the map is not declared by the header', {})
                continue
            carriers.append(dict(c, s=s, tag_leaf=leaves[c['tag']], len_leaf=leaves[c['length']], subj=nm.class_subject(c['cls'])))
        if not carriers:
            return
        # ---- the items: (class, value, C++ payload image, optional sub-header image)
        items = []
        cov = {'classes': 0, 'values': 0, 'documented_formats': {}, 'format_unknown': [], 'steps': 0, 'orders': [],
               'shared_value_groups': 0, 'largest_group': 0}
        fam_cov[fam['name']] = cov
        for ei, e in enumerate(fam['entries']):
            adapter = e['adapter']
            cls = getattr(adapter, 'tuple_cls', None)
            if cls is None:
                continue
            hdr, enum_name, tagv = e['doc']
            if (hdr, enum_name) not in docs:
                docs[(hdr, enum_name)] = cxl.documented_payload_formats(fv.REPO, hdr, enum_name)
            tag_name, fmt_text = docs[(hdr, enum_name)].get(tagv, (None, None))
            fmt = cxl.resolve_payload_format(fmt_text, table)
            first = carriers[0]['s']
            if fmt is None:
                cov['format_unknown'].append('%s (%s::%s: %r)' % (cls.__name__, enum_name, tag_name, fmt_text))
            else:
                cov['documented_formats'][cls.__name__] = '%s = %d B' % (fmt[2], fmt[1])
                try:
                    own_size = adapter.sizeof()
                except Exception:
                    own_size = None
                ctx.case('family|%s|format' % cls.__name__)
                if own_size is not None and own_size != fmt[1]:
                    report(first, cls, 'value-format',
                           '%s::%s documents the payload format %s (%d bytes, sizes from the compiler); the Python construct of %s is %d bytes'
                           % (enum_name, tag_name, fmt_text, fmt[1], cls.__name__, own_size),
                           {'class': cls.__name__, 'documented': fmt_text, 'cxx_size': fmt[1], 'python_size': own_size})
            sub = b''
            if e.get('sub'):
                ss = table.get(e['sub'])
                if ss is None:
                    continue
                subb = bytearray(ss['sizeof'])
                sl = {l['path']: l for l in flatten(table, ss)}
                for path, v in e['sub_values'].items():
                    if path in sl:
                        subb[sl[path]['offset']:sl[path]['offset'] + sl[path]['size']] = int(v).to_bytes(sl[path]['size'], 'little')
                sub = bytes(subb)
            vals = self.family_values(cls, adapter)
            if vals:
                cov['classes'] += 1
            for obj, own in vals:
                want = own
                if fmt is not None and len(obj) == 1 and fmt[0] in ('u', 'i', 'enum', 'bool', 'char', 'f'):
                    v = obj[0]
                    try:
                        if fmt[0] in ('u', 'i', 'enum'):
                            want = int(v).to_bytes(fmt[1], 'little', signed=(fmt[0] == 'i'))
                        elif fmt[0] == 'bool':
                            want = bytes([1 if v else 0])
                        elif fmt[0] == 'char':
                            raw = v.encode('utf-8')
                            if len(raw) > fmt[1]:
                                continue
                            want = raw + bytes(fmt[1] - len(raw))
                        else:
                            want = struct.pack('<f' if fmt[1] == 4 else '<d', v)
                    except (OverflowError, TypeError, ValueError, AttributeError):
                        continue             # not a value of the documented C++ type
                elif fmt is not None and fmt[0] == 'none':
                    want = b''
                elif fmt is not None and len(own) != fmt[1]:
                    continue                 # already reported as value-format
                if own != want:
                    report(first, cls, 'value-bytes',
                           '%r: the construct of the class writes %s; the documented C++ payload (%s) is %s'
                           % (obj, own.hex(), fmt_text, want.hex()), {'class': cls.__name__, 'value': repr(obj)})
                    continue
                items.append({'cls': cls, 'obj': obj, 'want': want, 'sub': sub, 'tag': e['tag'], 'iface': e.get('interface'),
                              'adapter': adapter, 'ei': ei, 'fmt': (fmt_text if fmt else 'size of the class construct')})
        cov['values'] = len(items)
        if not items:
            return

        def key_of(it):
            try:
                k = tuple(it['obj'])
                hash(k)
                return k
            except Exception:
                return ('unhashable', id(it))
        groups = {}
        for it in items:
            placed = False
            k = key_of(it)
            for gk in groups:
                try:
                    if gk == k and hash(gk) == hash(k):
                        groups[gk].append(it)
                        placed = True
                        break
                except Exception:
                    pass
            if not placed:
                groups[k] = [it]
        glist = list(groups.values())
        cov['shared_value_groups'] = sum(1 for g in glist if len(set(i['cls'] for i in g)) > 1)
        cov['largest_group'] = max(len(g) for g in glist)

        history = []

        def step(it, order):
            cls, obj = it['cls'], it['obj']
            tail = it['sub'] + it['want']
            for c in carriers:
                s, subj = c['s'], c['subj']
                size = s['sizeof']
                tl, ll = c['tag_leaf'], c['len_leaf']
                img = bytearray(size)
                img[tl['offset']:tl['offset'] + tl['size']] = it['tag'].to_bytes(tl['size'], 'little')
                img[ll['offset']:ll['offset'] + ll['size']] = len(tail).to_bytes(ll['size'], 'little')
                img = bytes(img) + tail
                ctx.case('family|%s|%s|%r|%s' % (s['key'], cls.__name__, obj, history[-1] if history else ''))
                cov['steps'] += 1
                replay = {'carrier': s['key'], 'class': cls.__name__, 'value': repr(obj), 'order': order,
                          'serialised_before_in_this_process': list(history[-6:]), 'cxx_image': img.hex(),
                          'documented_payload': it['fmt']}
                where = ' (order: %s; serialised just before: %s)' % (order, '; '.join(history[-3:]) or 'nothing')
                # ---- write
                try:
                    o = c['make'](obj, it['iface'])
                    b = subj.pack(o)
                    cs = subj.calcsize(o)
                except Exception as e:
                    report(s, cls, 'cannot-pack', '%s carrying %r cannot be serialised: %r%s' % (s['key'], obj, e, where), replay)
                    history.append('%s(%r) via %s' % (cls.__name__, tuple(obj), s['key']))
                    continue
                replay['packed'] = b.hex()
                got_len = int.from_bytes(b[ll['offset']:ll['offset'] + ll['size']], 'little') if len(b) >= size else None
                if len(b) != len(img) or got_len != len(tail):
                    report(s, cls, 'value-size',
                           '%s carrying %r packed %d bytes with %s = %s; the C++ layout is sizeof(%s) = %d%s + payload %s = %d bytes with %s = %d: packed %s, C++ image %s%s'
                           % (s['key'], obj, len(b), c['length'], got_len, s['key'], size,
                              (' + %d-byte sub-header' % len(it['sub'])) if it['sub'] else '', it['fmt'], len(img), c['length'],
                              len(tail), b.hex(), img.hex(), where), replay)
                elif b[tl['offset']:tl['offset'] + tl['size']] != img[tl['offset']:tl['offset'] + tl['size']]:
                    report(s, cls, 'value-tag', '%s carrying %r wrote %s = %s at [%d,%d); the tag of %s is %d%s'
                           % (s['key'], obj, c['tag'], b[tl['offset']:tl['offset'] + tl['size']].hex(), tl['offset'],
                              tl['offset'] + tl['size'], cls.__name__, it['tag'], where), replay)
                elif b[size:] != tail:
                    report(s, cls, 'value-bytes', '%s carrying %r wrote %s after the fixed part; the C++ encoding is %s%s'
                           % (s['key'], obj, b[size:].hex(), tail.hex(), where), replay)
                if cs != len(img):
                    report(s, cls, 'value-size', '%s carrying %r: calcsize() = %r, the C++ layout has %d bytes%s'
                           % (s['key'], obj, cs, len(img), where), replay)
                # ---- read the C++ image, and write the decoded object again
                try:
                    o2, n = subj.unpack(img)
                    v2 = getattr(o2, c['attr'])
                    b2 = subj.pack(o2)
                except Exception as e:
                    report(s, cls, 'value-read', '%s: the C++ image %s of %r is rejected: %r%s' % (s['key'], img.hex(), obj, e, where), replay)
                    v2 = None
                else:
                    if type(v2) is not cls or not self._same_fields(tuple(v2), tuple(obj)) or n != len(img):
                        report(s, cls, 'value-read', '%s: the C++ image %s decodes to %r (%d bytes consumed); it denotes %r (%d bytes)%s'
                               % (s['key'], img.hex(), v2, n, obj, len(img), where), replay)
                    elif b2 != img:
                        report(s, cls, 'value-bytes', '%s: the object decoded from the C++ image %s packs to %s%s'
                               % (s['key'], img.hex(), b2.hex(), where), dict(replay, packed=b2.hex()))
                history.append('%s(%s) via %s' % (cls.__name__, ', '.join(repr(x) for x in obj), s['key']))

        def run_order(name, seq):
            cov['orders'].append(name)
            for it in seq:
                step(it, name)

        # equal values adjacent; the i-th group starts at its i-th class, so that over the values every class of a field shape is
        # at some point the first of its shape that this process has ever serialised
        grouped = [it for i, g in enumerate(glist) for it in (g[i % len(g):] + g[:i % len(g)])]
        run_order('equal values adjacent, the i-th value starting at its i-th class', grouped)
        run_order('the reverse order', list(reversed(grouped)))
        sh = list(items)
        ctx.rng.shuffle(sh)
        run_order('seeded shuffle of all (class, value) pairs', sh)
        run_order('registry order, class by class', list(items))
        # every ordered pair of different classes holding an equal value, the two serialised one after the other
        pairs = []
        for g in glist:
            for a in g:
                for b_ in g:
                    if a['cls'] is not b_['cls']:
                        pairs.append((a, b_))
        if not ctx.thorough and len(pairs) > 600:
            ctx.rng.shuffle(pairs)
            pairs = pairs[:600]
        cov['ordered_pairs'] = len(pairs)
        run_order('ordered pairs of different classes with an equal value', [x for p in pairs for x in p])


def guard_bytes(n, k=0):
    """Never-zero, non-periodic-looking filler for caller-supplied buffers (a shifted copy does not match)."""
    return bytes(0x80 | ((i * 37 + 11 * k + 5) & 0x7f) for i in range(n))


def spellings(vals, shape, cur, proto, rng):
    """Equivalent spellings of one logical array value: (name, python value, strict). strict = the kind of object the
    class itself stores in the attribute (constructor default / result of unpack), so it must be accepted; the other
    spellings may be refused by pack(), but when they are accepted the bytes must be the same."""
    out = []
    nd = len(shape)
    arr_native = isinstance(proto, np.ndarray) or isinstance(cur, np.ndarray)
    list_native = isinstance(cur, list) or isinstance(proto, list)
    tuple_native = isinstance(cur, tuple) or isinstance(proto, tuple)
    src = proto if isinstance(proto, np.ndarray) else (cur if isinstance(cur, np.ndarray) else None)
    if src is not None:
        dtype = src.dtype
    elif all(isinstance(v, (bool, np.bool_)) for v in vals):
        dtype = np.dtype(bool)
    elif all(isinstance(v, (int, np.integer)) for v in vals):
        dtype = np.dtype(np.int64)
    else:
        dtype = np.dtype(np.float64)
    try:
        A = np.array(vals, dtype=dtype).reshape(shape)
        exact = all((a != a and v != v) or a == v for a, v in zip(A.ravel().tolist(), vals))
    except Exception:
        A, exact = None, False
    nested = A.tolist() if (A is not None and exact) else None
    if nested is None and nd == 1:
        nested = list(vals)
    if A is not None and exact:
        rev = (slice(None, None, -1),) * nd
        out.append(('ndarray C-contiguous', A.copy(order='C'), arr_native))
        out.append(('ndarray reversed view (negative strides)', A[rev].copy()[rev], arr_native))
        big = np.zeros(tuple(2 * d + 1 for d in shape), dtype=dtype)
        view = big[(slice(1, None, 2),) * nd]
        view[...] = A
        out.append(('ndarray strided view (every second element of a larger array)', view, arr_native))
        if nd >= 2:
            out.append(('ndarray Fortran-ordered (np.asfortranarray)', np.asfortranarray(A), arr_native))
            out.append(('ndarray transposed view of the transposed matrix (M.T with M = A.T.copy())',
                        np.ascontiguousarray(A.T).T, arr_native))
            stack = np.zeros(shape + (2,), dtype=dtype, order='F')
            stack[..., 1] = A
            out.append(('ndarray slice of a column-major stack', stack[..., 1], arr_native))
        ro = A.copy()
        ro.setflags(write=False)
        out.append(('ndarray read-only', ro, arr_native))
        if dtype.itemsize > 1 and dtype.kind in 'fiu':
            out.append(('ndarray non-native byte order dtype', A.astype(dtype.newbyteorder('>' if dtype.byteorder in '=<|' else '<')), False))
        # other dtypes that hold the values exactly
        alts = []
        if dtype.kind == 'f':
            alts += [np.float32, np.float64, np.longdouble]
            if all(v == v and float(v).is_integer() and abs(v) < 2 ** 31 for v in vals):
                alts += [np.int64, np.int32]
        elif dtype.kind in 'iu':
            alts += [np.int64, np.uint64, np.int32, np.uint8, np.float64, object]
        for dt in alts:
            if np.dtype(dt) == dtype:
                continue
            try:
                with np.errstate(all='ignore'):
                    B = A.astype(dt)
                same = all((b != b and v != v) or b == v for b, v in zip(B.ravel().tolist(), vals))
            except Exception:
                continue
            if same:
                out.append(('ndarray dtype %s' % np.dtype(dt).name, B, False))
                if nd >= 2:
                    out.append(('ndarray dtype %s Fortran-ordered' % np.dtype(dt).name, np.asfortranarray(B), False))
    if nested is not None:
        def tup(x):
            return tuple(tup(y) for y in x) if isinstance(x, list) else x
        out.append(('nested list' if nd > 1 else 'list', nested, list_native))
        out.append(('nested tuple' if nd > 1 else 'tuple', tup(nested), tuple_native))
    if type(cur) not in (np.ndarray, list, tuple) and isinstance(cur, (list, tuple)) and nd == 1:
        try:
            out.append((type(cur).__name__, type(cur)(list(vals)), True))
        except Exception:
            pass
    return out


# ---------------------------------------------------------------------------------------------------------------
def translate(ctx):
    """Stage A. Returns the layout dict; raises InfraError / records a proof failure per DESIGN 2.4."""
    compilers = ('g++', 'clang++') if ctx.thorough else ('g++',)
    snap = cxl.snapshot_hashes(fv.LEAN)
    try:
        r = cxl.generate(fv.REPO, fv.BUILD, fv.LEAN, compilers)
    except cxl.LayoutError as e:
        changed = True
        if e.header is not None and snap:
            try:
                _, h = None, None
                raw = open(os.path.join(fv.REPO, cxl.HEADER_DIR, e.header)).read()
                text, _ = cxl.preprocess(cxl.strip_comments(raw), e.header)
                import hashlib
                h = hashlib.sha256(' '.join(text.split()).encode()).hexdigest()[:16]
                changed = snap.get(e.header) != h
            except Exception:
                changed = True
        elif e.header is None:
            # probe build failure: infrastructure unless some header differs from the snapshot
            try:
                _, hashes = cxl.read_headers(fv.REPO)
                changed = any(snap.get(k) != v for k, v in hashes.items()) if snap else False
            except cxl.LayoutError:
                changed = True
        if not changed:
            raise fv.InfraError('c02_cxx_layout: %s' % e)
        ctx.proof_failures.append('translator: the changed header %s can no longer be read / compiled: %s'
                                  % (e.header or '(probe)', str(e)[:600]))
        return None
    return r


def run(ctx, r, only=None):
    layout = r['structs']
    table = {s['key']: s for s in layout}
    try:
        nm._messages()
    except Exception as e:
        raise fv.InfraError('fusion_engine_client.messages cannot be imported: %r' % (e,))
    try:
        members = nm.members()
    except Exception as e:
        # the map names Python classes / enum members that no longer exist: report it, probe with the default rules
        ctx.violation('C02/name-map/python-name-missing', 'the name map refers to a Python name that does not exist: %r' % (e,), {})
        members = {}
    for key, text in r['tiling']:
        ctx.violation('C02/%s/*/layout-not-packed' % key,
                      'members do not tile the struct (padding inserted by the compiler, or a member the header reader missed): ' + text,
                      {'struct': key, 'layout': table[key]})
    for text in r['compiler_differences']:
        ctx.violation('C02/compilers-disagree', text, {'compilers': r['compilers']})
    unknown = [k for k in members if k not in table]
    if unknown:
        ctx.notes.append('name map entries without a C++ struct: %s' % unknown)
    pr = Probe(ctx, table, members, only)
    no_counterpart = []
    for s in layout:
        if only and s['key'] != only['struct']:
            continue
        try:
            subj = nm.subject_for(s)
        except Exception as e:
            ctx.violation('C02/%s/*/python-counterpart-missing' % s['key'],
                          'the Python counterpart named by the map cannot be found: %r' % (e,), {'struct': s['key']})
            continue
        if subj is None:
            no_counterpart.append(s['key'])
            continue
        for m in members.get(s['key'], {}):
            if m.split('.')[0] not in [x['name'] for x in s['members']]:
                ctx.violation('C02/%s/%s/no-such-member' % (s['key'], m),
                              'the name map mentions C++ member %s.%s which the header no longer declares' % (s['key'], m), {})
        ctx.count('structs_probed')
        pr.run_struct(s, subj)
    # families of value classes behind a type tag, in several orders within this process
    if not only or str(only.get('member') or '').startswith('value:'):
        pr.value_families()
    # stage C: the Lean model
    outs = ctx.driver(pr.lines)
    for line, (want, replay), got in zip(pr.lines, pr.expect, outs):
        ctx.cov['traces_validated_against_impl'] += 1
        if want is not None and got != want:
            ctx.disagree('Lean model %s: answered %s, harness expected %s' % (line.split(' ')[0], got[:120], want[:120]),
                         dict(replay, request=line[:400]))
    cov = ctx.cov
    cov['structs_total'] = len(layout)
    cov['structs_probed'] = sorted(pr.report)
    cov['structs_without_python_counterpart'] = no_counterpart
    cov['members_excluded'] = [dict(e, struct=k) for k, v in pr.report.items() for e in v['excluded']]
    cov['notes_on_members'] = sorted(set(n for v in pr.report.values() for n in v['notes']))
    cov['per_struct'] = {k: {x: v[x] for x in ('python', 'sizeof', 'python_default_size', 'leaves', 'units', 'read_probes', 'write_probes',
                                               'buffer_probes', 'buffer_read_probes', 'array_probes', 'version_probes',
                                               'cxx_message_version', 'attributes_withheld_at_older_versions')
                             if x in v} for k, v in pr.report.items()}
    cov['compilers'] = r['compilers']
    cov['generated_per_struct_lemmas'] = 4 * len(layout) + 1
    for smp in pr.expect[1:4]:
        ctx.sample({k: smp[1].get(k) for k in ('struct', 'unit', 'pattern', 'python_attribute', 'call', 'spelling', 'what')
                    if smp[1].get(k) is not None})


def search(ctx):
    """Stage E: the member probing is the oracle; widen it (more random patterns) when a proof or the model broke."""
    r = getattr(ctx, '_c02_layout', None)
    if r is None:
        return
    ctx.thorough = True
    run(ctx, r)


def check(ctx):
    ctx.cov['rule'] = ('every P1_ALIGNAS(4) struct of messages/*.h with a Python counterpart x every leaf member (nested structs '
                       'flattened, arrays element-wise) x several bit patterns valid for the member kind (1, distinct bytes, top bit set, '
                       'max-1, random; enum members; sentinels; exact dyadic timestamps; lengths with matching tails and over-long '
                       'announcements) x both directions: write the pattern into exactly the compiler-reported byte range of an otherwise '
                       'valid encoding and require that exactly the mapped Python attribute changes to the denoted value; set the attribute '
                       'and require that exactly that byte range changes to the pattern; plus total fixed size = sizeof. '
                       'Call forms: every object packed (base object and every write probe) is also serialised with pack(buffer, offset) '
                       'into a caller-supplied guard-filled buffer at zero and non-zero offsets (positional/keyword, return_buffer on/off): '
                       'the same bytes at offset + offsetof(member), guards untouched, reported size = size of the encoding; every encoding '
                       'unpacked is also unpacked with unpack(buffer, offset != 0): same object, same bytes consumed. '
                       'Array members as a whole: per-element distinct (non-symmetric) content given in every equivalent spelling '
                       '(C-contiguous, Fortran-ordered, transposed view, column-major slice, strided / reversed / read-only views, other byte '
                       'order and exactly converting dtypes, nested list / tuple) must give element [i] (row-major) at offset + i * elem_size. '
                       'Value classes behind a type tag (every class of the configuration-value and fault-payload registries): the '
                       'class default and a pool of values shared between classes of the same field shape (small integers, bauds, enum '
                       'members, strings), each carried by every carrier message (SetConfigMessage, ConfigResponseMessage, '
                       'FaultControlMessage) in several orders inside one process (equal values adjacent, reversed, seeded shuffle, class by '
                       'class, every ordered pair of different classes holding an equal value): the message must be the C++ image for ITS '
                       'class (tag and length at the compiler offsets, sub-header struct, payload of the size the header documents for the '
                       'tag: struct sizeof from the compiler, fixed-width scalars) whatever was serialised before, calcsize() the same, and '
                       'the C++ image must decode to that class and value and pack back to itself. '
                       'Entry points that are told the message version: the C++ struct is the layout of its MESSAGE_VERSION (read from '
                       'the compiler), so every encoding the read probes unpack is also decoded with unpack(buffer, offset, '
                       'message_version = that version) (positional / keyword, offset 0 and inside a larger buffer) and, framed with a '
                       'header carrying that version, by FusionEngineDecoder, by MixedLogReader reading a log file and by '
                       'MixedLogReader.parse_entry_at_index (quick: the base pattern and two value-moving patterns per member; thorough: '
                       'all): the probed member must have the value its bytes denote and the object must equal the one unpack() without a '
                       'version builds; what older versions withhold is listed per struct, not judged. '
                       'non-trivial = pattern differs from the base value; distinct = (struct, unit, direction, pattern)')
    ctx.assumptions += [
        'g++ (and clang++ in the thorough tier) on x86-64 stands for "the C++ compiler": the layout theorems are about the table it printed',
        'the name map tools/c02_namemap.py (C++ member -> Python attribute, value codec) is hand-written; a wrong entry produces a violation, not a pass',
        'value codecs that involve float arithmetic (Timestamp, scaled fields) are probed at exactly representable values only; rounding is C01',
        'top byte of 32-bit length fields is probed only through over-long announcements that must be rejected',
    ]
    r = translate(ctx)
    ctx._c02_layout = r
    ctx.prove(MODULES)
    ctx.cov['trusted_base'].append('tools/c02_cxx_layout.py as a reader of member names (every number comes from the compiler; '
                                   'the probe checks that the members found tile the struct)')
    if r is not None:
        try:
            run(ctx, r)
        except fv.InfraError:
            if not ctx.proof_failures:
                raise
    return fv.finish(ctx, 'proof', search)


def replay(ctx, path):
    obj = json.load(open(path))
    inp = obj['input']
    r = translate(ctx)
    if r is None:
        raise fv.InfraError('layout cannot be regenerated')
    only = {'struct': inp.get('struct'), 'member': inp.get('member'), 'unit': inp.get('unit'),
            'pattern': inp.get('pattern'), 'mode': inp.get('mode')}
    if only['member'] == '*' or not only['struct']:
        only = {'struct': inp.get('struct')} if inp.get('struct') else None
    run(ctx, r, only)
    return fv.finish(ctx, 'proof', None)
