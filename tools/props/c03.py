"""C03 - enumerations, command/response classification and the message-type registry agree between C++ and Python.

Stage A  both translators (tools/c03_cxx_extract.py: names parsed, values from a compiled C++ probe;
         tools/c03_py_extract.py: fresh interpreter on the working tree, cross-checked with ast.parse) regenerate
         lean/FeVerif/Generated/C03Cxx.lean and C03Py.lean (rewritten only when the content changes).
Stage B  lake build FeVerif.Props.C03: every theorem is a kernel `decide` over the regenerated tables.
Stage C  the tables are re-observed independently: the generated Lean text is decoded back and compared with the
         translator output; every Python value is re-read in this process (`int(Enum[NAME])`, `is_command`, `get_version`);
         in the thorough tier the C++ probe is rebuilt with the second compiler and must print the same table.
Stage D  the same relations as the theorems, evaluated by a plain diff of the two tables in Python: every difference is a
         concrete witness (enumerator / message type / class) with its own signature.
Enumerations as a user reaches them (tools/c03_py_access.py): besides `__members__` right after the import, every enumeration
         is asked for every name and number that ANY enumeration defines through every access path (`E.NAME`, `E['NAME']`,
         `E('NAME')`, `E.from_string`, lower-/mixed-case spellings, `E(number)`, `E[number]`, iteration, reversed,
         `__members__`, the raise_on_unrecognized=False forms), each order of asking in its own fresh interpreter: forward and
         reverse (in the Lean table `accessViews`; theorems C03_every_access_path_agrees, C03_access_paths_covered,
         C03_no_name_resolves_outside_its_enumeration) plus, per run, seeded random orders / nestings judged by stage D.
         Every answer that is not the C++ number is a violation naming enumeration, name, path, order and both numbers.
         Foreign look-alikes: the same sweep in fresh interpreters in which an APPLICATION has first defined and used its own
         classes under the names of the protocol enumerations (`class DataType(IntEnum)`, `@enum_bitmask(X) class XMask`; same /
         other member counts, names, numbers, __module__ / __qualname__; before the import, before the first question, after
         the first iteration - `lookalike_specs`): the protocol enumerations must still answer with the C++ numbers.
Classification in every call form and at every moment: the C++ translator lists every DECLARATION of IsCommand / IsResponse
         in the headers (overloads, members) and the probe calls each with an argument of its declared parameter type for
         every MessageType enumerator (`callForms`, theorem C03_every_call_form_agrees); the Python translator scans every
         module of the package for statements that modify COMMAND_MESSAGES / RESPONSE_MESSAGES / the registry dictionaries
         through any alias (tools/c03_py_alias.py; `mutationSites`, theorem C03_classification_tables_never_modified) and
         executes each site in a fresh interpreter; stage D reports each differing (form, message type) and each site with
         the tables before/after and the resulting differences from the C++ classification.
Every language standard: the Lean tables are printed by the probe compiled with the project's own standard (CMAKE_CXX_STANDARD
         of the repository's CMakeLists.txt, read by the translator); the probe is rebuilt under every later standard (c++14,
         c++17, c++20; thorough: with both compilers) and each table goes through the same stage-D judgement against Python
         (`diff_variants`): a finding names the compiler and the standard, signature `<signature>/std=c++NN`.
After use:  the registry relation is re-observed in a fresh interpreter after each public entry point that handles payload
         classes has been exercised on a generated log with gaps for every type (tools/c03_py_usage.py: encode, decode,
         MixedLogReader, DataLoader.read, time alignment DROP / INSERT, numpy conversion, look-ups, import of every module);
         every snapshot is judged like the table (`diff_usage`: which entry point, which type, which classes), and every class
         statement outside messages/*.py whose base is a payload class is a finding of its own.
"""
import json
import os
import re
import subprocess
import sys

import fv

sys.path.insert(0, os.path.dirname(os.path.dirname(os.path.abspath(__file__))))
import c03_common as cc          # noqa: E402
import c03_cxx_extract as cx     # noqa: E402
import c03_py_extract as px      # noqa: E402
import c03_py_access as pacc     # noqa: E402
import c03_py_usage as pus       # noqa: E402

MODULES = ['FeVerif.Props.C03']
GEN = os.path.join(fv.LEAN, 'FeVerif', 'Generated')
SIDE = os.path.join(GEN, 'C03.sources.json')
SPEC = os.path.join(fv.LEAN, 'FeVerif', 'Spec', 'C03.lean')


# ---- the hand-written pairing table is read from the Lean specification (single source) -------------
def pairing():
    src = fv.strip_comments(open(SPEC).read())
    m = re.search(r'def enumPairs : List Pair := \[(.*?)\n\]', src, re.S)
    m2 = re.search(r'def pyNotOnWire : List Nat := \[(.*?)\]', src, re.S)
    if not m or not m2:
        raise fv.InfraError('cannot read enumPairs / pyNotOnWire from Spec/C03.lean')
    pairs = []
    body = m.group(1)
    pos = 0
    item = re.compile(r'\s*(?:same "([^"]+)"|\{([^}]*)\})\s*(,|$)')
    while pos < len(body):
        if not body[pos:].strip():
            break
        mm = item.match(body, pos)
        if not mm:
            raise fv.InfraError('cannot read pairing table entry near: %r' % body[pos:pos + 80])
        if mm.group(1):
            pairs.append({'cxx': mm.group(1), 'py': mm.group(1), 'cxx_sent': [], 'py_sent': []})
        else:
            rec = mm.group(2)
            f = dict((k, v.strip()) for k, v in re.findall(r'(\w+) := (nm "[^"]+"|\[[^\]]*\])', rec))
            if set(f) - {'cxx', 'py', 'cxxSentinels', 'pySentinels'} or 'cxx' not in f or 'py' not in f:
                raise fv.InfraError('cannot read pairing table entry {%s}' % rec)

            def names(txt):
                return [a or b for a, b in re.findall(r'nm "([^"]+)"|\b(MAX_VALUE)\b', txt)]
            pairs.append({'cxx': names(f['cxx'])[0], 'py': names(f['py'])[0],
                          'cxx_sent': names(f.get('cxxSentinels', '')), 'py_sent': names(f.get('pySentinels', ''))})
        pos = mm.end()
    exempt = re.findall(r'nm "([^"]+)"', m2.group(1))
    return pairs, exempt


# ---- stage A ----------------------------------------------------------------------------------------
def sources_now():
    return {'cxx': cc.sha256_files(cx.header_paths(fv.REPO)), 'py': cc.sha256_files(px.source_paths(fv.REPO)),
            'py_package': px.package_source_hashes(fv.REPO)}


def translate(ctx):
    """-> (cxx table, py table) or raises TranslateError."""
    cxx = cx.extract(fv.REPO, fv.BUILD)
    env = dict(os.environ, FE_REPO=fv.REPO, FE_LEAN=fv.LEAN, FE_BUILD=fv.BUILD,
               PYTHONPATH=os.path.join(fv.REPO, 'python'), PYTHONDONTWRITEBYTECODE='1')
    p = subprocess.run([sys.executable, os.path.join(fv.VERIF, 'tools', 'c03_py_extract.py')], env=env,
                       stdout=subprocess.PIPE, stderr=subprocess.DEVNULL, text=True, timeout=300)
    if p.returncode == 2 and 'TRANSLATE-ERROR:' in p.stdout:
        msg = p.stdout.split('TRANSLATE-ERROR:', 1)[1].strip()
        raise cc.TranslateError('python', msg)
    if p.returncode != 0:
        raise fv.InfraError('c03_py_extract.py failed: ' + p.stdout[-800:])
    py = json.load(open(os.path.join(fv.BUILD, 'c03_py.json')))
    for prob in py.get('source_vs_runtime', []):
        # the table carries the run-time values; a source that says something else is reported in any case
        ctx.disagree('python source differs from the imported package: ' + prob, {'source_vs_runtime': prob})
    changed = cc.write_if_changed(os.path.join(GEN, 'C03Cxx.lean'), cx.to_lean(cxx))
    with open(os.path.join(fv.BUILD, 'c03_cxx.json'), 'w') as f:
        json.dump(cxx, f, indent=1)
    ctx.notes.append('C03Cxx.lean %s' % ('rewritten' if changed else 'unchanged'))
    cc.write_if_changed(SIDE, json.dumps({'cxx': cxx['sources'], 'py': py['sources'], 'py_package': py['package_sources']},
                                         indent=1, sort_keys=True) + '\n')
    return cxx, py


# ---- stage C: independent re-observation of the tables ------------------------------------------------
def parse_generated(path):
    """Decode a generated Lean table back: {def name: [tuple of literals + trailing comment]}."""
    res, cur = {}, None
    for line in open(path):
        m = re.match(r'def (\w+) : .* := \[', line)
        if m:
            cur = m.group(1)
            res[cur] = []
            continue
        if cur and line.startswith(']'):
            cur = None
            continue
        if cur:
            m = re.match(r'\s*(.*?),? -- (.*)$', line.rstrip('\n'))
            if not m:
                raise fv.InfraError('%s: unreadable generated line %r' % (path, line))
            body, comment = m.group(1).strip(), m.group(2)
            toks = re.findall(r'0x[0-9a-f]+|\(-\d+\)|callForm_\d+|viewOf_\w+|view_\w+|enum_\w+|-?\d+|true|false', body)
            vals = []
            for t in toks:
                if t.startswith('0x'):
                    vals.append(cc.decode(int(t, 16)))
                elif t in ('true', 'false'):
                    vals.append(t == 'true')
                elif t.startswith(('enum_', 'callForm_', 'view_', 'viewOf_')):
                    vals.append(t)
                else:
                    vals.append(int(t.strip('()')))
            res[cur].append((tuple(vals), comment))
    return res


def correspond(ctx, cxx, py):
    # (1) the Lean text is the table: decode every code back to its name and compare with the translator output
    gc = parse_generated(os.path.join(GEN, 'C03Cxx.lean'))
    gp = parse_generated(os.path.join(GEN, 'C03Py.lean'))
    n = 0
    for side, tab, g, elist in (('cxx', cxx, gc, cxx['enums'] + cxx['const_groups']),
                                ('py', py, gp, [e for e in py['enums'] if e['kind'] == 'declared'])):
        for e in elist:
            got = g.get('enum_' + cc.lean_ident(e['name']))
            want = [((m, v), m) for m, v in e['members']]
            if got != want:
                ctx.disagree('generated Lean table of %s enum %s differs from the translator output' % (side, e['name']),
                             {'enum': e['name'], 'lean': got, 'translator': want})
            n += len(want)
    want = [((v, c, r), m) for m, v, c, r in cxx['classification']]
    if gc.get('classification') != want:
        ctx.disagree('generated Lean classification table differs from the probe output', {'lean': gc.get('classification')})
    want = [((f['function'], f['text'], 'callForm_%d' % k), f['text']) for k, f in enumerate(cxx['call_forms'])]
    if gc.get('callForms') != want:
        ctx.disagree('generated Lean callForms table differs from the probe output', {'lean': gc.get('callForms')})
    for k, f in enumerate(cxx['call_forms']):
        want = [((v, r), m) for m, v, r in f['results']]
        if gc.get('callForm_%d' % k) != want:
            ctx.disagree('generated Lean table of call form %s differs from the probe output' % f['text'],
                         {'lean': gc.get('callForm_%d' % k)})
        n += len(want)
    want = [(s['object'], s['file'], s['line']) for s in py['mutation_sites']]
    if [v for v, _ in gp.get('mutationSites', [((None,), '')])] != want:
        ctx.disagree('generated Lean mutationSites table differs from the translator output', {'lean': gp.get('mutationSites')})
    want = [((s['name'], s['type'], s['version']), s['name']) for s in cxx['structs']]
    if gc.get('structs') != want:
        ctx.disagree('generated Lean struct table differs from the probe output', {'lean': gc.get('structs')})
    want = [((c['name'], c['type'], c['version']), c['name']) for c in py['payload']]
    if gp.get('payloadClasses') != want:
        ctx.disagree('generated Lean payloadClasses table differs from the translator output', {'lean': gp.get('payloadClasses')})
    want = [((c['type'], c['name'], c['version']), c['name']) for c in py['registry']]
    if gp.get('registry') != want:
        ctx.disagree('generated Lean registry table differs from the translator output', {'lean': gp.get('registry')})
    for key, nm in (('command', 'commandTypes'), ('response', 'responseTypes')):
        want = [((v,), m) for m, v in py[key]]
        if gp.get(nm) != want:
            ctx.disagree('generated Lean %s differs from the translator output' % nm, {'lean': gp.get(nm)})
    # the access-path views: resolve every reference of the Lean text down to the literal lists and compare with the sweeps
    views = px.access_views(py)
    lean_views = []
    for (label, path, by_value, ref), _ in gp.get('accessViews', []):
        tabs = []
        for (en, r2), _ in gp.get(ref, []):
            tabs.append((en, [tuple(x) for x, _ in gp.get(r2, [((None, None), '')])]))
        lean_views.append((label, path, by_value, tabs))
    if lean_views != views or not views:
        ctx.disagree('generated Lean accessViews differ from what the access sweeps returned',
                     {'lean': [v[:3] for v in lean_views], 'sweeps': [v[:3] for v in views]})
    if [v for v, _ in gp.get('accessExtraNames', [((None,), '')])] != px.access_extras(py):
        ctx.disagree('generated Lean accessExtraNames differ from what the access sweeps returned', {})
    ctx.cov['traces_validated_against_impl'] += sum(len(m) for v in views for _, m in v[3])
    ctx.cov['traces_validated_against_impl'] += n
    # (2) observe the Python package directly in this process (the translator ran in a fresh interpreter)
    import importlib
    defs = importlib.import_module('fusion_engine_client.messages.defs')
    importlib.import_module('fusion_engine_client.messages')
    for e in py['enums']:
        if e['kind'] != 'declared':
            continue
        cls = getattr(importlib.import_module(e['module']), e['name'])
        live = dict((k, int(v)) for k, v in cls.__members__.items() if not k.startswith('_U'))
        if live != dict((m, v) for m, v in e['members']):
            ctx.disagree('int(%s.NAME) observed in-process differs from the translator table' % e['name'],
                         {'enum': e['name'], 'live': live, 'table': e['members']})
        ctx.cov['traces_validated_against_impl'] += len(live)
    cmd = sorted(int(t) for t in defs.MessageType if defs.is_command(t))
    rsp = sorted(int(t) for t in defs.MessageType if defs.is_response(t))
    if cmd != sorted(v for _, v in py['command']) or rsp != sorted(v for _, v in py['response']):
        ctx.disagree('is_command()/is_response() observed in-process differ from the translator table', {'cmd': cmd, 'rsp': rsp})
    live = sorted((int(t), c.__name__, int(c.get_version())) for t, c in defs.MessagePayload.message_type_to_class.items())
    if live != sorted((c['type'], c['name'], c['version']) for c in py['registry']):
        ctx.disagree('message_type_to_class observed in-process differs from the translator table', {'live': live})
    # (3) thorough: the second compiler prints the same table
    if ctx.thorough:
        other = 'clang++' if cx.compiler() != 'clang++' else 'g++'
        try:
            t2 = cx.extract(fv.REPO, os.path.join(fv.BUILD, 'c03_second'), cxx=other)
            for k in ('enums', 'const_groups', 'classification', 'structs', 'call_forms'):
                if t2[k] != cxx[k]:
                    ctx.disagree('%s and %s print different %s tables' % (cx.compiler(), other, k), {'second': t2[k]})
            ctx.cov['second_compiler'] = other + ': same table'
        except cc.TranslateError as e:
            ctx.disagree('probe does not build with %s: %s' % (other, e), {})


# ---- stage D: the oracle = plain diff of the two tables ----------------------------------------------
class _Variant(object):
    """The same context, case texts prefixed with the compiler configuration (a case under another standard is another case)."""

    def __init__(self, ctx, tag):
        self._ctx, self._tag = ctx, tag

    def case(self, text, **kw):
        return self._ctx.case('[%s] %s' % (self._tag, text), **kw)

    def __getattr__(self, name):
        return getattr(self._ctx, name)


def config_text(cxx):
    c = cxx.get('config') or {}
    return '%s -std=%s' % (c.get('compiler'), c.get('std'))


def diff_tables(ctx, cxx, py, only=None, variant=None, reported=None):
    """variant=None: the tables of the project's own language standard (the ones the Lean theorems are about).
    variant='std=c++14' ...: the same judgement on the tables printed under another standard / compiler; a finding that the
    project's own standard shows identically (same witness, same values) is not repeated, every other one gets its own
    signature `<signature>/<variant>` and names the configuration."""
    pairs, exempt = pairing()
    cenum = dict((e['name'], e) for e in cxx['enums'] + cxx['const_groups'])
    penum = dict((e['name'], e) for e in py['enums'] if e['kind'] == 'declared')
    reported = reported if reported is not None else set()
    cfg = config_text(cxx)
    if variant is not None:
        ctx = _Variant(ctx, variant)

    def viol(sig, desc, replay):
        if variant is None:
            reported.add((sig, desc))
            if not sig.startswith('C03/classification-tables-modified/'):
                desc += ' [C++ side: %s, the CMAKE_CXX_STANDARD of the repository]' % cfg
        else:
            if (sig, desc) in reported:
                return                  # the project's own standard shows the same witness with the same values
            sig = '%s/%s' % (sig, variant)
            desc = '[C++ side compiled with %s] %s' % (cfg, desc)
        if only is None or sig == only:
            ctx.violation(sig, desc, dict(replay, cxx_config=cfg))

    def where(e):
        return {'file': e.get('file', e.get('module')), 'line': e.get('line')}

    paired_c, paired_p = set(), set()
    for p in pairs:
        paired_c.add(p['cxx'])
        paired_p.add(p['py'])
        c, q = cenum.get(p['cxx']), penum.get(p['py'])
        if c is None:
            viol('C03/pairing/%s/no-such-cxx-enum' % p['cxx'], 'the pairing table names C++ enum %s, which the headers do not define'
                 % p['cxx'], {'pair': p})
            continue
        if q is None:
            viol('C03/enum/%s/no-python-enum' % p['cxx'], 'C++ enum class %s (%s:%s) is paired with Python IntEnum %s, which '
                 'the package does not define' % (p['cxx'], c['file'], c['line'], p['py']), {'pair': p, 'cxx': where(c)})
            continue
        cm = dict((m, v) for m, v in c['members'])
        qm = dict((m, v) for m, v in q['members'])
        for s in p['cxx_sent']:
            rest = [v for m, v in c['members'] if m not in p['cxx_sent']]
            if s not in cm or cm[s] not in rest:
                viol('C03/sentinel/%s/%s' % (p['cxx'], s), 'C++ %s::%s is excused as a range sentinel but is %s'
                     % (p['cxx'], s, 'not defined' if s not in cm else 'not an alias of another enumerator (value %d)' % cm[s]),
                     {'pair': p, 'cxx_members': c['members']})
        for s in p['py_sent']:
            if s not in qm or not all(v < qm[s] for v in cm.values()):
                viol('C03/sentinel/%s/%s' % (p['py'], s), 'Python %s.%s is excused as a range sentinel but is %s'
                     % (p['py'], s, 'not defined' if s not in qm else 'not above every C++ value'), {'pair': p})
        cw = dict((m, v) for m, v in cm.items() if m not in p['cxx_sent'])
        qw = dict((m, v) for m, v in qm.items() if m not in p['py_sent'])
        for m in sorted(set(cw) | set(qw)):
            ctx.case('enum %s %s' % (p['cxx'], m), nontrivial=True)
            ctx.count('enumerators_compared')
            rep = {'cxx_enum': p['cxx'], 'py_enum': p['py'], 'name': m, 'cxx_value': cw.get(m), 'py_value': qw.get(m),
                   'cxx': where(c), 'py': where(q),
                   'observe': '(long long)%s::%s  vs  int(%s.%s)' % (p['cxx'], m, p['py'], m)}
            if m not in qw:
                viol('C03/enum/%s/%s/missing-in-python' % (p['cxx'], m),
                     'C++ %s::%s = %d has no member %s.%s in Python' % (p['cxx'], m, cw[m], p['py'], m), rep)
            elif m not in cw:
                viol('C03/enum/%s/%s/missing-in-cxx' % (p['py'], m),
                     'Python %s.%s = %d has no enumerator %s::%s in C++' % (p['py'], m, qw[m], p['cxx'], m), rep)
            elif cw[m] != qw[m]:
                viol('C03/enum/%s/%s/value-differs' % (p['cxx'], m),
                     'C++ %s::%s = %d but Python %s.%s = %d' % (p['cxx'], m, cw[m], p['py'], m, qw[m]), rep)
    for lst, what in (([p['cxx'] for p in pairs], 'C++'), ([p['py'] for p in pairs], 'Python')):
        for n in sorted(set(x for x in lst if lst.count(x) > 1)):
            viol('C03/pairing/%s/paired-twice' % n, '%s enum %s occurs twice in the pairing table' % (what, n), {'name': n})
    for n, e in cenum.items():
        if n not in paired_c:
            viol('C03/unpaired-cxx-enum/%s' % n, 'C++ enum class %s (%s:%s, %d enumerators) has no line in the pairing table: '
                 'no Python enumeration is known to correspond' % (n, e['file'], e['line'], len(e['members'])),
                 {'cxx_enum': n, 'cxx': where(e), 'members': e['members'],
                  'python_enum_of_the_same_name_exists': n.split('::')[-1] in penum})
    for n, e in penum.items():
        if n not in paired_p and n not in exempt:
            viol('C03/unpaired-py-enum/%s' % n, 'Python IntEnum %s (%s, %d members) is neither paired with a C++ enum nor listed '
                 'as not-on-the-wire' % (n, e['module'], len(e['members'])), {'py_enum': n, 'members': e['members']})
        if n in paired_p and n in exempt:
            viol('C03/pairing/%s/paired-and-exempt' % n, 'Python IntEnum %s is both paired and exempt' % n, {'py_enum': n})
    # --- command / response classification ---
    pc = set(v for _, v in py['command'])
    pr = set(v for _, v in py['response'])
    tname = dict((v, m) for m, v, _, _ in reversed(cxx['classification']))
    for m, v, ic, ir in cxx['classification']:
        ctx.case('classify %s' % m, nontrivial=True)
        ctx.count('message_types_classified')
        m_show = tname[v]      # an alias (MAX_VALUE) is reported under the first enumerator carrying the value
        if ic != (v in pc):
            viol('C03/command-classification/%s' % m_show,
                 'IsCommand(MessageType::%s) = %s but (MessageType.%s in COMMAND_MESSAGES) = %s' % (m_show, str(ic).lower(), m_show, v in pc),
                 {'message_type': m_show, 'value': v, 'cxx_IsCommand': ic, 'py_is_command': v in pc,
                  'observe': 'IsCommand(MessageType::%s) vs is_command(MessageType.%s)' % (m_show, m_show)})
        if ir != (v in pr):
            viol('C03/response-classification/%s' % m_show,
                 'IsResponse(MessageType::%s) = %s but (MessageType.%s in RESPONSE_MESSAGES) = %s' % (m_show, str(ir).lower(), m_show, v in pr),
                 {'message_type': m_show, 'value': v, 'cxx_IsResponse': ir, 'py_is_response': v in pr,
                  'observe': 'IsResponse(MessageType::%s) vs is_response(MessageType.%s)' % (m_show, m_show)})
    # --- every declared call form of IsCommand / IsResponse (overloads, members), called with its declared parameter type ---
    enum_form = dict((v, (ic, ir)) for _, v, ic, ir in cxx['classification'])
    for f in cxx['call_forms']:
        key, pyset, k = ('command', pc, 0) if f['function'] == 'IsCommand' else ('response', pr, 1)
        direct = f['scope'] is None and f['param'] == 'MessageType'      # the call `IsX(MessageType::NAME)` judged just above
        for m, v, r in f['results']:
            ctx.case('classify %s by %s' % (m, f['text']), nontrivial=True)
            ctx.count('call_form_results_compared')
            m_show = tname[v]
            if r != (v in pyset) and not direct:
                pyname = 'COMMAND_MESSAGES' if k == 0 else 'RESPONSE_MESSAGES'
                viol('C03/%s-classification/%s/%s' % (key, m_show, f['text'].replace(' ', '_')),
                     'the call form %s (%s:%d), called as `%s` with NAME = %s, returns %s but (MessageType.%s in %s) = %s; '
                     '%s(MessageType::%s) = %s' % (f['text'], f['file'], f['line'], f['call'], m_show, str(r).lower(), m_show, pyname,
                                                   v in pyset, f['function'], m_show, str(enum_form[v][k]).lower()),
                     {'message_type': m_show, 'value': v, 'call_form': f['text'], 'declared_at': '%s:%d' % (f['file'], f['line']),
                      'cxx_call': f['call'].replace('NAME', m_show), 'cxx_result': r, 'python_membership': v in pyset,
                      'enum_form_result': enum_form[v][k],
                      'observe': '%s vs is_%s(MessageType.%s)' % (f['call'].replace('NAME', m_show), key, m_show)})
    for fn in ('IsCommand', 'IsResponse'):
        if not any(f['function'] == fn for f in cxx['call_forms']):
            ctx.disagree('no declaration of %s was found in the headers (%s)' % (fn, cfg), {})
    # --- the tables stay what they are: no statement of the package modifies them after their definition ---
    groups = {}
    for st in py['mutation_sites']:
        groups.setdefault((st['object'], st['file'], st['callable']), []).append(st)
    ctx.cov['input_distribution']['python_modules_scanned_for_modifications'] = py['package_files_scanned']
    cxx_names = {'is_command': set(tname[v] for _, v, ic, _ in cxx['classification'] if ic),
                 'is_response': set(tname[v] for _, v, _, ir in cxx['classification'] if ir)}
    for (obj, file, fn), sts in sorted(groups.items()):
        if variant is not None:
            break                       # Python only: judged once
        ctx.case('modification of %s in %s:%s' % (obj, file, fn), nontrivial=True)
        demo = sts[0].get('demo') or {}
        stmts = '; '.join('%s:%d `%s`' % (file, st['line'], st['statement'][:90]) for st in sts[:3]) + \
                (' (+%d more)' % (len(sts) - 3) if len(sts) > 3 else '')
        if fn == '<module>' and demo.get('loaded_by_plain_import'):
            # executed by the plain import already: the tables above carry its effect and were compared with C++
            ctx.disagree('%s is modified while the package is imported (%s): the imported tables are not the ones written in '
                         'messages/defs.py' % (obj, stmts), {'sites': sts})
            continue
        rep = {'object': obj, 'file': 'python/fusion_engine_client/' + file, 'function': fn,
               'statements': [{'line': st['line'], 'statement': st['statement'], 'what': st['what'], 'in': st['function']} for st in sts],
               'executed': demo.get('call'), 'executed_in': 'fresh interpreter, tables read after `import fusion_engine_client.messages` '
               'and again after the call', 'changes': demo.get('changes'), 'tables_afterwards': demo.get('after'),
               'exception_during_execution': demo.get('exception')}
        if demo.get('demonstrated'):
            ch = demo['changes']
            parts = []
            for k2, c in sorted(ch.items()):
                if k2.startswith('is_'):
                    continue
                parts.append('%s %s%s%s' % (k2, 'is rebound; ' if c.get('rebound') else '',
                                            'gains %s' % c['added'] if c['added'] else '',
                                            (' loses %s' % c['removed']) if c['removed'] else ''))
            cons = []
            for fnname, cname in (('is_command', 'IsCommand'), ('is_response', 'IsResponse')):
                if fnname in demo.get('after', {}):
                    for nm in sorted(set(demo['after'][fnname]) ^ cxx_names[fnname]):
                        cons.append('%s(MessageType.%s) = %s but %s(MessageType::%s) = %s'
                                    % (fnname, nm, nm in demo['after'][fnname], cname, nm, str(nm in cxx_names[fnname]).lower()))
            rep['classification_differences_afterwards'] = cons
            viol('C03/classification-tables-modified/%s/%s:%s' % (obj, file, fn),
                 '%s modifies %s (%s); executed as %s: %s; afterwards %s' % (
                     fn if fn != '<module>' else 'importing ' + sts[0]['module'], obj, stmts, demo.get('call'), '; '.join(parts),
                     ('%s (%d differences from C++)' % (cons[0], len(cons))) if cons else
                     'the tables differ from the ones the theorems were checked on'), rep)
        else:
            viol('C03/classification-tables-modified/%s/%s:%s' % (obj, file, fn),
                 '%s modifies %s after its definition, %s (%s); found by the scan of the package, executing %s did not change the '
                 'tables (%s)' % (fn if fn != '<module>' else 'importing ' + sts[0]['module'], obj, sts[0]['what'], stmts,
                                  demo.get('call') or fn, demo.get('exception') or demo.get('why') or 'statement not reached'), rep)
    cvals = set(v for _, v, _, _ in cxx['classification'])
    for key, lst in (('command', py['command']), ('response', py['response'])):
        for m, v in lst:
            if v not in cvals:
                viol('C03/%s-classification/%s' % (key, m), 'Python classifies MessageType.%s = %d as a %s; C++ has no MessageType '
                     'enumerator with that value' % (m, v, key), {'message_type': m, 'value': v})
    mt = cenum.get('MessageType')
    if mt is not None and set(v for _, v in mt['members']) != cvals:
        ctx.disagree('classification table does not cover the MessageType enumerators', {})
    # --- registry ---
    for s in cxx['structs']:
        ctx.case('struct %s' % s['name'], nontrivial=True)
        ctx.count('payload_structs')
        ks = [k for k in py['payload'] if k['type'] == s['type']]
        rep = {'cxx_struct': s['name'], 'cxx': where(s), 'message_type': tname.get(s['type'], s['type']), 'type_value': s['type'],
               'cxx_version': s['version'], 'python_classes': [(k['name'], k['module'], k['version']) for k in ks],
               'observe': '%s::MESSAGE_TYPE / MESSAGE_VERSION vs message_type_to_class[%s].MESSAGE_VERSION'
                          % (s['name'], tname.get(s['type'], s['type']))}
        if not ks:
            viol('C03/registry/%s/no-python-class' % s['name'], 'C++ struct %s (type %s = %d, version %d) has no Python payload '
                 'class declaring that type' % (s['name'], rep['message_type'], s['type'], s['version']), rep)
        elif len(ks) > 1:
            viol('C03/registry/%s/several-python-classes' % s['name'], 'type %s is declared by %d Python payload classes: %s'
                 % (rep['message_type'], len(ks), [k['name'] for k in ks]), rep)
        else:
            k = ks[0]
            if k['version'] != s['version']:
                viol('C03/registry/%s/version-differs' % s['name'],
                     'C++ %s::MESSAGE_VERSION = %d but Python %s.MESSAGE_VERSION = %d (type %s)'
                     % (s['name'], s['version'], k['name'], k['version'], rep['message_type']), rep)
            if not any(r['type'] == s['type'] and r['name'] == k['name'] and r['version'] == k['version'] for r in py['registry']):
                viol('C03/registry/%s/not-registered' % k['name'], 'message_type_to_class[%s] is not %s'
                     % (rep['message_type'], k['name']), rep)
    for k in py['payload']:
        ctx.case('class %s' % k['name'], nontrivial=True)
        ss = [s for s in cxx['structs'] if s['type'] == k['type']]
        rep = {'py_class': k['name'], 'module': k['module'], 'message_type': k['type_name'], 'type_value': k['type'],
               'py_version': k['version'], 'cxx_structs': [(s['name'], s['version']) for s in ss]}
        if not ss:
            viol('C03/registry/%s/no-cxx-struct' % k['name'], 'Python payload class %s (type %s = %d, version %d) has no C++ struct '
                 'declaring that type' % (k['name'], k['type_name'], k['type'], k['version']), rep)
        elif len(ss) > 1:
            viol('C03/registry/%s/several-cxx-structs' % k['name'], 'type %s is declared by %d C++ structs: %s'
                 % (k['type_name'], len(ss), [s['name'] for s in ss]), rep)
        # a version difference is reported from the C++ side above
    names = set((c['name'], c['type'], c['version']) for c in py['payload'])
    for r in py['registry']:
        if (r['name'], r['type'], r['version']) not in names:
            viol('C03/registry/%s/registered-but-not-a-payload-class' % r['name'], 'message_type_to_class holds %s for type %d, which '
                 'is not among the MessagePayload subclasses' % (r['name'], r['type']), {'registry_entry': r})
    if variant is not None:
        return
    for k in ('enumerators_compared', 'message_types_classified', 'payload_structs', 'call_form_results_compared'):
        ctx.cov['input_distribution'].setdefault(k, 0)
    ctx.cov['input_distribution']['classification_call_forms'] = [f['text'] for f in cxx['call_forms']]
    ctx.cov['input_distribution']['enum_pairs'] = len(pairs)
    ctx.cov['input_distribution']['cxx_enum_class_blocks'] = cxx['n_enum_blocks']
    ctx.cov['input_distribution']['python_payload_classes'] = len(py['payload'])


# ---- stage D, access paths: every view of every paired enumeration against the C++ table ----------------
def diff_access(ctx, cxx, py, runs, only=None):
    """Each run is the result of one sweep of tools/c03_py_access.py (one fresh interpreter, one order of asking).
    A fact that the `__members__` table read right after the import already shows is left to diff_tables (same witness,
    existing signature); everything a path answers differently from that table is judged here against C++."""
    pairs, _ = pairing()
    cenum = dict((e['name'], e) for e in cxx['enums'] + cxx['const_groups'])
    penum = dict((e['name'], e) for e in py['enums'] if e['kind'] == 'declared')
    py_of = dict((p['py'], p) for p in pairs)

    found = {}        # signature -> [(description, replay)]: one finding per (enumeration, name, kind), every path / order listed

    def viol(sig, desc, replay):
        if only is None or sig == only:
            found.setdefault(sig, []).append((desc, replay))

    for run in runs:
        det = {}
        for d in run['details']:
            det.setdefault((d['enum'], d['path'], d['name'], d.get('value')), d)
        how = 'enumerations asked in the order `%s` (%s, %s; fresh interpreter)' % (
            run['label'], ' < '.join(run['enum_order'][:3]) + ' < ...', run['nesting'])
        lk = run.get('lookalikes')
        if lk:
            how += ('; %s the application had defined and used %d enumeration classes of its own from the library\'s IntEnum / '
                    'enum_bitmask under the names of the protocol enumerations (member variants %s, identities %s)' % (
                        {'before-import': 'BEFORE the package was imported', 'before-sweep': 'after the import and BEFORE any '
                         'protocol enumeration was asked', 'after-first-use': 'after every protocol enumeration had been iterated '
                         'once,'}.get(lk['when'], lk['when']), lk['classes_defined'], ', '.join(lk['variants']), ', '.join(lk['idents'])))
            if lk['own_answers_wrong_total'] or lk['not_definable']:
                note = ('access sweep %s: %d answers of the APPLICATION classes about themselves differ from their definitions '
                        '(not judged: not protocol enumerations), e.g. %s; not definable: %s' % (
                            run['label'], lk['own_answers_wrong_total'], lk['own_answers_wrong'][:3], lk['not_definable'][:3]))
                if note not in ctx.notes:
                    ctx.notes.append(note)

        def rep(p, path, name, cv, pv, d, base_v):
            pos = dict((n, i) for i, n in enumerate(run['enum_order']))
            return {'cxx_enum': p['cxx'], 'py_enum': p['py'], 'name': name, 'access_path': path,
                    'expression': (d or {}).get('expression'), 'returned': (d or {}).get('repr', (d or {}).get('error')),
                    'returned_member_of': (d or {}).get('class'), 'cxx_value': cv, 'py_value': pv,
                    'py_value_in___members___right_after_import': base_v,
                    'order': run['label'], 'nesting': run['nesting'], 'enum_order': run['enum_order'],
                    'path_order': run['path_order'], 'asked_before_this_enumeration': run['enum_order'][:pos.get(p['py'], 0)],
                    'spec': run['spec'], 'observe': pacc.replay_command(fv.REPO, run['spec']),
                    'cxx': {'file': cenum[p['cxx']].get('file'), 'line': cenum[p['cxx']].get('line')}, '_detail': d,
                    **({'application_class_of_the_same_name_defined_and_used_last_before': lk['last_defined'].get(p['py']),
                        'application_classes': {k: lk[k] for k in ('when', 'variants', 'idents', 'classes_defined')}} if lk else {})}

        for pth in run['paths']:
            path = pth['path']
            for p in pairs:
                c, base = cenum.get(p['cxx']), penum.get(p['py'])
                if c is None or base is None:
                    continue                          # reported by diff_tables
                q = run['views'].get(path, {}).get(p['py'])
                if q is None:
                    ctx.disagree('access sweep %s has no view of %s through %s' % (run['label'], p['py'], path), {})
                    continue
                cw = [(m, v) for m, v in c['members'] if m not in p['cxx_sent']]
                qw = [(m, v) for m, v in q if m not in p['py_sent']]
                bw = [(m, v) for m, v in base['members'] if m not in p['py_sent']]
                cm, qm, bm = dict(cw), dict(qw), dict(bw)
                ctx.count('access_answers_compared', len(qw))
                ctx.case('access %s %s %s' % (run['label'], path, p['py']), nontrivial=True)
                if not pth['by_value']:
                    for m in sorted(set(cm) | set(qm)):
                        if qm.get(m) == bm.get(m):
                            continue                  # the path answers what the table says: judged by diff_tables
                        d = det.get((p['py'], path, m, qm.get(m)))
                        r = rep(p, path, m, cm.get(m), qm.get(m), d, bm.get(m))
                        expr = r['expression'] or pth['expression'].format(E=p['py'], s=m)
                        if m not in qm:
                            if m in cm:
                                viol('C03/enum-access/%s/%s/unresolved' % (p['cxx'], m),
                                     '`%s` gives no value (%s) but C++ %s::%s = %d and %s.__members__[%r] = %s; %s'
                                     % (expr, r['returned'], p['cxx'], m, cm[m], p['py'], m, bm.get(m), how), r)
                        elif m not in cm:
                            viol('C03/enum-access/%s/%s/missing-in-cxx' % (p['py'], m),
                                 '`%s` returned %s = %d but C++ %s has no enumerator %s; %s'
                                 % (expr, r['returned'], qm[m], p['cxx'], m, how), r)
                        elif cm[m] != qm[m]:
                            viol('C03/enum-access/%s/%s/value-differs' % (p['cxx'], m),
                                 '`%s` returned %s: Python %s, name %s, through the access path `%s` = %d but C++ %s::%s = %d '
                                 '(%s.__members__[%r] right after the import = %s); %s'
                                 % (expr, r['returned'], p['py'], m, path, qm[m], p['cxx'], m, cm[m], p['py'], m, bm.get(m), how), r)
                else:
                    for m, v in qw:
                        if (m, v) in cw or (m, v) in bw:
                            continue                  # a C++ (name, number), or what the table says (judged by diff_tables)
                        d = det.get((p['py'], path, m, v))
                        r = rep(p, path, m, cm.get(m), v, d, bm.get(m))
                        expr = r['expression'] or pth['expression'].format(E=p['py'], v=v)
                        viol('C03/enum-access/%s/by-number/%s' % (p['cxx'], 'value-differs' if m in cm else 'missing-in-cxx'),
                             '`%s` returned %s: the member reached by number through the access path `%s` is %s = %d but C++ %s'
                             % (expr, r['returned'], path, m, v, ('%s::%s = %d' % (p['cxx'], m, cm[m])) if m in cm
                                else '%s has no enumerator %s' % (p['cxx'], m)) + '; ' + how, r)
                    reached = set(v for _, v in qw)
                    for m, v in cw:
                        if v in reached or v not in bm.values():
                            continue                  # reached, or no member of that number in the table (diff_tables)
                        if [m2 for m2, v2 in cw if v2 == v][0] != m:
                            continue                  # an alias: reported once, under the first name of the number
                        d = next((x for x in run['details'] if x['enum'] == p['py'] and x['path'] == path and x.get('asked') == v), None)
                        r = rep(p, path, m, v, None, d, bm.get(m))
                        expr = r['expression'] or pth['expression'].format(E=p['py'], v=v)
                        viol('C03/enum-access/%s/by-number/number-unresolved' % p['cxx'],
                             '`%s` gives no member of %s for the number %d (%s) but C++ %s::%s = %d; %s'
                             % (expr, p['py'], v, r['returned'], p['cxx'], m, v, how), r)
        # names / numbers that resolved in an enumeration that does not define them: one finding per enumeration
        per = {}
        for x in run['extras']:
            per.setdefault(x['enum'], []).append(x)
        for en, xs in sorted(per.items()):
            p = py_of.get(en)
            if p is None or p['cxx'] not in cenum:
                continue
            x = xs[0]
            cm = dict(cenum[p['cxx']]['members'])
            r = rep(p, x['path'], x['name'], cm.get(x['name']), x['value'], x, None)
            r['further_examples'] = [(y['path'], y['expression'], y['repr']) for y in xs[1:8]]
            r['look_ups_of_this_kind_in_this_sweep'] = run['extras_total']
            viol('C03/enum-access/%s/names-not-in-cxx' % p['cxx'],
                 '`%s` returned %s: through the access path `%s` Python %s has a named value %s = %d, which neither C++ %s nor '
                 '%s.__members__ defines (%s); %d such answers listed for this enumeration, %d in the sweep; %s'
                 % (x['expression'], x['repr'], x['path'], en, x['name'], x['value'], p['cxx'], en, x['why'], len(xs),
                    run['extras_total'], how), r)
    n_min = 0
    for sig, lst in found.items():
        desc, replay = lst[0]
        d = replay.pop('_detail', None)
        if d and n_min < 3 and d.get('class') and d['class'] != d['enum'] and d.get('asked') is not None:
            # shortest history: the same question put to the enumeration whose member came back, then to this one
            n_min += 1
            try:
                alone = pacc.run_steps(fv.REPO, [[d['enum'], d['path'], d['asked']]])
                two = pacc.run_steps(fv.REPO, [[d['class'], d['path'], d['asked']], [d['enum'], d['path'], d['asked']]])
                replay['shortest_history'] = {
                    'in_a_fresh_interpreter_alone': alone, 'after_asking_the_other_enumeration_first': two,
                    'reproduces': two[-1].get('value') == d.get('value') and alone[-1].get('value') != d.get('value')}
                if replay['shortest_history']['reproduces']:
                    desc += '; shortest history (fresh interpreter): `%s` then `%s` -> %s, alone -> %s' % (
                        two[0]['expression'], two[1]['expression'], two[1].get('repr', two[1].get('error')),
                        alone[0].get('repr', alone[0].get('error')))
            except (RuntimeError, subprocess.TimeoutExpired) as e:
                replay['shortest_history'] = {'not_run': str(e)}
        if len(lst) > 1:
            also = {}
            for _, r in lst:
                also.setdefault(r['access_path'], []).append(r['order'])
            names = sorted(set(r['name'] for _, r in lst))
            desc += '; %d findings of this kind%s: %s' % (len(lst), '' if len(names) == 1 else ' (names %s%s)' % (
                ', '.join(names[:6]), ', ...' if len(names) > 6 else ''), ', '.join(
                '%s (%s)' % (k, '/'.join(sorted(set(v)))) for k, v in also.items()))
            replay = dict(replay, all_answers_of_this_kind=[
                {'access_path': r['access_path'], 'order': r['order'], 'expression': r['expression'], 'returned': r['returned'],
                 'name': r['name'], 'py_value': r['py_value'], 'cxx_value': r['cxx_value']} for _, r in lst[:200]])
        replay.pop('_detail', None)
        ctx.violation(sig, desc, replay)
    ctx.cov['input_distribution']['access_sweeps'] = ctx.cov['input_distribution'].get('access_sweeps', []) + [
        '%s (%s, %d asks)' % (run['label'], run['nesting'], run['asks']) for run in runs]
    if runs:
        ctx.cov['input_distribution']['access_paths'] = [pth['expression'] for pth in runs[0]['paths']]


# ---- the C++ tables under every language standard the project supports --------------------------------------
def other_configs(ctx, cxx):
    """[(variant label, compiler, std)]: every standard from the project's own (CMAKE_CXX_STANDARD) upwards, with the
    compiler of the tables; in the thorough tier with both compilers.  The configuration of the tables themselves is left out."""
    first, stds = cx.project_standards(fv.REPO)
    main_cxx = cxx['config']['compiler']
    compilers = [main_cxx]
    if ctx.thorough:
        other = 'clang++' if main_cxx != 'clang++' else 'g++'
        if subprocess.run(['which', other], stdout=subprocess.DEVNULL, stderr=subprocess.DEVNULL).returncode == 0:
            compilers.append(other)
    res = []
    for c in compilers:
        for n in stds:
            std = 'c++%d' % n
            if (c, std) == (main_cxx, cxx['config']['std']):
                continue
            res.append((('std=%s' % std) if c == main_cxx else '%s,std=%s' % (c, std), c, std))
    return res


def variant_tables(ctx, cxx):
    """-> [(label, table)] ; a configuration whose probe does not build / run is reported (the project declares the standard)."""
    from concurrent.futures import ThreadPoolExecutor
    cfgs = other_configs(ctx, cxx)

    def one(cfg):
        label, c, std = cfg
        return cx.extract(fv.REPO, os.path.join(fv.BUILD, 'c03_' + re.sub(r'[^A-Za-z0-9]+', '_', label)), cxx=c, std=std)
    res = []
    with ThreadPoolExecutor(max_workers=4) as ex:
        futs = [(cfg, ex.submit(one, cfg)) for cfg in cfgs]
        for cfg, f in futs:
            try:
                res.append((cfg[0], f.result()))
            except cc.TranslateError as e:
                ctx.violation('C03/cxx-config/%s/probe-does-not-build' % cfg[0],
                              'the C++ tables cannot be obtained with %s -std=%s (the project declares C++%s and later): %s'
                              % (cfg[1], cfg[2], cxx['config']['std'][3:], str(e)[:600]),
                              {'compiler': cfg[1], 'std': cfg[2], 'error': str(e)[:2000]})
    ctx.cov['input_distribution']['cxx_configurations'] = [config_text(cxx) + ' (Lean tables)'] + [
        config_text(t) for _, t in res]
    return res


def diff_variants(ctx, cxx, py, variants, reported, only=None):
    for label, t in variants:
        same = all(t[k] == cxx[k] for k in ('enums', 'const_groups', 'classification', 'structs', 'call_forms'))
        ctx.case('C++ tables under %s' % config_text(t), nontrivial=True)
        ctx.count('cxx_configurations_compared')
        diff_tables(ctx, t, py, only, variant=label, reported=reported)
        if not same:
            # name the entries on which the two configurations differ (each is judged against Python above / in stage D)
            diffs = []
            a = dict((m, (c, r)) for m, _, c, r in cxx['classification'])
            for m, _, c, r in t['classification']:
                if a.get(m) != (c, r):
                    diffs.append('IsCommand/IsResponse(MessageType::%s) = %s/%s under %s but %s/%s under %s' % (
                        m, str(a.get(m, ('?', '?'))[0]).lower(), str(a.get(m, ('?', '?'))[1]).lower(), config_text(cxx),
                        str(c).lower(), str(r).lower(), config_text(t)))
            for k in ('enums', 'const_groups', 'structs', 'call_forms'):
                if t[k] != cxx[k]:
                    diffs.append('%s table differs' % k)
            ctx.notes.append('C++ tables differ between %s and %s: %s' % (config_text(cxx), config_text(t), '; '.join(diffs[:6])))


# ---- the registry relation after the package has been used (warm process) -----------------------------------
def diff_usage(ctx, cxx, py, usage, only=None):
    """usage = result of tools/c03_py_usage.py (one fresh interpreter; a snapshot of the subclasses of MessagePayload,
    message_type_to_class, get_message_class(), is_command/is_response after each exercised entry point).  The snapshot right
    after the import must be the translator's table; every later snapshot is judged by the same relation as the table (per
    C++ struct: exactly one Python class carrying the type, declaring it, with the struct's version, and the registry /
    get_message_class() resolve to it; no class for a type without a struct; classification unchanged)."""
    tname = dict((v, m) for m, v, _, _ in reversed(cxx['classification']))
    fresh = usage['fresh']
    if sorted((k['name'], k['type'], k['version']) for k in fresh['payload']) != \
            sorted((k['name'], k['type'], k['version']) for k in py['payload']) or \
            sorted((r['type'], r['name'], r['version']) for r in fresh['registry']) != \
            sorted((r['type'], r['name'], r['version']) for r in py['registry']):
        ctx.disagree('the registry / payload classes read by tools/c03_py_usage.py right after the import differ from the '
                     'translator table', {'usage_fresh': fresh['registry']})
    ctx.cov['traces_validated_against_impl'] += len(fresh['payload']) + len(fresh['registry'])
    stmts = usage.get('class_statements') or []
    if 'class_statements_error' in usage:
        ctx.disagree('scan of the class statements outside messages/ failed: %s' % usage['class_statements_error'], {})
    found = {}

    def viol(sig, desc, replay):
        found.setdefault(sig, []).append((desc, replay))

    def view(snap, t):
        ks = [k for k in snap['payload'] if k['type'] == t]
        reg = [r for r in snap['registry'] if r['type'] == t]
        gm = [c for n, v, c in snap['get_message_class'] if v == t]
        return ks, reg, gm

    prev = fresh
    for st in usage['steps']:
        after = fresh if st['after'] == 'same' else st['after']
        ctx.case('registry after %s' % st['label'], nontrivial=True)
        ctx.count('entry_points_exercised')
        if after == prev:
            continue
        how = 'after %s (step `%s` of tools/c03_py_usage.py: one fresh interpreter, steps %s)' % (
            st['call'], st['label'], ' -> '.join(x['label'] for x in usage['steps'][:usage['steps'].index(st) + 1]))
        base = {'entry_point': st['label'], 'executed': st['call'], 'exception_during_step': st.get('exception'),
                'steps_before': [x['label'] for x in usage['steps'][:usage['steps'].index(st)]],
                'observe': pus.replay_command(fv.REPO, st['label']), 'generated_log': usage.get('log')}
        for s in cxx['structs']:
            t = s['type']
            ks, reg, gm = view(after, t)
            if (ks, reg, gm) == view(prev, t):
                continue
            ks0, reg0, _ = view(prev, t)
            T = tname.get(t, t)
            made_by = [x for x in stmts if any(c[0] in [k['class'] for k in ks] for c in x.get('payload_classes_created', []))]
            rep = dict(base, message_type=T, type_value=t, cxx_struct=s['name'], cxx={'file': s.get('file'), 'line': s.get('line')},
                       cxx_version=s['version'], python_classes_carrying_the_type=[(k['class'], k['version'], 'declares MESSAGE_TYPE'
                                                                                  if k['own_type'] else 'inherits MESSAGE_TYPE from %s' % k['bases']) for k in ks],
                       message_type_to_class=[r['class'] for r in reg], get_message_class=gm,
                       right_after_the_import={'classes': [k['class'] for k in ks0], 'message_type_to_class': [r['class'] for r in reg0]},
                       class_statements=[{'file': 'python/fusion_engine_client/' + x['file'], 'line': x['line'], 'statement': x['statement'],
                                          'in': x['scope']} for x in made_by])
            stm = ('; created by %s:%d `%s` in %s()' % (made_by[0]['file'], made_by[0]['line'], made_by[0]['statement'], made_by[0]['scope'])) \
                if made_by else ''
            if len(ks) > 1:
                viol('C03/registry-after-use/%s/several-python-classes' % st['label'],
                     '%s, MessageType.%s is carried by %d Python payload classes: %s (right after the import: %s); C++ has the one '
                     'struct %s%s' % (how, T, len(ks), ['%s%s' % (c, ' (x%d)' % n if n > 1 else '') for c, n in sorted(
                         dict((k['class'], [q['class'] for q in ks].count(k['class'])) for k in ks).items())],
                                      [k['class'] for k in ks0], s['name'], stm), rep)
            elif not ks:
                viol('C03/registry-after-use/%s/no-python-class' % st['label'],
                     '%s, no Python payload class carries MessageType.%s any more (C++ struct %s)' % (how, T, s['name']), rep)
            elif ks[0]['version'] != s['version']:
                viol('C03/registry-after-use/%s/version-differs' % st['label'],
                     '%s, %s.MESSAGE_VERSION = %s but C++ %s::MESSAGE_VERSION = %d' % (how, ks[0]['class'], ks[0]['version'], s['name'],
                                                                                    s['version']), rep)
            decl = [k['class'] for k in ks if k['own_type']]
            resolved = set([r['class'] for r in reg] + [c for c in gm])
            if len(reg) != 1 or len(decl) != 1 or resolved != set(decl):
                viol('C03/registry-after-use/%s/resolves-to-another-class' % st['label'],
                     '%s, message_type_to_class[MessageType.%s] = %s and get_message_class() = %s, but the class declaring the type '
                     'is %s (right after the import the type resolved to %s)%s' % (
                         how, T, [r['class'] for r in reg], gm, decl, [r['class'] for r in reg0], stm), rep)
        known = set(s['type'] for s in cxx['structs'])
        for k in after['payload']:
            if k['type'] not in known and k not in prev['payload']:
                viol('C03/registry-after-use/%s/no-cxx-struct' % st['label'],
                     '%s, there is a Python payload class %s for type %s = %d, for which no C++ struct exists'
                     % (how, k['class'], k['type_name'], k['type']), dict(base, py_class=k))
        for key, fn in (('is_command', 'IsCommand'), ('is_response', 'IsResponse')):
            if after[key] != prev[key]:
                ch = sorted(set(after[key]) ^ set(prev[key]))
                col = 2 if key == 'is_command' else 3
                cx_true = set(tname[row[1]] for row in cxx['classification'] if row[col])
                viol('C03/classification-after-use/%s/%s' % (st['label'], key),
                     '%s, %s() answers differently for %s: %s(MessageType.%s) = %s but %s(MessageType::%s) = %s'
                     % (how, key, ch, key, ch[0], ch[0] in after[key], fn, ch[0], str(ch[0] in cx_true).lower()),
                     dict(base, changed=ch, **{key + '_afterwards': after[key]}))
        if after['by_name'] != prev['by_name'] and not found:
            ctx.notes.append('message_type_by_name changed at step %s: %s' % (
                st['label'], [x for x in after['by_name'] if x not in prev['by_name']][:5]))
        prev = after
    # class statements outside messages/*.py that derive from a payload class by name: each registers itself when executed
    n_kind = {}
    undecided = []
    for x in stmts:
        n_kind[x['kind']] = n_kind.get(x['kind'], 0) + 1
        ctx.case('class statement %s:%d' % (x['file'], x['line']), nontrivial=x['kind'] != 'other')
        if x['kind'] == 'payload':
            b = x['payload_bases'][0]
            viol('C03/registry/payload-class-outside-messages/%s:%s' % (x['file'], x['name']),
                 '%s:%d `%s` (in %s) derives from the payload class %s outside messages/*.py: executing the statement runs '
                 'MessagePayload.__init_subclass__, which files the new class in message_type_to_class under %s - a second Python '
                 'class for that type (classes created so far in the exercised process: %s)' % (
                     x['file'], x['line'], x['statement'], x['scope'], b[0], b[1], x['payload_classes_created'] or 'none'),
                 {'statement': x, 'observe': pus.replay_command(fv.REPO)})
        elif x['kind'] != 'other' and not x['classes_created']:
            undecided.append('%s:%d `%s`' % (x['file'], x['line'], x['statement']))
    ctx.cov['input_distribution']['usage_steps'] = ['%s: %s%s' % (x['label'], x['call'][:160], ' [raised %s]' % x['exception'][:80]
                                                                   if x.get('exception') else '') for x in usage['steps']]
    ctx.cov['input_distribution']['class_statements_outside_messages'] = dict(
        n_kind, not_decided_because_base_is_a_variable_and_statement_not_executed=undecided)
    n_conf = 0
    for sig, lst in sorted(found.items()):
        desc, replay = lst[0]
        if len(lst) > 1:
            types = [r.get('message_type') for _, r in lst if r.get('message_type')]
            desc += '; %d message types affected in this way: %s%s' % (len(lst), ', '.join(str(x) for x in types[:8]),
                                                                     ', ...' if len(types) > 8 else '')
            replay = dict(replay, all_message_types_affected=types)
        if 'entry_point' in replay and n_conf < 2 and (only is None or sig == only):
            n_conf += 1
            try:          # shortest history: the log is written, then this step alone, in a fresh interpreter
                alone = pus.run(fv.REPO, only=replay['entry_point'])
                last = alone['steps'][-1]
                replay['this_step_alone_in_a_fresh_interpreter'] = {
                    'changes_the_registry': last['after'] != 'same',
                    'message_type_to_class_entries_changed': [r for r in (last['after']['registry'] if last['after'] != 'same' else [])
                                                              if r not in alone['fresh']['registry']][:10]}
                if last['after'] != 'same':
                    desc += '; reproduced with this step alone in a fresh interpreter'
            except (RuntimeError, subprocess.TimeoutExpired) as e:
                replay['this_step_alone_in_a_fresh_interpreter'] = {'not_run': str(e)[:200]}
        if only is None or sig == only:
            ctx.violation(sig, desc, replay)


def usage_run(ctx):
    try:
        return pus.run(fv.REPO)
    except (RuntimeError, subprocess.TimeoutExpired) as e:
        ctx.disagree('the exercise of the package (tools/c03_py_usage.py) did not finish: %s' % str(e)[:400], {})
        return None


def random_sweeps(ctx, specs):
    from concurrent.futures import ThreadPoolExecutor
    res = []
    with ThreadPoolExecutor(max_workers=6) as ex:
        futs = [(sp, ex.submit(pacc.run_sweep, fv.REPO, sp)) for sp in specs]
        for sp, f in futs:
            try:
                res.append(f.result())
            except RuntimeError as e:
                ctx.disagree('access sweep failed: %s' % e, {'spec': sp})
    return res


def failed_theorems(build_output):
    """Names of the theorems of Props/C03.lean at whose lines the build reported errors."""
    path = os.path.join(fv.LEAN, 'FeVerif', 'Props', 'C03.lean')
    decl = [(i, m.group(1)) for i, line in enumerate(open(path), 1)
            for m in [re.match(r'(?:theorem|example)\s*([A-Za-z0-9_]*)', line)] if m]
    res = []
    for ln in sorted(set(int(x) for x in re.findall(r'Props/C03\.lean:(\d+):\d+', build_output))):
        prev = [n for i, n in decl if i <= ln]
        if prev and (prev[-1] or 'example') not in res:
            res.append(prev[-1] or 'example')
    return res


def run(ctx, only=None):
    try:
        cxx, py = translate(ctx)
    except cc.TranslateError as e:
        # unreadable block: infrastructure error unless the sources changed since the last good translation
        try:
            last = json.load(open(SIDE))
        except (OSError, ValueError):
            last = None
        if last == sources_now():
            raise fv.InfraError('translator cannot read sources that it could read before (unchanged files): %s' % e)
        ctx.proof_failures.append('translator: cannot regenerate the tables from the changed sources: %s' % e)
        ctx.notes.append('changed files: %s' % sorted(
            f for side in ('cxx', 'py') for f, h in sources_now()[side].items() if (last or {}).get(side, {}).get(f) != h))
        return None
    ctx.prove(MODULES, extra_targets=())
    if ctx.proof_failures:
        failed = failed_theorems('\n'.join(str(n) for n in ctx.notes))
        if failed:
            ctx.proof_failures.append('theorems whose `decide` fails on the regenerated tables: ' + ', '.join(failed))
    ctx.cov['trusted_base'] = [
        'Lean 4 kernel (4.33.0)', 'axioms: propext, Classical.choice, Quot.sound (audited per theorem)',
        'tools/c03_cxx_extract.py as a reader of NAMES (every value is printed by a C++ probe compiled against the headers; '
        'completeness of each enumerator list is checked by the compiler: switch without default under -Werror=switch; '
        'number of blocks checked against a grep count); its hand-written CONST_GROUPS list (ros::GPSFixMessage::COVARIANCE_TYPE_*)',
        'tools/c03_py_extract.py (run-time walk of the imported working tree, equal to the ast.parse view of the class bodies)',
        'tools/c03_py_access.py as the list of access paths a user has from a name / number to a member (PATHS) and of the '
        'orders tried (forward, reverse, seeded random orders and nestings); state shared between enumerations that needs a '
        'history outside those sweeps to show is not seen; its list of foreign look-alikes (LOOKALIKE_MEMBERS x LOOKALIKE_IDENT x '
        'LOOKALIKE_WHEN: application classes of the same __name__ built from the library\'s IntEnum / enum_bitmask with class '
        'statements; classes built by other means, e.g. the functional API or aenum directly, are not tried)',
        'tools/c03_py_alias.py as the reader of "which statements can modify the tables" (may-alias scan of every package module; '
        'aliasing through containers, getattr()/globals() strings other than the listed forms, or code outside the package is not seen)',
        'tools/c03_cxx_extract.py as the reader of the DECLARATIONS of IsCommand/IsResponse (every textual occurrence of either name '
        'outside a function body must be a declaration it read, otherwise the translation fails)',
        'the hand-written pairing table `enumPairs` (incl. sentinels) and exemption list `pyNotOnWire` in lean/FeVerif/Spec/C03.lean',
        'tools/c03_cxx_extract.py project_standards() as the reader of the language standards the project supports (CMAKE_CXX_STANDARD '
        'and later of c++11/14/17/20); configuration macros a user may predefine (-DP1_HAVE_...=) are left at their defaults',
        'tools/c03_py_usage.py as the list of entry points exercised before the registry is read again (a class statement '
        'whose base is a variable and that none of the steps executes is listed in the coverage, not judged)',
        'g++/clang++ and CPython as the evaluators of the two languages']
    correspond(ctx, cxx, py)
    reported = set()
    diff_tables(ctx, cxx, py, only, reported=reported)
    # the same judgement on the tables printed under every later language standard (thorough: both compilers)
    diff_variants(ctx, cxx, py, variant_tables(ctx, cxx), reported, only)
    # the registry relation re-observed after the package has been used (fresh interpreter, every exercised entry point)
    usage = usage_run(ctx)
    if usage is not None:
        diff_usage(ctx, cxx, py, usage, only)
    # the two orders of the Lean table + seeded random orders / nestings (each in its own fresh interpreter)
    n_random = 12 if ctx.thorough else 3
    # + the same sweeps in processes in which an application has defined and used its own classes of the same names
    specs = [pacc.random_spec(ctx.seed, k) for k in range(n_random)] + pacc.lookalike_specs(ctx.seed, ctx.thorough)
    diff_access(ctx, cxx, py, py['access'] + random_sweeps(ctx, specs), only)
    ctx.sample({'cxx': 'MessageType::STARTUP_REQUEST = %s, IsCommand=%s' % next(
        ((v, c) for m, v, c, r in cxx['classification'] if m == 'STARTUP_REQUEST'), (None, None)),
        'py': 'STARTUP_REQUEST in COMMAND_MESSAGES = %s' % any(m == 'STARTUP_REQUEST' for m, _ in py['command'])})
    for s in cxx['structs'][:2]:
        ctx.sample({'cxx_struct': s['name'], 'type': s['type'], 'version': s['version'],
                    'python': [(k['name'], k['version']) for k in py['payload'] if k['type'] == s['type']]})
    return cxx, py


def search(ctx):
    # The oracle of stage D is already exhaustive over both complete tables; nothing wider exists to explore.
    ctx.notes.append('stage E: the table diff of stage D is exhaustive over both regenerated tables; no wider space to search')


def check(ctx):
    ctx.cov['rule'] = ('exhaustive: every enumerator of every `enum class` block of src/point_one/fusion_engine/messages/*.h (plus the '
                       'listed static-const group) against the paired Python IntEnum, read from `__members__` after the import AND '
                       'through every access path of tools/c03_py_access.py (every enumeration asked for every name and number of '
                       'every enumeration; orders forward, reverse + seeded random, one fresh interpreter each; and again in fresh interpreters in which an application has defined and used its own IntEnum / enum_bitmask classes under the same names before the import / before the first question / after the first iteration); every MessageType enumerator x {IsCommand, '
                       'IsResponse} x every call form the headers declare (each overload / member, called with an argument of its '
                       'declared parameter type); every module of python/fusion_engine_client scanned (aliases followed) for '
                       'statements modifying the classification sets / registry, each site executed in a fresh interpreter; every struct declaring MESSAGE_TYPE/MESSAGE_VERSION against the MessagePayload subclasses and '
                       'message_type_to_class, both directions; the C++ tables under every standard from CMAKE_CXX_STANDARD upwards; the registry relation again after every step of tools/c03_py_usage.py. A case = one (enum, name) / message type / struct / class; all are '
                       'non-trivial; distinct = distinct case text.')
    ctx.assumptions += [
        'a protocol enumeration on the Python side is an IntEnum subclass written as `class X(IntEnum)` in '
        'fusion_engine_client/messages/*.py, except UpdateAction and SignalType (Spec/C03.lean pyNotOnWire); the two '
        '@enum_bitmask-derived mask classes are computed from paired enums and are not compared',
        'range sentinels excused: C++ MAX_VALUE aliases (MessageType, SolutionType, SatelliteType, FrequencyBand), Python '
        'MessageType.RESERVED; theorem C03_sentinels_justified checks each is an alias / lies above all C++ values',
        'C++ names are compared unqualified-by-namespace relative to point_one::fusion_engine::messages; payload structs and Python '
        'classes are matched by MESSAGE_TYPE value, not by class name',
        'name codes: big-endian value of the UTF-8 bytes (injective: Proofs/C03.lean encode_injective); pairing-table names are ASCII']
    run(ctx)
    return fv.finish(ctx, 'proof', search)


def replay(ctx, path):
    obj = json.load(open(path))
    sig = obj.get('signature')
    ctx.proof_failures = []
    try:
        cxx, py = translate(ctx)
    except cc.TranslateError as e:
        raise fv.InfraError('replay: translators failed: %s' % e)
    reported = set()
    diff_tables(ctx, cxx, py, only=sig, reported=reported)
    diff_variants(ctx, cxx, py, variant_tables(ctx, cxx), reported, only=sig)
    usage = usage_run(ctx)
    if usage is not None:
        diff_usage(ctx, cxx, py, usage, only=sig)
    runs = list(py['access'])
    spec = (obj.get('input') or {}).get('spec')
    if spec and spec.get('label') not in [r['label'] for r in runs]:
        runs += random_sweeps(ctx, [spec])
    diff_access(ctx, cxx, py, runs, only=sig)
    return fv.finish(ctx, 'proof', None)
