"""C04 - the Python stream decoder returns exactly the valid messages in a byte stream."""
import itertools
import json

import fv
import gen
from props import decoder_common as dc

MODULES = ['FeVerif.Props.C04']
MAXES = [0, 8, 140, 1 << 24]


def cases(ctx, budget):
    rng = ctx.rng
    out = []
    # corpus first
    # bounded-exhaustive token sequences
    k = 3 if ctx.thorough else 2
    alphabet = 'VUWCTSFHRJDZNG'
    for kinds in itertools.product(alphabet, repeat=k):
        seqs = {'n': 0}
        data = b''.join(gen.token(rng, t, seqs) for t in kinds)
        out.append((data, ''.join(kinds)))
    for _ in range(budget):
        out.append(gen.stream(rng, rng.choice([1, 2, 3, 5, 8, 12])))
    # large messages (1-5 kB): valid, failing the CRC, false headers announcing that much - next to ordinary tokens
    for _ in range(max(6, budget // 10)):
        out.append(gen.stream(rng, rng.choice([2, 3, 4]), 'LKMLKMVUZJ'))
    # malformed stream: pure random, all sync bytes, lengths at the limits
    for n in (0, 1, 23, 24, 25, 100):
        out.append((bytes(rng.randrange(256) for _ in range(n)), 'rand%d' % n))
    out.append((b'\x2e\x31' * 40, 'allsync'))
    out.append((b'\x2e' * 50, 'allsync0'))
    return out


def check_one(ctx, data, kinds, m, chunks, lines, pending, opts='random'):
    typed = {10000: [], 13120: [], 9: []}
    as_ints = bool(chunks) and all(len(c) == 1 for c in chunks) and (len(data) % 2 == 0)
    if opts == 'random':
        opts = dc.decoder_options(ctx.rng) if ctx.rng.random() < 0.7 else None
    calls, flat, err, cb = dc.run_decoder(chunks, m, use_callback=True, as_ints=as_ints, typed_callbacks=typed, opts=opts)
    if as_ints:
        ctx.count('fed_as_single_ints')
    ctx.count('warn_on_error_%s' % (opts or {}).get('warn_on_error', 'none'))
    replay = {'stream': data.hex(), 'tokens': kinds, 'max_payload': m, 'chunks': [c.hex() for c in chunks], 'options': opts}
    if err is not None:
        if err.startswith('SharedResult'):
            ctx.violation('C04/result-list-shared-between-calls', err, replay)
            return
        ctx.violation('C04/decoder-raised', 'on_data raised %s' % err, replay)
        return
    lines.append('pydec %d %s' % (m, ','.join(c.hex() or '-' for c in chunks) or '='))
    lines.append('scan %d %s' % (m, data.hex()))
    # callbacks registered for one message type see exactly the returned messages of that type, in order
    for t, sink in typed.items():
        want = [d['offset'] for d in flat if int(d['header'].message_type) == t]
        got = [a[3] for a in sink if len(a) >= 4]
        if got != want:
            ctx.violation('C04/typed-callbacks-differ', 'callback for type %d saw offsets %s, returned messages of that type are at %s' %
                          (t, got[:10], want[:10]), replay)
    pending.append((replay, calls, flat, cb, data, m))


def judge(ctx, replay, calls, flat, cb, data, m, model_out, scan_out):
    impl = ';'.join(calls)
    if impl != model_out:
        ctx.disagree('decoder != model: impl=%s model=%s' % (impl[:200], model_out[:200]), replay)
    # oracle: the property itself
    msgs, restlen, off = scan_out.split('|')
    got = ','.join('%d:%d' % (d['offset'], len(d['raw'])) for d in flat)
    if got != msgs:
        ctx.violation('C04/results-differ-from-scan',
                      'decoder returned [%s], left-to-right scan accepts [%s]' % (got, msgs), replay)
        return
    for d in flat:
        o, raw = d['offset'], d['raw']
        if data[o:o + len(raw)] != raw:
            ctx.violation('C04/raw-bytes-or-offset-wrong', 'raw bytes differ from stream at reported offset %d' % o, replay)
            return
        if dc.header_fields(d['header']) != dc.header_fields_from_raw(raw):
            ctx.violation('C04/header-differs-from-bytes', 'returned header differs from the raw bytes at %d' % o, replay)
            return
    if calls:
        last = calls[-1].split('|')
        buflen, processed = int(last[1]), int(last[3])
        if buflen + processed != len(data):
            ctx.violation('C04/bytes-not-conserved', 'processed %d + buffered %d != given %d' % (processed, buflen, len(data)), replay)
        if buflen >= 24 + m + 24 + 1:
            ctx.violation('C04/buffer-unbounded', 'buffer holds %d bytes with max payload %d' % (buflen, m), replay)
    if len(cb) != len(flat):
        ctx.violation('C04/callbacks-differ', 'callbacks saw %d messages, return value has %d' % (len(cb), len(flat)), replay)
    ctx.count('messages_returned', len(flat))


def run(ctx, budget):
    lines, pending = [], []
    for r in fv.corpus('C04'):          # regression corpus first
        if 'stream' in r and 'chunks' in r:
            check_one(ctx, bytes.fromhex(r['stream']), r.get('tokens', 'corpus'), r.get('max_payload', 1 << 24),
                      [bytes.fromhex(c) for c in r['chunks']], lines, pending, opts=r.get('options'))
            ctx.count('corpus_cases')
    allcases = cases(ctx, budget)
    for data, kinds in allcases:
        for t in kinds if kinds.isalpha() and kinds.isupper() else ['x']:
            ctx.count('token_' + t)
        ms = MAXES if len(data) < 400 else [ctx.rng.choice(MAXES)]
        for m in ms:
            chs = gen.chunkings(ctx.rng, data, ctx.thorough)
            for chunks in (chs if m == MAXES[-1] else chs[:2]):
                check_one(ctx, data, kinds, m, chunks, lines, pending)
    outs = ctx.driver(lines)
    for i, (replay, calls, flat, cb, data, m) in enumerate(pending):
        judge(ctx, replay, calls, flat, cb, data, m, outs[2 * i], outs[2 * i + 1])
        ctx.case(lines[2 * i], nontrivial=bool(flat) or len(data) >= 24)
        ctx.cov['traces_validated_against_impl'] += 1
        if flat and len(ctx.cov['samples']) < 4 and len(data) < 200:
            ctx.sample({'request': lines[2 * i][:300], 'impl_and_model': outs[2 * i]})
    # return_bytes / return_offset settings: shapes only
    for rb in (False, True):
        for ro in (False, True):
            data, kinds = gen.stream(ctx.rng, 4, 'VUZ')
            calls, flat, err, _ = dc.run_decoder([data], 1 << 24, return_bytes=rb, return_offset=ro)
            if err or len(flat) != 4:
                ctx.violation('C04/return-flags', 'return_bytes=%s return_offset=%s: %s results, err=%s' % (rb, ro, len(flat), err),
                              {'stream': data.hex(), 'return_bytes': rb, 'return_offset': ro})


def search(ctx):
    ctx.notes.append('stage E: widened search')
    run(ctx, 1500)


def check(ctx):
    ctx.cov['rule'] = ('streams = all token sequences of length %d over a 14-token alphabet (valid message of a registered class, '
                       'unknown type, wrapper with nested message, corrupted, truncated, bare sync, false header with plausible / huge '
                       'length / non-zero reserved, junk, duplicated sync byte, empty payload, undeserialisable payload, length-inferred '
                       'payload) + random longer streams + malformed streams, x max_payload_len_bytes in %s x chunkings; a case is '
                       'non-trivial if the stream has >= 24 bytes or a message is returned; distinct = distinct (max, chunks) request'
                       % (3 if ctx.thorough else 2, MAXES))
    ctx.assumptions += ['zlib.crc32 is CRC-32/ISO-HDLC as defined bit-serially in Model/Crc32.lean (tested by C06)',
                        'the decoder model (Model/PyDecoder.lean) is tied to decoder.py by the per-call comparison of results and of '
                        '_buffer length, _header presence and _bytes_processed']
    ctx.prove(MODULES)
    if not ctx.proof_failures or True:
        try:
            run(ctx, 1200 if ctx.thorough else 150)
        except fv.InfraError:
            if not ctx.proof_failures:
                raise
    return fv.finish(ctx, 'proof', search)


def replay(ctx, path):
    obj = json.load(open(path))
    r = obj['input']
    data = bytes.fromhex(r['stream'])
    chunks = [bytes.fromhex(c) for c in r['chunks']]
    lines, pending = [], []
    check_one(ctx, data, r.get('tokens', ''), r['max_payload'], chunks, lines, pending, opts=r.get('options'))
    outs = ctx.driver(lines)
    for i, p in enumerate(pending):
        judge(ctx, *p, outs[2 * i], outs[2 * i + 1])
    return fv.finish(ctx, 'proof', None)
