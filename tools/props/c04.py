"""C04 - the Python stream decoder returns exactly the valid messages in a byte stream."""
import itertools
import struct
import zlib
import json

import fv
import gen
from props import decoder_common as dc

MODULES = ['FeVerif.Props.C04']
MAXES = [0, 8, 140, 1 << 24]
# how the caller hands a chunk over (decoder_common.run_decoder): the property speaks of the byte stream, not of the Python object
# that carries it, so every form must give the results of the immutable copy - and leave the caller's object as it was
FORMS = ['bytes', 'bytes', 'bytearray', 'ba_clear_extend', 'ba_reuse', 'ba_wipe', 'memoryview', 'mv_bytearray', 'mv_recv_into']


def stream_types(data):
    """Message type numbers at every place that looks like a header (cheap; only used to choose callback types)."""
    ts, i = [], data.find(b'\x2e\x31')
    while i >= 0 and len(ts) < 40:
        if i + 12 <= len(data):
            ts.append(data[i + 10] | (data[i + 11] << 8))
        i = data.find(b'\x2e\x31', i + 1)
    return ts


def late_callbacks(rng, data, chunks):
    """A history of add_callback() calls made while the decoder is in use: typed and catch-all, between on_data() calls and from
    inside a callback between two messages of one call, before and after messages of that type have been delivered."""
    types = stream_types(data) + [10000, 13120, 9]
    nmsg = max(1, min(12, len(data) // 24))
    out = []
    for _ in range(rng.choice([1, 2, 3, 5])):
        t = None if rng.random() < 0.45 else rng.choice(types)
        if rng.random() < 0.5:
            at = ['call', rng.randrange(len(chunks) + 1)]
        else:
            at = ['msg', rng.randrange(nmsg)]
        out.append({'at': at, 'type': t})
    return out


def cases(ctx, budget):
    rng = ctx.rng
    out = []
    # corpus first
    # bounded-exhaustive token sequences
    k = 3 if ctx.thorough else 2
    alphabet = 'VUWCTSFHRJDZNG'
    for kinds in itertools.product(alphabet, repeat=k):
        seqs = {'n': 0}
        data = b''.join(gen.token(rng, t, seqs) for t in kinds)
        out.append((data, ''.join(kinds)))
    for _ in range(budget):
        out.append(gen.stream(rng, rng.choice([1, 2, 3, 5, 8, 12])))
    # large messages (1-5 kB): valid, failing the CRC, false headers announcing that much - next to ordinary tokens
    for _ in range(max(6, budget // 10)):
        out.append(gen.stream(rng, rng.choice([2, 3, 4]), 'LKMLKMVUZJ'))
    # a message followed by near-copies of itself (retransmissions, a repeated header with other content): the exact copy,
    # the copy with one payload bit changed under the unchanged header (CRC field included), the copy with a changed
    # payload and its own CRC, the cut copy - directly after the original, after junk, and after another message
    for rep in range(max(8, budget // 8)):
        seqs = {'n': rng.choice([0, 7])}
        m0 = gen.token(rng, rng.choice('VVUGZL' if rep % 4 == 3 else 'VVUG'), seqs)
        parts, kinds = [m0], 'A'
        for _ in range(rng.choice([1, 1, 2, 3])):
            v = rng.choice('pppexy')
            c = bytearray(m0)
            if v == 'p' and len(c) > 24:
                c[rng.randrange(24, len(c))] ^= 1 << rng.randrange(8)
            elif v == 'x' and len(c) > 24:
                c[rng.randrange(24, len(c))] ^= 1 << rng.randrange(8)
                c[4:8] = struct.pack('<I', zlib.crc32(bytes(c[8:])))
            elif v == 'y':
                c = c[:rng.randrange(2, len(c))]
            sep = rng.choice(['', '', 'J', 'V', 'S'])
            if sep:
                parts.append(gen.token(rng, sep, seqs))
            parts.append(bytes(c))
            kinds += sep + v
        out.append((b''.join(parts), 'near' + kinds))
    # malformed stream: pure random, all sync bytes, lengths at the limits
    for n in (0, 1, 23, 24, 25, 100):
        out.append((bytes(rng.randrange(256) for _ in range(n)), 'rand%d' % n))
    out.append((b'\x2e\x31' * 40, 'allsync'))
    out.append((b'\x2e' * 50, 'allsync0'))
    return out


def check_one(ctx, data, kinds, m, chunks, lines, pending, opts='random', form='random', late='random'):
    typed = {10000: [], 13120: [], 9: []}
    as_ints = bool(chunks) and all(len(c) == 1 for c in chunks) and (len(data) % 2 == 0)
    if opts == 'random':
        opts = dc.decoder_options(ctx.rng) if ctx.rng.random() < 0.7 else None
    if form == 'random':
        form = ctx.rng.choice(FORMS)
    if late == 'random':
        late = late_callbacks(ctx.rng, data, chunks) if ctx.rng.random() < 0.6 else None
    late = [{'at': list(L['at']), 'type': L['type']} for L in late] if late else None
    replay = {'stream': data.hex(), 'tokens': kinds, 'max_payload': m, 'chunks': [c.hex() for c in chunks], 'options': opts,
              'form': form, 'late': [dict(L) for L in late] if late else None}
    calls, flat, err, cb = dc.run_decoder(chunks, m, use_callback=True, as_ints=as_ints, typed_callbacks=typed, opts=opts,
                                          form=form, late=late, check_arg=True)
    if as_ints:
        ctx.count('fed_as_single_ints')
    else:
        ctx.count('form_' + form)
    if late:
        ctx.count('late_callback_histories')
    ctx.count('warn_on_error_%s' % (opts or {}).get('warn_on_error', 'none'))
    if err is not None:
        if err.startswith('SharedResult'):
            ctx.violation('C04/result-list-shared-between-calls', err, replay)
            return
        if err.startswith('ArgumentModified'):
            ctx.violation('C04/caller-data-modified', err, replay)
            return
        ctx.violation('C04/decoder-raised', 'on_data raised %s' % err, replay)
        return
    lines.append('pydec %d %s' % (m, ','.join(c.hex() or '-' for c in chunks) or '='))
    lines.append('scan %d %s' % (m, data.hex()))
    # callbacks registered for one message type see exactly the returned messages of that type, in order
    for t, sink in typed.items():
        want = [d['offset'] for d in flat if int(d['header'].message_type) == t]
        got = [a[3] for a in sink if len(a) >= 4]
        if got != want:
            ctx.violation('C04/typed-callbacks-differ', 'callback for type %d saw offsets %s, returned messages of that type are at %s' %
                          (t, got[:10], want[:10]), replay)
    pending.append((replay, calls, flat, (cb, late), data, m))


def judge_late(ctx, replay, flat, late, data, accepted):
    """Every callback registered while the decoder was in use received exactly the accepted messages (of its type) that
    came after its registration, once each and in order. `accepted` = the (offset, length) list of the left-to-right scan
    (the Lean oracle), already found equal to the returned list. A callback registered from inside a callback while
    message n is delivered may or may not receive message n itself; it must receive every later one."""
    for L in late or []:
        if L.get('sink') is None:
            continue
        t, n0, at = L['type'], L['n0'], L['at']
        sel = [k for k in range(len(flat)) if t is None or int(flat[k]['header'].message_type) == t]
        want = [accepted[k] for k in sel if k >= n0 + (1 if at[0] == 'msg' else 0)]
        optional = [accepted[k] for k in sel if k == n0] if at[0] == 'msg' else []
        got = [(a[3], len(a[2])) if len(a) >= 4 else None for a in L['sink']]
        if got != want and got != optional + want:
            ctx.count('late_callback_failures')
            ctx.violation('C04/late-callback-missed-messages' if len(got) < len(want) else 'C04/late-callback-sequence-wrong',
                          'callback for %s registered %s (%d messages delivered before) received (offset, length) %s; the scan '
                          'accepts %s after that point' % ('every type' if t is None else 'type %d' % t,
                                                           'before on_data() call %d' % at[1] if at[0] == 'call' else
                                                           'from inside a callback during message %d' % at[1], n0, got[:12], want[:12]),
                          replay)
            return
        for a in L['sink']:
            if bytes(a[2]) != data[a[3]:a[3] + len(a[2])]:
                ctx.violation('C04/late-callback-raw-bytes-wrong', 'callback received raw bytes that differ from the stream at %d' % a[3],
                              replay)
                return
        ctx.count('late_callbacks_checked')
        if want:
            ctx.count('late_callbacks_with_messages_after_registration')
        if n0 and t is None and want:
            ctx.count('late_catch_all_after_earlier_messages')


def judge(ctx, replay, calls, flat, cb, data, m, model_out, scan_out):
    cb, late = cb if isinstance(cb, tuple) else (cb, None)
    impl = ';'.join(calls)
    if impl != model_out:
        ctx.disagree('decoder != model: impl=%s model=%s' % (impl[:200], model_out[:200]), replay)
    # oracle: the property itself
    msgs, restlen, off = scan_out.split('|')
    got = ','.join('%d:%d' % (d['offset'], len(d['raw'])) for d in flat)
    if got != msgs:
        ctx.violation('C04/results-differ-from-scan',
                      'decoder returned [%s], left-to-right scan accepts [%s]' % (got, msgs), replay)
        return
    for d in flat:
        o, raw = d['offset'], d['raw']
        if data[o:o + len(raw)] != raw:
            ctx.violation('C04/raw-bytes-or-offset-wrong', 'raw bytes differ from stream at reported offset %d' % o, replay)
            return
        if dc.header_fields(d['header']) != dc.header_fields_from_raw(raw):
            ctx.violation('C04/header-differs-from-bytes', 'returned header differs from the raw bytes at %d' % o, replay)
            return
    if calls:
        last = calls[-1].split('|')
        buflen, processed = int(last[1]), int(last[3])
        if buflen + processed != len(data):
            ctx.violation('C04/bytes-not-conserved', 'processed %d + buffered %d != given %d' % (processed, buflen, len(data)), replay)
        if buflen >= 24 + m + 24 + 1:
            ctx.violation('C04/buffer-unbounded', 'buffer holds %d bytes with max payload %d' % (buflen, m), replay)
    if len(cb) != len(flat):
        ctx.violation('C04/callbacks-differ', 'callbacks saw %d messages, return value has %d' % (len(cb), len(flat)), replay)
    judge_late(ctx, replay, flat, late, data, [(d['offset'], len(d['raw'])) for d in flat])
    ctx.count('messages_returned', len(flat))


def run(ctx, budget):
    lines, pending = [], []
    for r in fv.corpus('C04'):          # regression corpus first
        if 'stream' in r and 'chunks' in r:
            check_one(ctx, bytes.fromhex(r['stream']), r.get('tokens', 'corpus'), r.get('max_payload', 1 << 24),
                      [bytes.fromhex(c) for c in r['chunks']], lines, pending, opts=r.get('options'),
                      form=r.get('form', 'bytes'), late=r.get('late'))
            ctx.count('corpus_cases')
    allcases = cases(ctx, budget)
    for data, kinds in allcases:
        for t in kinds if kinds.isalpha() and kinds.isupper() else ['x']:
            ctx.count('token_' + t)
        ms = MAXES if len(data) < 400 else [ctx.rng.choice(MAXES)]
        for m in ms:
            chs = gen.chunkings(ctx.rng, data, ctx.thorough)
            for chunks in (chs if m == MAXES[-1] else chs[:2]):
                check_one(ctx, data, kinds, m, chunks, lines, pending)
    outs = ctx.driver(lines)
    for i, (replay, calls, flat, cb, data, m) in enumerate(pending):
        judge(ctx, replay, calls, flat, cb, data, m, outs[2 * i], outs[2 * i + 1])
        ctx.case(lines[2 * i], nontrivial=bool(flat) or len(data) >= 24)
        ctx.cov['traces_validated_against_impl'] += 1
        if flat and len(ctx.cov['samples']) < 4 and len(data) < 200:
            ctx.sample({'request': lines[2 * i][:300], 'impl_and_model': outs[2 * i]})
    # return_bytes / return_offset settings: shapes, and the callbacks (registered before, between and during calls) get the
    # same messages whatever the result tuples contain
    for rb in (False, True):
        for ro in (False, True):
            for rep in range(6 if ctx.thorough else 3):
                data, kinds = gen.stream(ctx.rng, 4, 'VUZ')
                chunks = [data] if rep == 0 else ctx.rng.choice(gen.chunkings(ctx.rng, data)[2:])
                form = ctx.rng.choice(FORMS)
                late = late_callbacks(ctx.rng, data, chunks) + [{'at': ['call', len(chunks) // 2], 'type': None}, {'at': ['msg', 1], 'type': None}]
                replay = {'stream': data.hex(), 'return_bytes': rb, 'return_offset': ro, 'chunks': [c.hex() for c in chunks],
                          'form': form, 'late': [dict(L) for L in late]}
                calls, flat, err, _ = dc.run_decoder(chunks, 1 << 24, return_bytes=rb, return_offset=ro, form=form, late=late,
                                                     check_arg=True)
                if err or len(flat) != 4:
                    ctx.violation('C04/return-flags', 'return_bytes=%s return_offset=%s: %s results, err=%s' % (rb, ro, len(flat), err),
                                  replay)
                    continue
                width = 2 + int(rb) + int(ro)
                fields = [dc.header_fields(d['header']) for d in flat]
                for L in late:
                    if L.get('sink') is None:
                        continue
                    t, n0, at = L['type'], L['n0'], L['at']
                    sel = [k for k in range(4) if t is None or fields[k][4] == t]
                    want = [fields[k] for k in sel if k >= n0 + (1 if at[0] == 'msg' else 0)]
                    optional = [fields[k] for k in sel if k == n0] if at[0] == 'msg' else []
                    got = [dc.header_fields(a[0]) for a in L['sink']]
                    if (got != want and got != optional + want) or any(len(a) != width for a in L['sink']):
                        ctx.violation('C04/return-flags-late-callback',
                                      'return_bytes=%s return_offset=%s: callback for %s registered at %s received messages with sequence '
                                      'numbers %s (argument counts %s), the messages after that point have %s (and %d arguments)' %
                                      (rb, ro, t, at, [g[5] for g in got], sorted(set(len(a) for a in L['sink'])),
                                       [w[5] for w in want], width), replay)
                        break
                ctx.count('return_flag_histories')


def search(ctx):
    ctx.notes.append('stage E: widened search')
    run(ctx, 1500)


def check(ctx):
    ctx.cov['rule'] = ('streams = all token sequences of length %d over a 14-token alphabet (valid message of a registered class, '
                       'unknown type, wrapper with nested message, corrupted, truncated, bare sync, false header with plausible / huge '
                       'length / non-zero reserved, junk, duplicated sync byte, empty payload, undeserialisable payload, length-inferred '
                       'payload) + random longer streams + malformed streams, x max_payload_len_bytes in %s x chunkings; a case is '
                       'non-trivial if the stream has >= 24 bytes or a message is returned; distinct = distinct (max, chunks) request'
                       % (3 if ctx.thorough else 2, MAXES))
    ctx.assumptions += ['zlib.crc32 is CRC-32/ISO-HDLC as defined bit-serially in Model/Crc32.lean (tested by C06)',
                        'the decoder model (Model/PyDecoder.lean) is tied to decoder.py by the per-call comparison of results and of '
                        '_buffer length, _header presence and _bytes_processed']
    ctx.prove(MODULES)
    if not ctx.proof_failures or True:
        try:
            run(ctx, 1200 if ctx.thorough else 150)
        except fv.InfraError:
            if not ctx.proof_failures:
                raise
    return fv.finish(ctx, 'proof', search)


def replay(ctx, path):
    obj = json.load(open(path))
    r = obj['input']
    data = bytes.fromhex(r['stream'])
    chunks = [bytes.fromhex(c) for c in r['chunks']]
    lines, pending = [], []
    check_one(ctx, data, r.get('tokens', ''), r['max_payload'], chunks, lines, pending, opts=r.get('options'),
              form=r.get('form', 'bytes'), late=r.get('late'))
    outs = ctx.driver(lines)
    for i, p in enumerate(pending):
        judge(ctx, *p, outs[2 * i], outs[2 * i + 1])
    return fv.finish(ctx, 'proof', None)
