"""C05 - decoder output is independent of how the stream is split into chunks."""
import json

import canon
import fv
import gen
from props import decoder_common as dc

MODULES = ['FeVerif.Props.C05']


def flat_canon(flat):
    return [(d['offset'], d['raw'].hex(), dc.header_fields(d['header']), repr(canon.canon(d['contents']))) for d in flat]


def one_stream(ctx, data, kinds, m, lines, pending, opts='random'):
    if opts == 'random':
        opts = dc.decoder_options(ctx.rng) if ctx.rng.random() < 0.7 else None      # one decoder configuration per stream
    replay0 = {'stream': data.hex(), 'tokens': kinds, 'max_payload': m, 'options': opts}
    chs = gen.chunkings(ctx.rng, data, ctx.thorough)
    if len(data) <= (160 if ctx.thorough else 90):
        # all contiguous (prefix, next chunk) pairs: [data[:i], data[i:j]] -- with state equality after every
        # prefix this covers all partitions by induction
        n = len(data)
        step = 1 if n < 60 else 3
        for i in range(0, n + 1, step):
            chs.append([data[:i], data[i:]])
    ref = None
    forms = [(c, 'bytes', False) for c in chs]
    # the other documented / plausible call forms of the same chunkings: single bytes as ints, caller-owned bytearrays
    forms += [(chs[1], 'bytes', True), (chs[1], 'ba_reuse', False)]
    for c in chs[2:5]:
        forms += [(c, 'ba_wipe', False), (c, 'ba_reuse', False)]
    for chunks, form, as_ints in forms:
        calls, flat, err, _ = dc.run_decoder(chunks, m, form=form, as_ints=as_ints, opts=opts)
        replay = dict(replay0, chunks=[c.hex() for c in chunks], form=form, as_ints=as_ints)
        ctx.count('form_' + form + ('_ints' if as_ints else ''))
        if err is not None:
            if err.startswith('SharedResult'):
                ctx.violation('C05/result-list-shared-between-calls', err, replay)
                return
            ctx.violation('C05/decoder-raised', 'on_data raised %s' % err, replay)
            return
        fc = flat_canon(flat)
        final = calls[-1].split('|', 1)[1] if calls else '0|0|0'
        if ref is None:
            ref = (fc, final, chunks)
            # payload values must be those of the message's own bytes
            for d in flat:
                if repr(canon.canon(d['contents'])) != repr(dc.expected_contents(d['raw'])):
                    ctx.violation('C05/payload-depends-on-following-bytes',
                                  'message at %d: decoded payload differs from decoding exactly its own bytes' % d['offset'], replay)
                    return
        else:
            if fc != ref[0]:
                what = 'results'
                a = [(x[0], len(x[1]) // 2) for x in ref[0]]
                b = [(x[0], len(x[1]) // 2) for x in fc]
                if a == b:
                    what = 'payload-values' if [x[:3] for x in fc] == [x[:3] for x in ref[0]] else 'headers-or-bytes'
                ctx.violation('C05/chunking-changes-' + what,
                              'one call gives %s, chunking %s gives %s' % (a, [len(c) for c in chunks][:12], b), replay)
                return
            if final != ref[1]:
                ctx.violation('C05/chunking-changes-final-state',
                              'final (buffered|header cached|processed) %s vs %s' % (ref[1], final), replay)
                return
        lines.append('pydec %d %s' % (m, ','.join(c.hex() or '-' for c in chunks) or '='))
        pending.append((replay, calls))
        ctx.case(lines[-1], nontrivial=bool(flat))
    # delivery time, byte by byte
    chunks = [data[i:i + 1] for i in range(len(data))]
    calls, flat, err, _ = dc.run_decoder(chunks, m, opts=opts)
    processed = [int(c.split('|')[3]) for c in calls]
    for k, c in enumerate(calls, 1):
        for pr in filter(None, c.split('|')[0].split(',')):
            o, n = map(int, pr.split(':'))
            if k != o + n:
                # allowed only if an earlier candidate was still pending when the last byte arrived
                if not (processed[o + n - 1] < o):
                    ctx.violation('C05/delivered-late', 'message %d:%d delivered by byte %d' % (o, n, k),
                                  dict(replay0, chunks=[x.hex() for x in chunks]))
                else:
                    ctx.count('late_delivery_blocked_by_earlier_candidate')
            else:
                ctx.count('delivered_with_last_byte')


def run(ctx, budget):
    lines, pending = [], []
    rng = ctx.rng
    streams = []
    alphabet = 'VVVUWGGCTSFHRJDZN'
    for _ in range(budget):
        streams.append(gen.stream(rng, rng.choice([1, 2, 3, 4, 6]), alphabet))
    # length-inferred payloads followed directly by other messages
    for _ in range(budget // 4 + 5):
        streams.append(gen.stream(rng, rng.choice([2, 3]), 'GGWV'))
    # large messages (1-5 kB) directly followed by other data
    for _ in range(max(6, budget // 10)):
        streams.append(gen.stream(rng, rng.choice([2, 3, 4]), 'LKMLKMVUZJ'))
    for n in (1024, 2048, 2049, 4100):
        seqs = {'n': 3}
        big = gen.frame(rng.choice([13120, 2999]), bytes(rng.randrange(256) for _ in range(n)), 1, 0)
        streams.append((big + gen.token(rng, 'V', seqs), 'LV'))
        streams.append((gen.token(rng, 'Z', seqs) + big + b'\x2e', 'ZLS'))
    for r in fv.corpus('C05') + fv.corpus('C04'):      # regression corpus first
        if 'stream' in r:
            one_stream(ctx, bytes.fromhex(r['stream']), 'corpus', r.get('max_payload', 1 << 24), lines, pending)
            ctx.count('corpus_cases')
    for data, kinds in streams:
        for t in kinds:
            ctx.count('token_' + t)
        one_stream(ctx, data, kinds, rng.choice([1 << 24, 1 << 24, 140, 30]), lines, pending)
    outs = ctx.driver(lines)
    for (replay, calls), mo in zip(pending, outs):
        if ';'.join(calls) != mo:
            ctx.disagree('decoder != model: impl=%s model=%s' % (';'.join(calls)[:200], mo[:200]), replay)
        ctx.cov['traces_validated_against_impl'] += 1
    for (replay, calls), mo in list(zip(pending, outs))[:3]:
        ctx.sample({'max': replay['max_payload'], 'chunk_sizes': [len(c) // 2 for c in replay['chunks']][:20], 'per_call': mo[:200]})


def search(ctx):
    run(ctx, 600)


def check(ctx):
    ctx.cov['rule'] = ('streams of 1-6 tokens (valid messages of every registered class, length-inferred payloads, wrappers, '
                       'corrupted/truncated messages, false headers, junk); per stream: one call, one byte per call, random '
                       'partitions, 24- and 7-byte chunks and, for short streams, every (prefix, rest) pair; compared: '
                       'offsets, raw bytes, header fields, decoded payload field values and the final decoder state; '
                       'non-trivial = at least one message returned; distinct = distinct chunk list')
    ctx.assumptions += ['payload field values are compared on the implementation between chunkings and against the class\'s own '
                        'unpack of exactly the message bytes (the Lean model carries offsets/lengths/state, not fields)']
    ctx.prove(MODULES)
    try:
        run(ctx, 400 if ctx.thorough else 60)
    except fv.InfraError:
        if not ctx.proof_failures:
            raise
    return fv.finish(ctx, 'proof', search)


def replay(ctx, path):
    obj = json.load(open(path))
    r = obj['input']
    lines, pending = [], []
    one_stream(ctx, bytes.fromhex(r['stream']), r.get('tokens', ''), r['max_payload'], lines, pending, opts=r.get('options', 'random'))
    return fv.finish(ctx, 'proof', None)
